#!/bin/bash
# run every claimed check (quick by default) on the current tree; regenerates evidence/*.json
cd "$(dirname "$0")/.."
tier=${1:-quick}
rc=0
for p in $(python3 -c "import json;print(' '.join(c['property_id'] for c in json.load(open('MANIFEST.json'))['checks']))"); do
  /venv/bin/python harness/check.py $p --tier $tier | tail -4 || rc=1
done
exit $rc
