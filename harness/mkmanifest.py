#!/usr/bin/env python3
"""Regenerates MANIFEST.json from the table below (kept in one place so it stays valid)."""
import json
import os

VERIF = os.path.dirname(os.path.dirname(os.path.abspath(__file__)))

COMMON_NOTE = ("Trusted: Lean 4.33 kernel (axioms of each theorem audited on every run, must be within propext/Classical.choice/Quot.sound; "
               "no sorry/native_decide/bv_decide), Lean compiler for the native driver, this harness. The tie between the hand-written model and "
               "/repo is the correspondence run (implementation vs driver on generated and corpus inputs, world enumeration <= 7 atoms); "
               "solver libraries (pysmt/z3, pysat RC2, z3 Optimize) are modelled by contract, not verified.")

CLAIMED = {
    "C01": ("Lean theorems C01_partition / C01_models / C01_trivial: the model of PEntailment (refusal, short cut, tolerance test of D+(notB|A)) "
            "answers True iff no tolerance partition exists iff every ranking model accepts the query, for all bases and queries; the model is tied "
            "to the code by answer-level correspondence on generated bases.", "5 C01",
            "Lean 4 proof (model = definition) + differential correspondence with the implementation"),
    "C02": ("Lean theorem C02_main: the model of SystemZ (descending-layer recursion behind the wrapper) equals the rank comparison under the "
            "Z-ranking for every base/query/layer count; C02_zrank_zero/succ tie the ranking to the property's wording.", "5 C02",
            "Lean 4 proof + differential correspondence"),
    "C03": ("Lean theorem C03_main: the System W recursion over inclusion-minimal correction sets equals the preferred-structure definition "
            "for all inputs; both back-ends share the model (optimizer call = famMin contract, discharged in C15).", "5 C03",
            "Lean 4 proof + differential correspondence (rc2 and z3)"),
    "C04": ("Lean theorem C04_main: the repaired lexicographic recursion equals the lexicographic definition; C04_allpairs_wrong refutes the "
            "pre-fix recursion on a concrete base (decide).", "5 C04", "Lean 4 proof + differential correspondence (rc2 and z3)"),
}

PENDING = {}


def main():
    props = [json.loads(l) for l in open(os.path.join(VERIF, "properties.jsonl"))]
    ids = [p["id"] for p in props]
    extra = {}
    ep = os.path.join(VERIF, "harness", "manifest_table.json")
    if os.path.exists(ep):
        extra = json.load(open(ep))
    claimed = dict(CLAIMED)
    claimed.update({k: tuple(v) for k, v in extra.get("claimed", {}).items()})
    pending = dict(PENDING)
    pending.update(extra.get("pending", {}))
    hooks_commits = extra.get("hook_commits", [])
    checks = []
    na = []
    for pid in ids:
        if pid in claimed:
            text, ref, tech = claimed[pid]
            checks.append({
                "property_id": pid,
                "quick_cmd": f"/venv/bin/python harness/check.py {pid} --tier quick",
                "thorough_cmd": f"/venv/bin/python harness/check.py {pid} --tier thorough",
                "evidence_file": f"/verif/evidence/{pid}.json",
                "replay_cmd_template": f"/venv/bin/python harness/check.py {pid} --replay {{path}}",
                "engine": "lean-model+correspondence",
                "level_claimed": {"category": "proof", "text": text, "design_ref": f"DESIGN.md §{ref}"},
                "level_note": extra.get("notes", {}).get(pid, COMMON_NOTE),
                "technique": tech,
            })
        else:
            na.append({"property_id": pid, "reason": pending.get(pid, "check not built yet in this session; see DESIGN.md §11 build order")})
    man = {
        "version": 1,
        "setup_cmd": "cd lean && lake build InfOCFModel driver",
        "hooks": {
            "guard": "INFOCF_VERIF",
            "enable": "the harness sets INFOCF_VERIF=1 in its own process; no hook code is needed by the current checks",
            "baseline_off_cmd": "cd /repo && /venv/bin/python -m pytest -ra -q -p no:cacheprovider --timeout=900 --continue-on-collection-errors",
            "source_commits": hooks_commits,
            "add_only": True,
        },
        "engines": [{
            "name": "lean-model+correspondence",
            "path": "lean/ (model, specs, theorems, native driver) + harness/ (Python correspondence)",
            "serves_properties": sorted(claimed),
            "kind_free_text": "hand-written Lean 4 model with machine-checked theorems; tie to the code by differential correspondence",
        }],
        "checks": checks,
        "not_applicable": na,
        "notes": "See DESIGN.md. KNOWN_FINDINGS.json lists repaired (fixed:) and open findings.",
    }
    with open(os.path.join(VERIF, "MANIFEST.json"), "w") as fh:
        json.dump(man, fh, indent=1)
    print(f"claimed {len(checks)}; not_applicable {len(na)}")


if __name__ == "__main__":
    main()
