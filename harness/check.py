#!/venv/bin/python
"""check.py <Cxx> [--tier quick|thorough] [--replay file]

Decision flow (DESIGN.md §3.4):
 1. build the Lean project, audit the property's theorems (axioms, forbidden words)
 2. corpus + generated cases: implementation vs model(=spec by theorem) on the property's observation
 3. disagreements are shrunk, matched against KNOWN_FINDINGS.json, written as replay files
Exit 0: held on everything explored. Exit 1 + "VIOLATION property=<id> replay=<path>". Exit 2: broken run.
"""
from __future__ import annotations

import argparse
import importlib
import json
import multiprocessing as mp
import os
import random
import sys
import traceback

sys.path.insert(0, os.path.dirname(os.path.abspath(__file__)))
import core  # noqa: E402


class Ctx:
    def __init__(self, prop, tier):
        self.prop = prop
        self.tier = tier
        self.seed = core.seed()
        self.rng = random.Random(f"{prop}-{self.seed}")
        self.stats = {}
        self.samples = []
        self.evaluations = 0
        self.nontrivial = set()
        self.failures = []
        self.notes = []
        self.exhaustive = False
        self._shrunk = set()

    def bump(self, key, by=1):
        self.stats[key] = self.stats.get(key, 0) + by

    def fail(self, f, shrink=None, cap=4):
        """record a failure; only the first failure of a signature (and at most `cap` in all) is shrunk, so a
        badly broken tree does not spend its time minimising hundreds of equivalent failures"""
        sig = f.get("signature")
        if shrink is not None and sig not in self._shrunk and len(self._shrunk) < cap:
            self._shrunk.add(sig)
            try:
                f = shrink(f)
            except Exception:  # noqa: BLE001
                pass
        self.failures.append(f)

    def sample(self, x, cap=4):
        if len(self.samples) < cap:
            self.samples.append(x)


def _pool_init():
    os.environ["INFOCF_LOGLEVEL"] = "ERROR"


class WorkerDied(Exception):
    """a worker process died (native crash in a solver, kill) while evaluating `item`"""

    def __init__(self, item):
        super().__init__("worker process died while evaluating: " + repr(item)[:600])
        self.item = item


_FLAGS = None


def _tracked(args):
    fn, i, slot, x = args
    if _FLAGS is not None:
        _FLAGS[slot] = 1
    r = fn(x)
    if _FLAGS is not None:
        _FLAGS[slot] = 2
    return i, r


def _run_pool(fn, items, procs, daemon_ok=True):
    """map over a process pool that notices dead workers (multiprocessing.Pool.map would hang for ever);
    returns (results dict index -> value, indices lost when the pool broke, indices that were being evaluated then)"""
    global _FLAGS
    from concurrent.futures import ProcessPoolExecutor, as_completed
    from concurrent.futures.process import BrokenProcessPool

    done, lost = {}, []
    ctxm = mp.get_context("fork")
    _FLAGS = ctxm.Array("b", len(items), lock=False)   # inherited by the forked workers
    try:
        with ProcessPoolExecutor(max_workers=procs, mp_context=ctxm, initializer=_pool_init) as ex:
            futs = {ex.submit(_tracked, (fn, i, slot, x)): (i, slot) for slot, (i, x) in enumerate(items)}
            for f in as_completed(futs):
                i, slot = futs[f]
                try:
                    done[i] = f.result()[1]
                except BrokenProcessPool:
                    lost.append(i)
        suspects = sorted(i for f, (i, slot) in futs.items() if i not in done and _FLAGS[slot] == 1)
    finally:
        _FLAGS = None
    return done, sorted(lost), suspects


def pmap(fn, items, procs, on_died=None):
    """`on_died(item)` may supply a replacement result for an item whose evaluation kills its worker process"""
    items = list(items)
    if procs <= 1 or len(items) < 4:
        return [fn(x) for x in items]
    pending = list(enumerate(items))
    results = {}
    while pending:
        done, lost, suspects = _run_pool(fn, pending, procs)
        results.update(done)
        # the items that were being evaluated when a worker died run one per pool, so that the culprit is identified
        for i in suspects:
            d1, l1, _s = _run_pool(fn, [(i, items[i])], 1)
            if l1:
                if on_died is None:
                    raise WorkerDied(items[i])
                results[i] = on_died(items[i])
            else:
                results.update(d1)
        if lost and not suspects:
            raise WorkerDied("unknown item (a worker died outside an evaluation)")
        pending = [(i, items[i]) for i in lost if i not in results]
    return [results[i] for i in range(len(items))]


def pmap_nd(fn, items, procs):
    """like pmap, but with non-daemonic workers (they may start processes themselves)"""
    if procs <= 1 or len(items) < 2:
        return [fn(x) for x in items]
    from concurrent.futures import ProcessPoolExecutor

    with ProcessPoolExecutor(max_workers=procs, mp_context=mp.get_context("fork"), initializer=_pool_init) as ex:
        return list(ex.map(fn, items, chunksize=1))


def report_violation(prop, payload, suffix=""):
    path = core.write_replay(prop, payload)
    print(f"VIOLATION property={prop} replay={path}{suffix}")
    return path


def match_known(prop, mod, failure, findings):
    for f in findings:
        if f.get("status") != "open" or f.get("property") != prop:
            continue
        if f.get("signature") != failure.get("signature"):
            continue
        trig = getattr(mod, "TRIGGERS", {}).get(f.get("trigger"))
        if trig is None:
            continue
        try:
            if trig(failure["case"]):
                return f
        except Exception:  # noqa: BLE001
            continue
    return None


def _own_process_group():
    """processes started below this check (pool workers, and what the library starts inside them: multiprocessing managers,
    per-query workers) must not outlive it - a worker killed while the library holds a `multiprocessing.Manager()` leaves
    the manager's server process behind, which keeps the check's stdout open for ever. The check therefore runs in a
    process group of its own and signals that group when it exits."""
    import atexit
    import signal

    try:
        os.setpgid(0, 0)
    except OSError:
        pass
    if os.getpgid(0) != os.getpid():
        return

    def reap():
        try:
            sys.stdout.flush()
            sys.stderr.flush()
            signal.signal(signal.SIGTERM, signal.SIG_IGN)
            os.killpg(os.getpid(), signal.SIGTERM)
        except Exception:  # noqa: BLE001
            pass
    atexit.register(reap)


def main():
    _own_process_group()
    if os.environ.get("VERIF_DEBUG_HANG"):
        import faulthandler
        faulthandler.dump_traceback_later(int(os.environ["VERIF_DEBUG_HANG"]), exit=True)

    ap = argparse.ArgumentParser()
    ap.add_argument("prop")
    ap.add_argument("--tier", default=os.environ.get("VERIF_TIER", "quick"), choices=["quick", "thorough"])
    ap.add_argument("--replay")
    ap.add_argument("--procs", type=int, default=0)
    args = ap.parse_args()
    prop = args.prop.upper()
    tier = args.tier
    timer = core.Timer()
    mod = importlib.import_module(f"props.{prop.lower()}")
    procs = args.procs or (16 if tier == "thorough" else 8)

    # ---- 1. proofs ------------------------------------------------------------------
    ok, log = core.ensure_built(clean=False)
    theorems = list(getattr(mod, "THEOREMS", []))
    obligations = len(theorems)
    discharged = 0
    proof_problems = []
    if not ok:
        proof_problems.append({"kind": "lake build failed", "log": log[-2000:]})
    else:
        hits = core.grep_forbidden()
        if hits:
            proof_problems.append({"kind": "forbidden word in Lean sources", "hits": hits})
        res = core.audit(theorems)
        for t, (good, info) in res.items():
            if good:
                discharged += 1
            else:
                proof_problems.append({"kind": "theorem not discharged", "theorem": t, "info": info})
        if tier == "thorough" and not args.replay:
            import subprocess

            mods = sorted(set(getattr(mod, "LEAN_MODULES", ["InfOCFModel"])))
            p = subprocess.run(["lake", "env", "leanchecker"] + mods, cwd=core.LEAN_DIR, capture_output=True, text=True)
            if p.returncode != 0:
                proof_problems.append({"kind": "leanchecker rejected", "log": (p.stdout + p.stderr)[-1500:]})

    if proof_problems and not ok:
        # nothing can be evaluated without the driver
        payload = {"property": prop, "no_failing_input_found": True, "broken": proof_problems,
                   "note": "the Lean project does not build; no model to compare with"}
        report_violation(prop, payload, " no-failing-input-found")
        core.write_evidence(prop, tier, {"obligations": max(obligations, 1), "discharged": 0,
                                         "checker_cmd": "lake build InfOCFModel driver", "trusted_base": core.TRUSTED_BASE,
                                         "evaluations": 0, "distinct_nontrivial": 0, "samples": []},
                            timer.s(), 1, getattr(mod, "ASSUMPTIONS", []))
        sys.exit(1)

    # ---- replay mode ------------------------------------------------------------------
    if args.replay:
        payload = json.load(open(args.replay))
        case = payload.get("case")
        if case is None:
            print("replay file names a broken proof obligation, nothing to execute:", json.dumps(payload.get("broken"))[:500])
            sys.exit(1 if proof_problems else 0)
        fail = mod.recheck(case)
        print(json.dumps({"case": case, "failure": fail}, indent=1, default=str))
        sys.exit(1 if fail else 0)

    # ---- 2. correspondence --------------------------------------------------------------
    ctx = Ctx(prop, tier)
    ctx.procs = procs
    try:
        mod.run(ctx)
    except core.DriverError as e:
        payload = {"property": prop, "no_failing_input_found": True,
                   "broken": [{"kind": "driver/model-vs-spec internal error", "error": str(e)[:2000]}]}
        report_violation(prop, payload, " no-failing-input-found")
        sys.exit(1)
    except Exception:  # noqa: BLE001
        traceback.print_exc()
        print("harness error (broken run, not a verdict)")
        sys.exit(2)

    # ---- 3. verdict -----------------------------------------------------------------------
    findings = core.load_known_findings()
    violations = 0
    known_printed = set()
    reported = set()
    for fail in ctx.failures:
        kf = match_known(prop, mod, fail, findings)
        if kf is not None:
            if kf["id"] not in known_printed:
                known_printed.add(kf["id"])
                print(f"KNOWN-FINDING: property={prop} {kf['id']}: {kf['what']}")
            continue
        sig = fail.get("signature")
        if sig in reported and len(reported) >= 1:
            violations += 1
            continue
        reported.add(sig)
        violations += 1
        payload = {"property": prop, "seed": ctx.seed, "tier": tier, "case": fail["case"],
                   "impl": fail.get("impl"), "spec": fail.get("spec"), "signature": sig,
                   "theorem": fail.get("theorem"), "what": fail.get("what")}
        report_violation(prop, payload)
    # stale open findings: the witness must still fail
    for f in findings:
        if f.get("status") == "open" and f.get("property") == prop and f["id"] not in known_printed:
            ctx.notes.append(f"open finding {f['id']} did not reproduce on this run (stale entry?)")
            print(f"NOTE: open finding {f['id']} not reproduced in this run")

    if proof_problems:
        # a proof obligation broke but the driver still builds: a failing input was searched above
        if violations == 0:
            payload = {"property": prop, "no_failing_input_found": True, "broken": proof_problems,
                       "searched": ctx.evaluations}
            report_violation(prop, payload, " no-failing-input-found")
            violations += 1

    coverage = {
        "obligations": max(obligations, 1),
        "discharged": discharged if obligations else 0,
        "checker_cmd": "cd lean && lake build InfOCFModel driver && lake env lean <#print axioms of each theorem>"
                       + (" && lake env leanchecker" if tier == "thorough" else ""),
        "trusted_base": core.TRUSTED_BASE,
        "theorems": theorems,
        "evaluations": ctx.evaluations,
        "distinct_nontrivial": len(ctx.nontrivial),
        "rule": getattr(mod, "RULE", ""),
        "samples": ctx.samples,
        "distribution": ctx.stats,
        "exhaustive": ctx.exhaustive,
        "known_findings_hit": sorted(known_printed),
        "notes": ctx.notes,
    }
    core.write_evidence(prop, tier, coverage, timer.s(), violations, getattr(mod, "ASSUMPTIONS", []))
    print(f"{prop} {tier}: evaluations={ctx.evaluations} nontrivial={len(ctx.nontrivial)} "
          f"theorems={discharged}/{obligations} violations={violations} wall={timer.s():.1f}s")
    sys.exit(1 if violations else 0)


if __name__ == "__main__":
    main()
