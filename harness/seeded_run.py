#!/usr/bin/env python3
"""Run the registered checks against the seeded changes under /verif/seeded/<id>/.

For each seeded change: the demonstration must pass on the clean tree and fail with the patch;
then the property's quick check is run with the patch applied to /repo (git apply) and the patch
is removed straight afterwards (git checkout -- .). Results go to seeded/RESULTS.json.
usage: seeded_run.py [id ...] [--tier quick|thorough] [--scratch]
--scratch: do not touch /repo; use a temporary git worktree of /repo's HEAD (VERIF_REPO), evidence goes to a scratch directory.
"""
import json
import os
import subprocess
import sys
import time

VERIF = os.path.dirname(os.path.dirname(os.path.abspath(__file__)))
REPO = "/repo"
PY = "/venv/bin/python"


def sh(cmd, cwd=None, env=None, timeout=3600):
    e = dict(os.environ)
    e.update(env or {})
    p = subprocess.run(cmd, cwd=cwd, env=e, capture_output=True, text=True, timeout=timeout)
    return p.returncode, p.stdout + p.stderr


def clean_tree():
    rc, out = sh(["git", "-C", REPO, "status", "--porcelain", "--untracked-files=no"])
    return out.strip() == ""


def run_scratch(ids, tier, root, results):
    import shutil
    import tempfile

    for sid in ids:
        d = os.path.join(root, sid)
        meta = json.load(open(os.path.join(d, "meta.json")))
        patch = os.path.join(d, "patch.diff")
        wt = tempfile.mkdtemp(prefix=f"seedrun_{sid}_", dir="/tmp")
        os.rmdir(wt)
        evd = tempfile.mkdtemp(prefix="seedev_", dir="/tmp")
        r = {"property": meta["property"], "checks": {}, "mode": "scratch worktree"}
        try:
            rc, out = sh(["git", "-C", REPO, "worktree", "add", "--detach", wt, "HEAD"])
            assert rc == 0, out
            env = {"PYTHONPATH": wt, "INFOCF_LOGLEVEL": "ERROR"}
            if meta.get("demo"):
                r["demo_clean_exit"] = sh([PY, os.path.join(d, meta["demo"])], cwd=wt, env=env)[0]
            rc, out = sh(["git", "-C", wt, "apply", patch])
            if rc != 0:
                r["error"] = "patch does not apply: " + out[-300:]
            else:
                if meta.get("demo"):
                    r["demo_patched_exit"] = sh([PY, os.path.join(d, meta["demo"])], cwd=wt, env=env)[0]
                for prop in ([meta["property"]] if os.environ.get("SEEDED_PRIMARY_ONLY") == "1" else meta.get("checks", [meta["property"]])):
                    t0 = time.time()
                    rc, out = sh([PY, os.path.join(VERIF, "harness", "check.py"), prop, "--tier", tier], cwd=VERIF,
                                 env={"VERIF_SEED": os.environ.get("VERIF_SEED", "0"), "VERIF_REPO": wt, "VERIF_EVIDENCE_DIR": evd})
                    viol = [l for l in out.split("\n") if l.startswith("VIOLATION")]
                    r["checks"][prop] = {"exit": rc, "violations": viol[:3], "wall_s": round(time.time() - t0, 1),
                                         "detected": rc == 1 and bool(viol)}
                    if rc not in (0, 1):
                        r["checks"][prop]["tail"] = out[-400:]
        finally:
            sh(["git", "-C", REPO, "worktree", "remove", "--force", wt])
            shutil.rmtree(evd, ignore_errors=True)
        results[sid] = r
        print(sid, "demo clean/patched exit:", r.get("demo_clean_exit"), r.get("demo_patched_exit"),
              "checks:", {p: ("VIOLATION" if c["detected"] else f"exit {c['exit']}") for p, c in r["checks"].items()}, r.get("error", ""))


def main():
    args = [a for a in sys.argv[1:] if not a.startswith("--")]
    tier = "quick"
    if "--tier" in sys.argv:
        tier = sys.argv[sys.argv.index("--tier") + 1]
        args = [a for a in args if a != tier]
    root = os.path.join(VERIF, "seeded")
    ids = args or sorted(d for d in os.listdir(root) if os.path.isdir(os.path.join(root, d)))
    resp = os.environ.get("SEEDED_RESULTS") or os.path.join(root, "RESULTS.json")
    results = json.load(open(resp)) if os.path.exists(resp) else {}
    if "--scratch" in sys.argv:
        run_scratch(ids, tier, root, results)
        with open(resp, "w") as fh:
            json.dump(results, fh, indent=1, sort_keys=True)
        return
    assert clean_tree(), "/repo has uncommitted changes to tracked files"
    for sid in ids:
        d = os.path.join(root, sid)
        meta = json.load(open(os.path.join(d, "meta.json")))
        patch = os.path.join(d, "patch.diff")
        demo = os.path.join(d, meta["demo"])
        env = {"PYTHONPATH": REPO, "INFOCF_LOGLEVEL": "ERROR"}
        r = {"property": meta["property"], "checks": {}}
        rc, out = sh(["git", "-C", REPO, "apply", "--check", patch])
        if rc != 0:
            r["error"] = "patch does not apply: " + out[-300:]
            results[sid] = r
            print(sid, r["error"])
            continue
        rc0, _ = sh([PY, demo], cwd=REPO, env=env)
        r["demo_clean_exit"] = rc0
        try:
            sh(["git", "-C", REPO, "apply", patch])
            rc1, out1 = sh([PY, demo], cwd=REPO, env=env)
            r["demo_patched_exit"] = rc1
            for prop in ([meta["property"]] if os.environ.get("SEEDED_PRIMARY_ONLY") == "1" else meta.get("checks", [meta["property"]])):
                t0 = time.time()
                rc, out = sh([PY, os.path.join(VERIF, "harness", "check.py"), prop, "--tier", tier], cwd=VERIF,
                             env={"VERIF_SEED": os.environ.get("VERIF_SEED", "0")})
                viol = [l for l in out.split("\n") if l.startswith("VIOLATION")]
                r["checks"][prop] = {"exit": rc, "violations": viol[:3], "wall_s": round(time.time() - t0, 1),
                                     "detected": rc == 1 and bool(viol)}
        finally:
            sh(["git", "-C", REPO, "checkout", "--", "."])
        assert clean_tree()
        results[sid] = r
        det = {p: c["detected"] for p, c in r["checks"].items()}
        print(sid, "demo clean/patched exit:", r.get("demo_clean_exit"), r.get("demo_patched_exit"), "detected:", det)
    with open(resp, "w") as fh:
        json.dump(results, fh, indent=1, sort_keys=True)
    # evidence files were overwritten by runs on a patched tree: remind the caller
    print("NOTE: evidence/*.json now stem from patched runs; re-run the checks on the clean tree before committing evidence")


if __name__ == "__main__":
    main()
