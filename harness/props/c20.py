"""C20 saved ranking functions and metadata reload to behaviourally identical objects; failed saves are harmless."""
from __future__ import annotations

import json
import os
import subprocess
import sys
import tempfile
import warnings

import core
from props import answers
from props.c18 import lean_order_worlds

THEOREMS = ["InfOCF.C20_save_atomic", "InfOCF.C20_roundtrip", "InfOCF.C20_failed_write", "InfOCF.C20_continue_lazy",
            "InfOCF.C20_loaded_cache_ok", "InfOCF.C20_impacts_roundtrip", "InfOCF.C20_impacts_validation", "InfOCF.C16_cache"]
RULE = ("ranking objects of all three kinds (System Z with/without facts and extended mode, c-representation, custom) over 1-4 atoms, "
        "each with a random subset of its ranks already computed; save_ocf/load_ocf in the same process and in a fresh interpreter, "
        "compared on signature, ranks after completion, continued lazy computation, impacts and acceptance of 5 queries; impacts "
        "export/import (json, pickle, list) incl. size validation; metadata of random JSON values through .json/.pkl/other suffixes; "
        "failing saves (missing directory, target is a directory, unpicklable metadata member, write error after k bytes) must raise and "
        "leave the object unchanged and usable; non-trivial = partial cache non-empty or a failure injected; distinct by (object, operation)")
ASSUMPTIONS = ["pickle, json and the file system are runtime behaviour: observed by the correspondence, represented in the Lean model only by "
               "the assumption that deserialising a serialised state returns that state without its solver members"]

LOADER = r"""
import json, sys, warnings, os
os.environ['INFOCF_LOGLEVEL'] = 'ERROR'
sys.path.insert(0, sys.argv[1])
warnings.filterwarnings('ignore')
from inference.preocf import PreOCF
from inference.conditional import Conditional
from parser.Wrappers import parse_formula
spec = json.load(open(sys.argv[3]))
o = PreOCF.load_ocf(sys.argv[2], trusted=True)
out = {'signature': list(o.signature), 'cached': {w: o.ranks[w] for w in o.ranks}}
out['lazy'] = {w: o.rank_world(w) for w in spec['lazy']}
out['ranks'] = dict(o.compute_all_ranks())
out['accept'] = [bool(o.conditional_acceptance(Conditional(parse_formula(b), parse_formula(a), 'q'))) for b, a in spec['queries']]
out['impacts'] = list(getattr(o, '_impacts', None)) if getattr(o, '_impacts', None) is not None else None
out['meta'] = {k: v for k, v in o.metadata.items() if k in spec['meta_keys']}
print(json.dumps(out))
"""


def objsig(case):
    """explicit signature of the object (a reordering / extension of the base's signature), or None for the base's own"""
    sg = case.get("objsig")
    return list(sg) if sg else None


def build(case, names):
    from inference.preocf import PreOCF

    bb = core.make_bb(names, answers.keyed(case["base"])) if case["kind"] != "custom" else None
    with warnings.catch_warnings():
        warnings.simplefilter("ignore")
        if case["kind"] == "z":
            facts = [core.f_pysmt(f, names) for f in case["facts"]] or None
            o = PreOCF.init_system_z(bb, signature=objsig(case), facts=facts, extended=case["extended"], metadata=dict(case["meta"]))
        elif case["kind"] == "c":
            o = PreOCF.init_random_min_c_rep(bb, signature=objsig(case), metadata=dict(case["meta"]))
        else:
            worlds = lean_order_worlds(case["n"])
            o = PreOCF.init_custom(dict(zip(worlds, case["ranks"])), signature=list(names), metadata=dict(case["meta"]))
        for w in case["precomputed"]:
            o.rank_world(w)
    return o


def observe(o, case, names):
    from inference.conditional import Conditional

    with warnings.catch_warnings():
        warnings.simplefilter("ignore")
        return {"signature": list(o.signature), "ranks": dict(o.compute_all_ranks()),
                "accept": [bool(o.conditional_acceptance(Conditional(core.f_pysmt(b, names), core.f_pysmt(a, names), "q"))) for _, b, a in case["queries"]],
                "impacts": list(o._impacts) if getattr(o, "_impacts", None) is not None else None}


class FailingFile:
    def __init__(self, limit):
        self.limit, self.n = limit, 0

    def write(self, b):
        self.n += len(b)
        if self.n > self.limit:
            raise OSError("simulated write error")
        return len(b)

    def __enter__(self):
        return self

    def __exit__(self, *a):
        return False


def impl_eval(case):
    import pathlib
    import pickle

    from inference.preocf import PreOCF, RandomMinCRepPreOCF

    names = core.names_for(case["n"])
    out = {}
    tmp = tempfile.mkdtemp(prefix="c20_")
    try:
        try:
            o = build(case, names)
        except Exception as e:  # noqa: BLE001
            out["build_err"] = f"{type(e).__name__}: {e}"[:200]
            return out
        cached_before = dict(o.ranks)
        solver_before = (id(getattr(o, "_optimizer", None)), id(getattr(o, "_csp", None)), getattr(o, "_optimizer", None) is not None)
        # ---- failing saves first: the object must stay unchanged and usable ---------------------------
        out["failures"] = []
        for kind in case["failures"]:
            o.metadata.pop("_bad", None)
            try:
                if kind == "missing_dir":
                    o.save_ocf(os.path.join(tmp, "no", "such", "dir", "x.pkl"))
                elif kind == "is_dir":
                    o.save_ocf(tmp)
                elif kind == "unpicklable":
                    o.metadata["_bad"] = (lambda x: x)
                    o.save_ocf(os.path.join(tmp, "bad.pkl"))
                elif kind.startswith("write_error"):
                    limit = int(kind.split(":")[1])
                    orig = pathlib.Path.open
                    target = os.path.join(tmp, "werr.pkl")

                    def fake_open(self, mode="r", *a, **k):
                        if str(self) == target and "w" in mode:
                            return FailingFile(limit)
                        return orig(self, mode, *a, **k)

                    pathlib.Path.open = fake_open
                    try:
                        o.save_ocf(target)
                    finally:
                        pathlib.Path.open = orig
                raised = None
            except Exception as e:  # noqa: BLE001
                raised = type(e).__name__
            o.metadata.pop("_bad", None)
            state_same = (dict(o.ranks) == cached_before and
                          (id(getattr(o, "_optimizer", None)), id(getattr(o, "_csp", None)), getattr(o, "_optimizer", None) is not None) == solver_before)
            try:
                usable = observe(o, case, names)
                # observe() completes ranks: restore the partial cache for the next steps by rebuilding
                o = build(case, names)
                cached_before = dict(o.ranks)
                solver_before = (id(getattr(o, "_optimizer", None)), id(getattr(o, "_csp", None)), getattr(o, "_optimizer", None) is not None)
            except Exception as e:  # noqa: BLE001
                usable = f"{type(e).__name__}: {e}"[:200]
            out["failures"].append({"kind": kind, "raised": raised, "state_same": state_same, "usable": usable})
        # ---- reference observation on a twin (so the saved object keeps its partial cache) ----------------
        twin = build(case, names)
        out["lazy_ref"] = {w: twin.rank_world(w) for w in case["lazy"]}
        out["ref"] = observe(twin, case, names)
        # ---- save / load, same process ---------------------------------------------------------------------
        path = os.path.join(tmp, "obj.pkl")
        try:
            o.save_ocf(path)
            out["after_save_state_same"] = dict(o.ranks) == cached_before and \
                (id(getattr(o, "_optimizer", None)), id(getattr(o, "_csp", None)), getattr(o, "_optimizer", None) is not None) == solver_before
            with warnings.catch_warnings():
                warnings.simplefilter("ignore")
                l = PreOCF.load_ocf(path, trusted=True)
            out["loaded_cached"] = dict(l.ranks)
            out["loaded_lazy"] = {w: l.rank_world(w) for w in case["lazy"]}
            out["loaded"] = observe(l, case, names)
            out["loaded_meta"] = {k: l.metadata.get(k) for k in case["meta"]}
        except Exception as e:  # noqa: BLE001
            out["save_err"] = f"{type(e).__name__}: {e}"[:200]
        # ---- fresh interpreter ---------------------------------------------------------------------------------
        if case.get("fresh") and "save_err" not in out:
            spec = {"lazy": case["lazy"], "queries": [[core.f_text(b, names), core.f_text(a, names)] for _, b, a in case["queries"]],
                    "meta_keys": list(case["meta"])}
            sp = os.path.join(tmp, "spec.json")
            json.dump(spec, open(sp, "w"))
            lp = os.path.join(tmp, "loader.py")
            open(lp, "w").write(LOADER)
            p = subprocess.run([sys.executable, lp, core.REPO, path, sp], capture_output=True, text=True, timeout=300)
            if p.returncode != 0:
                out["fresh_err"] = p.stderr[-300:]
            else:
                out["fresh"] = json.loads(p.stdout.strip().split("\n")[-1])
        # ---- impacts ---------------------------------------------------------------------------------------------
        if case["kind"] == "c":
            try:
                imp = o.save_impacts()
                out["impacts_list"] = imp
                bb = core.make_bb(names, answers.keyed(case["base"]))
                res = {}
                for fmt, suffix in (("json", ".json"), ("pickle", ".pkl")):
                    ip = os.path.join(tmp, "imp" + suffix)
                    o.export_impacts(ip, fmt=fmt)
                    with warnings.catch_warnings():
                        warnings.simplefilter("ignore")
                        o2 = RandomMinCRepPreOCF.init_with_impacts(bb, ip, signature=objsig(case))
                    res[fmt] = observe(o2, case, names)
                with warnings.catch_warnings():
                    warnings.simplefilter("ignore")
                    o3 = RandomMinCRepPreOCF.init_with_impacts_list(bb, list(imp), signature=objsig(case))
                res["list"] = observe(o3, case, names)
                out["impacts_rt"] = res
                # validation: wrong size / negative / non-int must be refused
                val = {}
                for label, bad in (("short", imp[:-1]), ("long", imp + [1]), ("negative", [-1] + imp[1:]), ("float", [0.5] + imp[1:])):
                    try:
                        RandomMinCRepPreOCF.init_with_impacts_list(bb, bad)
                        val[label] = "accepted"
                    except (ValueError, TypeError) as e:
                        val[label] = type(e).__name__
                    except Exception as e:  # noqa: BLE001
                        val[label] = "other:" + type(e).__name__
                if len(case["base"]) >= 2:
                    bb_small = core.make_bb(names, answers.keyed(case["base"][:-1]))
                    try:
                        with warnings.catch_warnings():
                            warnings.simplefilter("ignore")
                            RandomMinCRepPreOCF.init_with_impacts(bb_small, os.path.join(tmp, "imp.json"))
                        val["file_size_mismatch"] = "accepted"
                    except ValueError:
                        val["file_size_mismatch"] = "ValueError"
                    except Exception as e:  # noqa: BLE001
                        val["file_size_mismatch"] = "other:" + type(e).__name__
                out["impacts_validation"] = val
            except Exception as e:  # noqa: BLE001
                out["impacts_err"] = f"{type(e).__name__}: {e}"[:200]
        # ---- metadata ------------------------------------------------------------------------------------------------
        md = {}
        for suffix, fmt in ((".json", "json"), (".pkl", "json"), (".meta", "json"), (".dat", "pickle")):
            mp = os.path.join(tmp, "meta" + suffix)
            try:
                o.metadata.clear()
                o.metadata.update(json.loads(json.dumps(case["meta"])))
                o.save_metadata(mp, fmt=fmt)
                o.metadata.clear()
                if suffix in (".meta",):
                    # load_metadata assumes pickle unless the suffix is .json: a json file under another suffix cannot be
                    # read back by load_metadata; the property only covers files whose format follows from the suffix
                    md[suffix] = "skipped"
                    continue
                o.load_metadata(mp)
                md[suffix] = dict(o.metadata)
            except Exception as e:  # noqa: BLE001
                md[suffix] = f"{type(e).__name__}: {e}"[:120]
        out["meta_rt"] = md
    finally:
        import shutil

        shutil.rmtree(tmp, ignore_errors=True)
    return out


def compare(case, impl):
    fails = []

    def fail(sig, got, want):
        fails.append({"case": case, "impl": got, "spec": want, "signature": f"{case['kind']}-object: {sig}", "what": sig, "theorem": "InfOCF.C20_*"})

    if "build_err" in impl:
        return fails  # construction is C16/C17's matter
    ref = impl["ref"]
    for f in impl["failures"]:
        if f["raised"] is None:
            fail(f"failing save ({f['kind'].split(':')[0]}) does not raise", f, "an exception")
        if not f["state_same"]:
            fail(f"failing save ({f['kind'].split(':')[0]}) leaves the in-memory object changed", f, "unchanged")
        if f["usable"] != ref:
            fail(f"object not usable / behaves differently after a failed save ({f['kind'].split(':')[0]})", f["usable"], ref)
    if "save_err" in impl:
        fail("save_ocf / load_ocf raised " + impl["save_err"].split(":")[0], impl["save_err"], "round trip")
        return fails
    if not impl["after_save_state_same"]:
        fail("successful save changes the in-memory object", False, True)
    worlds = lean_order_worlds(len(case["objsig"]) if case.get("objsig") else case["n"])
    want_cached = {w: (ref["ranks"][w] if w in case["precomputed"] or case["kind"] == "custom" else None) for w in worlds}
    if impl["loaded_cached"] != want_cached:
        fail("loaded object's partial rank cache differs from the saved one", impl["loaded_cached"], want_cached)
    if impl["loaded_lazy"] != impl["lazy_ref"]:
        fail("continued lazy computation on the loaded object gives different ranks", impl["loaded_lazy"], impl["lazy_ref"])
    if impl["loaded"] != ref:
        key = [k for k in ref if impl["loaded"].get(k) != ref[k]][0]
        fail(f"loaded object differs in {key}", impl["loaded"][key], ref[key])
    if impl["loaded_meta"] != case["meta"]:
        fail("metadata differs after load_ocf", impl["loaded_meta"], case["meta"])
    if case.get("fresh"):
        if "fresh_err" in impl:
            fail("fresh interpreter cannot load the saved object", impl["fresh_err"], "loaded")
        else:
            fr = impl["fresh"]
            for k, want in (("signature", ref["signature"]), ("ranks", ref["ranks"]), ("accept", ref["accept"]), ("impacts", ref["impacts"]),
                            ("lazy", impl["lazy_ref"]), ("cached", want_cached), ("meta", case["meta"])):
                if fr[k] != want:
                    fail(f"fresh interpreter: loaded object differs in {k}", fr[k], want)
                    break
    if case["kind"] == "c":
        if "impacts_err" in impl:
            fail("impacts export/import raised " + impl["impacts_err"].split(":")[0], impl["impacts_err"], "round trip")
        else:
            if impl["impacts_list"] != ref["impacts"]:
                fail("save_impacts differs from the object's impacts", impl["impacts_list"], ref["impacts"])
            for fmt, obs in impl["impacts_rt"].items():
                if obs != ref:
                    fail(f"object rebuilt from exported impacts ({fmt}) behaves differently", obs, ref)
            for label, v in impl["impacts_validation"].items():
                if v not in ("ValueError", "TypeError"):
                    fail(f"invalid impact vector ({label}) is not refused", v, "ValueError/TypeError")
    for suffix, got in impl["meta_rt"].items():
        if got == "skipped":
            continue
        if got != case["meta"]:
            fail(f"metadata does not round-trip through a {suffix} file", got, case["meta"])
    seen, out = set(), []
    for f in fails:
        if f["signature"] not in seen:
            seen.add(f["signature"])
            out.append(f)
    return out


def recheck(case):
    fs = compare(case, impl_eval(case))
    return fs[0] if fs else None


def gen_meta(rng):
    def val(d=0):
        r = rng.random()
        if r < 0.25:
            return rng.randint(-5, 100)
        if r < 0.45:
            return rng.choice(["", "x", "birds", "ä-ö", "a b"])
        if r < 0.55:
            return rng.choice([True, False, None])
        if r < 0.65:
            return rng.choice([0.5, 2.25, -1.0])
        if d < 2 and r < 0.85:
            return [val(d + 1) for _ in range(rng.randint(0, 3))]
        if d < 2:
            return {rng.choice(["k", "n", "list", "z9"]): val(d + 1) for _ in range(rng.randint(0, 2))}
        return 1
    return {rng.choice(["author", "run", "tags", "cfg", "note"]) + str(i): val() for i in range(rng.randint(0, 3))}


def run(ctx):
    from check import pmap

    quick = ctx.tier == "quick"
    rng = ctx.rng
    cases = [c for c in answers.load_corpus("C20")]
    gen = answers.gen_cases(ctx, 50 if quick else 900, (1, 4), (1, 5), [False, False, True], q_per=5, consts=0.08, ties=0.2)
    for i, c in enumerate(gen):
        c = {k: v for k, v in c.items() if not k.startswith("_")}
        n = c["sig"]
        queries = [[k, b, a] for k, b, a in c["queries"] if not ((core.f_atoms(b) | core.f_atoms(a)) - set(range(n)))]
        worlds = lean_order_worlds(n)
        kind = "z" if (c["weakly"] or i % 3 == 0) else ("c" if i % 3 == 1 else "custom")
        pre = rng.sample(worlds, rng.randint(0, len(worlds)))
        rest = [w for w in worlds if w not in pre]
        fl = rng.sample(["missing_dir", "is_dir", "unpicklable", f"write_error:{rng.choice([0, 1, 10, 50, 120])}"], rng.randint(0, 2))
        case = {"n": n, "kind": kind, "base": c["base"], "queries": queries, "precomputed": pre, "lazy": rng.sample(rest, min(len(rest), 2)),
                "meta": gen_meta(rng), "failures": fl, "fresh": (i % (4 if quick else 3) == 0), "facts": [], "extended": None, "ranks": None}
        if kind == "z":
            case["extended"] = True if c["weakly"] else rng.choice([None, False])
            if rng.random() < 0.3:
                case["facts"] = [core.gen_formula(rng, n, 1, 0.0)]
                case["extended"] = rng.choice([None, True])
        if kind != "custom" and rng.random() < 0.4:
            # the object lives over an explicit signature: the base's atoms reordered, sometimes with an extra atom
            sg = list(core.names_for(n))
            rng.shuffle(sg)
            if rng.random() < 0.4:
                sg.insert(rng.randint(0, len(sg)), "zz")
            case["objsig"] = sg
            worlds = lean_order_worlds(len(sg))
            case["precomputed"] = rng.sample(worlds, rng.randint(0, len(worlds)))
            rest = [w for w in worlds if w not in case["precomputed"]]
            case["lazy"] = rng.sample(rest, min(len(rest), 2))
        if kind == "custom" and rng.random() < 0.3:
            # a large rank table (64 worlds), with rank-0 worlds, which a custom object cannot recompute
            n = case["n"] = 6
            worlds = lean_order_worlds(n)
            case["queries"] = [[i + 1] + list(core.gen_cond(rng, n, 2, 0.05)) for i in range(4)]
        if kind == "custom":
            case["ranks"] = [rng.randint(0, 5) for _ in worlds]
            case["precomputed"] = []
            case["lazy"] = rng.sample(worlds, min(2, len(worlds)))
        cases.append(case)
    impls = pmap(impl_eval, cases, ctx.procs)
    for c, impl in zip(cases, impls):
        ctx.evaluations += 3 + len(c["failures"]) + (1 if c.get("fresh") else 0)
        if "build_err" in impl:
            ctx.bump("not_constructible:" + impl["build_err"].split(":")[0])
            continue
        ctx.bump(f"kind={c['kind']}")
        if c.get("objsig"):
            ctx.bump("explicit_signature=" + ("extended" if len(c["objsig"]) > c["n"] else "reordered"))
        ctx.bump(f"precomputed={'none' if not c['precomputed'] else 'all' if not c['lazy'] and c['kind'] != 'custom' else 'some'}")
        for f in c["failures"]:
            ctx.bump(f"failure={f.split(':')[0]}")
        if c.get("fresh"):
            ctx.bump("fresh_interpreter")
        if c["precomputed"] or c["failures"]:
            ctx.nontrivial.add(hash(json.dumps([c["kind"], c["base"], c["precomputed"], c["failures"], c["ranks"]])))
        names = core.names_for(c["n"])
        ctx.sample({"kind": c["kind"], "base": [core.cond_text((b, a), names) for _, b, a in c["base"]] if c["kind"] != "custom" else c["ranks"],
                    "precomputed": c["precomputed"], "failures": c["failures"], "meta": c["meta"], "ranks": impl.get("ref", {}).get("ranks")})
        for f in compare(c, impl):
            ctx.fail(f, lambda f: core.generic_shrink(f, recheck, fields=("base", "queries", "failures", "precomputed", "lazy"), budget=30))
