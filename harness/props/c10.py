"""C10 the parser yields exactly the documented meaning, or rejects."""
from __future__ import annotations

import json
import warnings

import core

THEOREMS = ["InfOCF.C10_parse_iff", "InfOCF.parseFm_sound", "InfOCF.parseFm_complete", "InfOCF.D_unique", "InfOCF.C10_precedence",
            "InfOCF.C10_reject_iff", "InfOCF.C10_print_parse", "InfOCF.C10_eval_and_or", "InfOCF.C10_text_roundtrip", "InfOCF.lex_unlex", "InfOCF.C10_conditions_order", "InfOCF.parseFmPrefix_fmToks", "InfOCF.C10_base_roundtrip", "InfOCF.lex_unlex_all",
            "InfOCF.C10_conditions_sound", "InfOCF.parseFmPrefix_sound", "InfOCF.C10_block_sound", "InfOCF.C10_file_sound", "InfOCF.parseIds_sound",
            "InfOCF.C10_conditions_complete", "InfOCF.C10_conditions_iff", "InfOCF.C10_conditions_reject", "InfOCF.parseFmPrefix_complete"]
RULE = ("generated texts: formulas of nesting depth 0-5 printed with minimal / redundant parentheses, random blanks, tabs, // and /* */ "
        "comments; belief-base files (signature, 1-2 blocks, 0-6 conditionals, blank lines, comments) and query lists; about 35% are "
        "mutated (token deleted / duplicated / swapped, illegal character, trailing text, missing separator, early end, unterminated "
        "comment); observation: accept/reject, signature, name, keys 1..n in file order, truth table of every consequent and antecedent "
        "(ASTs are not compared), and re-parse of the text representation; non-trivial = nesting depth >= 2 or mutated; distinct by text")
ASSUMPTIONS = ["the ANTLR runtime and the generated CKBLexer/CKBParser are modelled by the Lean lexer and recursive-descent parser; "
               "only the token-level formula grammar is covered by the equivalence theorem (parseFm_iff), the lexer and the file-level "
               "rules are tied to the code by the correspondence alone"]

NAMES = ["a", "b", "c", "d", "e", "f", "p", "q", "x1", "Y_2", "bird", "fly-s", "Top", "Bottom", "signatures", "cond"]


def hexs(s):
    return "x" + s.encode("utf-8").hex()


# ---- printing with the grammar's precedence -------------------------------------------------------

def prec(f):
    return {"|": 2, "&": 1}.get(f[0], 0)


def show(rng, f, noise=0.0, redundant=0.0):
    """text of formula f (atoms are names); left-associative printing without parentheses where the grammar allows it"""
    def sp():
        if noise and rng.random() < noise:
            return rng.choice([" ", "  ", "\t", " /* c */ ", "/*x*/"])
        return ""

    def go(g, level):
        t = g[0]
        if t == "T":
            s = "Top"
        elif t == "F":
            s = "Bottom"
        elif t == "v":
            s = g[1]
        elif t == "!":
            s = "!" + sp() + go(g[1], 0)
        else:
            sep = "," if t == "&" else ";"
            lv = prec(g)
            s = go(g[1], lv) + sp() + sep + sp() + go(g[2], lv - 1)
        if prec(g) > level or (redundant and rng.random() < redundant):
            s = "(" + sp() + s + sp() + ")"
        return s

    return go(f, 2)


def gen_f(rng, depth, names):
    if depth <= 0 or rng.random() < 0.25:
        r = rng.random()
        if r < 0.08:
            return ("T",) if rng.random() < 0.5 else ("F",)
        a = ("v", rng.choice(names))
        return ("!", a) if rng.random() < 0.3 else a
    r = rng.random()
    if r < 0.2:
        return ("!", gen_f(rng, depth - 1, names))
    return ("&" if r < 0.6 else "|", gen_f(rng, depth - 1, names), gen_f(rng, depth - 1, names))


def f_depth(f):
    return 0 if f[0] in ("T", "F", "v") else 1 + max(f_depth(g) for g in f[1:])


def mutate(rng, text):
    if not text:
        return "("
    kind = rng.randrange(9)
    i = rng.randrange(len(text))
    if kind == 0:
        return text[:i] + text[i + 1:]
    if kind == 1:
        return text[:i] + text[i] + text[i:]
    if kind == 2:
        return text[:i] + rng.choice("#$%&@^~?[]<>=+*\\\"'.:0123456789") + text[i:]
    if kind == 3:
        return text + rng.choice([" b", ")", ",", " garbage", "}", "|", ";c", "\nconditionals", " ("])
    if kind == 4:
        return text[:i]
    if kind == 5:
        return text[:i] + " /* unterminated " + text[i:]
    if kind == 6:
        j = rng.randrange(len(text))
        i, j = min(i, j), max(i, j)
        return text[:i] + text[j:j + 1] + text[i + 1:j] + text[i:i + 1] + text[j + 1:]
    if kind == 7:
        return text.replace(",", " ", 1) if "," in text else text + "!"
    return text.replace("\n", " ", 1) if "\n" in text else "ü" + text


# ---- evaluation ----------------------------------------------------------------------------------------

def parse_prefix(tokens, pos=0):
    t = tokens[pos]
    if t == "T":
        return ("T",), pos + 1
    if t == "F":
        return ("F",), pos + 1
    if t.startswith("v:"):
        return ("v", t[2:]), pos + 1
    if t == "!":
        a, p = parse_prefix(tokens, pos + 1)
        return ("!", a), p
    a, p = parse_prefix(tokens, pos + 1)
    b, p = parse_prefix(tokens, p)
    return (t, a, b), p


def pf_eval(f, val):
    t = f[0]
    if t == "T":
        return True
    if t == "F":
        return False
    if t == "v":
        return val[f[1]]
    if t == "!":
        return not pf_eval(f[1], val)
    if t == "&":
        return pf_eval(f[1], val) and pf_eval(f[2], val)
    return pf_eval(f[1], val) or pf_eval(f[2], val)


def pf_atoms(f, acc):
    if f[0] == "v":
        acc.add(f[1])
    elif f[0] in "!&|":
        for g in f[1:]:
            pf_atoms(g, acc)
    return acc


def table_of_pysmt(fnode, atoms):
    from pysmt.shortcuts import Bool, Symbol
    from pysmt.typing import BOOL

    import itertools

    rows = []
    for bits in itertools.product([False, True], repeat=len(atoms)):
        sub = {Symbol(a, BOOL): Bool(b) for a, b in zip(atoms, bits)}
        rows.append(fnode.substitute(sub).simplify().is_true())
    return rows


def table_of_pf(f, atoms):
    import itertools

    return [pf_eval(f, dict(zip(atoms, bits))) for bits in itertools.product([False, True], repeat=len(atoms))]


def impl_eval(case):
    from parser.Wrappers import parse_belief_base, parse_formula, parse_queries

    kind, text = case["kind"], case["text"]
    try:
        with warnings.catch_warnings():
            warnings.simplefilter("ignore")
            if kind == "formula":
                f = parse_formula(text)
                atoms = sorted(v.symbol_name() for v in f.get_free_variables())
                return {"ok": True, "atoms": atoms, "fnode": f.serialize(), "table": table_of_pysmt(f, atoms) if len(atoms) <= 8 else None}
            bb = parse_belief_base(text) if kind == "base" else parse_queries(text)
            conds = []
            for k, c in bb.conditionals.items():
                atoms = sorted({v.symbol_name() for v in c.consequence.get_free_variables()} | {v.symbol_name() for v in c.antecedence.get_free_variables()})
                item = {"key": k, "atoms": atoms, "text": str(c),
                        "cons": table_of_pysmt(c.consequence, atoms) if len(atoms) <= 8 else None,
                        "ante": table_of_pysmt(c.antecedence, atoms) if len(atoms) <= 8 else None}
                # the text representation must re-parse to an equivalent conditional
                try:
                    rq = parse_queries(str(c))
                    rc = list(rq.conditionals.values())
                    item["reparse"] = (len(rc) == 1 and len(atoms) <= 8
                                       and table_of_pysmt(rc[0].consequence, atoms) == item["cons"]
                                       and table_of_pysmt(rc[0].antecedence, atoms) == item["ante"])
                except Exception as e:  # noqa: BLE001
                    item["reparse"] = f"{type(e).__name__}"
                conds.append(item)
            return {"ok": True, "signature": list(bb.signature), "name": bb.name, "conds": conds}
    except Exception as e:  # noqa: BLE001
        return {"ok": False, "err": f"{type(e).__name__}: {e}"[:160]}


def driver_line(case):
    return {"formula": "pformula", "base": "pbase", "queries": "pqueries"}[case["kind"]] + " " + hexs(case["text"])


def compare(case, impl, resp):
    def fail(sig, got, want):
        return {"case": case, "impl": got, "spec": want, "signature": sig, "what": sig, "theorem": "InfOCF.parseFm_iff"}

    if resp == "reject":
        if impl["ok"]:
            return fail(f"{case['kind']}: text that is not well formed is accepted", impl.get("fnode") or impl.get("conds"), "rejected with an error")
        return None
    if not impl["ok"]:
        return fail(f"{case['kind']}: well-formed text is rejected", impl["err"], resp[:200])
    parts = resp.split("\t")
    if case["kind"] == "formula":
        pf, _ = parse_prefix(parts[1].split(" "))
        atoms = impl["atoms"]
        want_atoms = sorted(pf_atoms(pf, set()))
        if impl["table"] is None:
            return None
        full = sorted(set(atoms) | set(want_atoms))
        from parser.Wrappers import parse_formula
        got = table_of_pysmt(parse_formula(case["text"]), full) if full != atoms else impl["table"]
        if got != table_of_pf(pf, full):
            return fail("formula: parsed formula has a different truth table than the documented reading", impl["fnode"], parts[1])
        if case.get("expect") is not None:
            exp = tuple_of(case["expect"])
            full = sorted(set(atoms) | pf_atoms(exp, set()))
            got = table_of_pysmt(parse_formula(case["text"]), full) if full != atoms else impl["table"]
            if got != table_of_pf(exp, full):
                return fail("formula: the text printed for a formula is read as a different formula", impl["fnode"], case["expect"])
        return None
    sig, name, conds = parts[1].split(",") if parts[1] else [], parts[2], parts[3:]
    conds = [c for c in conds if c]
    if case["kind"] == "base":
        if impl["signature"] != sig:
            return fail("base: signature differs from the declared one", impl["signature"], sig)
        if impl["name"] != name:
            return fail("base: name differs", impl["name"], name)
    if [c["key"] for c in impl["conds"]] != list(range(1, len(conds) + 1)):
        return fail(f"{case['kind']}: conditionals are not keyed 1..n in file order", [c["key"] for c in impl["conds"]], len(conds))
    for item, ctext in zip(impl["conds"], conds):
        cons_s, ante_s = ctext.split(" ## ")
        cons, _ = parse_prefix(cons_s.split(" "))
        ante, _ = parse_prefix(ante_s.split(" "))
        atoms = item["atoms"]
        if item["cons"] is None:
            continue
        if sorted(pf_atoms(cons, set()) | pf_atoms(ante, set())) != atoms and not (set(atoms) >= pf_atoms(cons, set()) | pf_atoms(ante, set())):
            return fail(f"{case['kind']}: atoms of a conditional differ", atoms, ctext)
        atoms_full = sorted(set(atoms) | pf_atoms(cons, set()) | pf_atoms(ante, set()))
        if atoms_full != atoms:
            return fail(f"{case['kind']}: atoms of a conditional differ", atoms, ctext)
        if item["cons"] != table_of_pf(cons, atoms):
            return fail(f"{case['kind']}: consequent has a different truth table (or consequent/antecedent swapped)", item["text"], ctext)
        if item["ante"] != table_of_pf(ante, atoms):
            return fail(f"{case['kind']}: antecedent has a different truth table", item["text"], ctext)
        if item["reparse"] is not True:
            return fail(f"{case['kind']}: text representation does not re-parse to an equivalent conditional", [item["text"], item["reparse"]], True)
    eb = case.get("expect_base")
    if eb is not None:
        if impl["signature"] != list(eb["signature"]) or impl["name"] != eb["name"] or len(impl["conds"]) != len(eb["conds"]):
            return fail("base: the printed file is read with a different signature, name or number of conditionals",
                        [impl["signature"], impl["name"], len(impl["conds"])], [eb["signature"], eb["name"], len(eb["conds"])])
        for item, (b, a) in zip(impl["conds"], eb["conds"]):
            b, a = tuple_of(b), tuple_of(a)
            atoms = item["atoms"]
            if item["cons"] is None:
                continue
            if not set(atoms) >= (pf_atoms(b, set()) | pf_atoms(a, set())) or item["cons"] != table_of_pf(b, atoms) or item["ante"] != table_of_pf(a, atoms):
                return fail("base: a conditional of the printed file is read as a different conditional", item["text"], [b, a])
    return None


def tuple_of(f):
    """formula from JSON (lists) back to tuples"""
    return tuple(tuple_of(x) if isinstance(x, (list, tuple)) else x for x in f)


def recheck(case):
    impl = impl_eval(case)
    resp = core.driver_batch([driver_line(case)])[0]
    return compare(case, impl, resp)


def shrink(fail, budget=120):
    """delete characters while the same signature persists"""
    sig = fail["signature"]
    best = fail
    progress = True
    while progress and budget > 0:
        progress = False
        text = best["case"]["text"]
        n = len(text)
        for size in (max(1, n // 4), max(1, n // 10), 1):
            for i in range(0, n, size):
                if budget <= 0:
                    break
                budget -= 1
                c2 = dict(best["case"], text=text[:i] + text[i + size:])
                try:
                    f = recheck(c2)
                except Exception:  # noqa: BLE001
                    f = None
                if f and f["signature"] == sig:
                    best, progress = f, True
                    break
            if progress:
                break
    return best


def gen_base_text(rng, noise):
    k = rng.randint(1, 6)
    sig = rng.sample([n for n in NAMES if n not in ("Top", "Bottom")], k)
    atoms = sig + (["Top", "Bottom"] if rng.random() < 0.3 else [])
    if rng.random() < 0.1:
        atoms = atoms + ["zz"]  # atom outside the signature (recorded, not rejected)

    def nl():
        return rng.choice(["\n", "\n\n", "\r\n", " \n", "\n // note\n", "\n/* block\n comment */\n"]) if noise else "\n"

    blocks = []
    for _b in range(1 if rng.random() < 0.85 else 2):
        m = rng.randint(0, 6)
        conds = []
        for _ in range(m):
            b, a = gen_f(rng, rng.randint(0, 3), atoms), gen_f(rng, rng.randint(0, 3), atoms)
            conds.append("(" + show(rng, b, noise * 0.3) + rng.choice(["|", " | "]) + show(rng, a, noise * 0.3) + ")")
        body = ("," + nl()).join(conds)
        blocks.append("conditionals" + nl() + rng.choice(["kb", "birds005", "K_x"]) + rng.choice(["", " ", nl()]) + "{" + nl() + body + (nl() if conds else "") + "}" + nl())
    lead = rng.choice(["", "\n", "// header\n"]) if noise else ""
    return lead + "signature" + nl() + rng.choice(["", "  "]) + rng.choice([",", ", ", " , "]).join(sig) + nl() + "".join(blocks)


def run(ctx):
    from check import pmap
    from props import answers

    quick = ctx.tier == "quick"
    rng = ctx.rng
    cases = [c for c in answers.load_corpus("C10")]
    n_f, n_b, n_q = (900, 300, 300) if quick else (40000, 8000, 8000)
    for _ in range(n_f):
        names = rng.sample(NAMES, rng.randint(1, 5))
        f = gen_f(rng, rng.randint(0, 5), names)
        text = show(rng, f, noise=rng.choice([0, 0, 0.3]), redundant=rng.choice([0, 0.2]))
        mutated = rng.random() < 0.35
        if mutated:
            text = mutate(rng, text)
        cases.append({"kind": "formula", "text": text, "depth": f_depth(f), "mutated": mutated})
    # texts written by the Lean printer `text` (the function C10_text_roundtrip speaks about): the real parser must accept
    # them with the meaning of the printed formula
    ATOM_NAMES = [x for x in NAMES if x not in ("Top", "Bottom")] + ["Z9", "k_-", "conditional", "signature1", "TopX"]
    lt_cases, lt_lines = [], []
    for _ in range(n_f // 6):
        names = rng.sample(ATOM_NAMES, rng.randint(1, 5))
        f = gen_f(rng, rng.randint(0, 5), names)

        def pre(g):
            if g[0] == "v":
                return [f"a{names.index(g[1])}"]
            if g[0] in ("T", "F"):
                return [g[0]]
            return [g[0]] + [t for h in g[1:] for t in pre(h)]
        lt_lines.append(f"ftext {len(names)} " + " ".join(names) + " " + " ".join(pre(f)))
        lt_cases.append({"kind": "formula", "depth": f_depth(f), "mutated": False, "origin": "lean-printer", "expect": f})
    for c, t in zip(lt_cases, core.driver_batch(lt_lines)):
        c["text"] = t
        cases.append(c)
    # belief-base files written by the Lean printer `baseText` (C10_base_roundtrip)
    bt_cases, bt_lines = [], []
    for _ in range(n_b // 4):
        names = rng.sample(ATOM_NAMES, rng.randint(1, 5))
        conds = [(gen_f(rng, rng.randint(0, 3), names), gen_f(rng, rng.randint(0, 3), names)) for _ in range(rng.randint(0, 5))]

        def pre(g):
            if g[0] == "v":
                return [f"a{names.index(g[1])}"]
            if g[0] in ("T", "F"):
                return [g[0]]
            return [g[0]] + [t for h in g[1:] for t in pre(h)]
        bname = rng.choice(["kb", "birds005", "K_x", "b-2"])
        bt_lines.append(f"btext {len(names)} " + " ".join(names) + f" {bname} {len(conds)} " +
                        " ".join("C %d %s %s" % (i + 1, " ".join(pre(b)), " ".join(pre(a))) for i, (b, a) in enumerate(conds)))
        bt_cases.append({"kind": "base", "depth": 2, "mutated": False, "origin": "lean-printer",
                         "expect_base": {"signature": names, "name": bname, "conds": conds}})
    for c, t in zip(bt_cases, core.driver_batch(bt_lines)):
        c["text"] = bytes.fromhex(t).decode("utf-8")
        cases.append(c)
    for _ in range(n_b):
        text = gen_base_text(rng, noise=rng.choice([0, 1]))
        mutated = rng.random() < 0.35
        if mutated:
            text = mutate(rng, text)
        cases.append({"kind": "base", "text": text, "depth": 2, "mutated": mutated})
    for _ in range(n_q):
        names = rng.sample(NAMES, rng.randint(1, 4))
        conds = []
        for _j in range(rng.randint(0, 4)):
            conds.append("(" + show(rng, gen_f(rng, rng.randint(0, 3), names), 0.2) + "|" + show(rng, gen_f(rng, rng.randint(0, 3), names), 0.2) + ")")
        text = rng.choice([", ", ",", ",\n"]).join(conds)
        mutated = rng.random() < 0.35
        if mutated:
            text = mutate(rng, text)
        cases.append({"kind": "queries", "text": text, "depth": 2, "mutated": mutated})
    impls = pmap(impl_eval, cases, ctx.procs)
    resps = core.driver_batch([driver_line(c) for c in cases])
    seen = set()
    for c, impl, resp in zip(cases, impls, resps):
        ctx.evaluations += 1
        ctx.bump(f"{c['kind']}:{'accepted' if resp != 'reject' else 'rejected'}")
        if c.get("mutated"):
            ctx.bump(f"{c['kind']}:mutated")
        if c.get("origin"):
            ctx.bump(f"{c['kind']}:origin={c['origin']}")
        if not impl["ok"]:
            ctx.bump("error:" + impl["err"].split(":")[0])
        if (c.get("depth", 0) >= 2 or c.get("mutated")) and c["text"] not in seen:
            seen.add(c["text"])
            ctx.nontrivial.add(hash(c["text"]))
        if len(ctx.samples) < 5 and c["kind"] != "formula" or len(ctx.samples) < 2:
            ctx.sample({"kind": c["kind"], "text": c["text"][:300], "driver": resp[:200]}, cap=6)
        f = compare(c, impl, resp)
        if f:
            ctx.fail(f, shrink)
