"""C08 inclusions p <= Z <= W <= lex and p <= c <= W, on small and on large bases."""
from __future__ import annotations

import json

import core
from props import answers, rel

THEOREMS = ["InfOCF.C08_Z_le_W", "InfOCF.C08_W_le_Lex", "InfOCF.C08_P_le_Z", "InfOCF.C08_P_le_Z_ext", "InfOCF.C08_P_le_C", "InfOCF.C08_c_le_W", "InfOCF.C08_chain", "InfOCF.C08_chain_partial", "InfOCF.kapW_eq_cost",
            "InfOCF.specZ_le_specW", "InfOCF.specW_le_specLex", "InfOCF.p_le_Z", "InfOCF.zrk_lt_wless", "InfOCF.wless_lexLt",
            "InfOCF.kapW_sep", "InfOCF.kapW_accepts"]
RULE = ("small: random and tie-rich bases (both modes) x 6 queries, all operators and back-ends through InferenceManager; "
        "large: shipped random_large knowledge bases (6-60 atoms) with their query files and a per-query time cap; "
        "every implication of the chain is checked on the implementation's answers; non-trivial = the weaker operator answers True "
        "on a contingent query (so the implication has a premise); distinct by (base, query, pair)")
ASSUMPTIONS = ["rows flagged timed-out on large bases are skipped (counted)",
               "the inclusions are proved for the operator models (c-inference at the level of its specification specC, tied to the code by C05)"]

PAIRS_STRICT = [("p-entailment/rc2", "system-z/rc2"), ("system-z/rc2", "system-w/rc2"), ("system-z/rc2", "system-w/z3"),
                ("system-w/rc2", "lex_inf/rc2"), ("system-w/z3", "lex_inf/z3"), ("system-w/rc2", "lex_inf/z3"),
                ("p-entailment/rc2", "c-inference/rc2"), ("c-inference/rc2", "system-w/rc2"), ("c-inference/rc2", "system-w/z3")]
PAIRS_EXT = [p for p in PAIRS_STRICT if "c-inference" not in p[0] and "c-inference" not in p[1]]


def check_pairs(case, res, pairs, queries_txt=None):
    fails = []
    prem = 0
    for weak, strong in pairs:
        a, b = res.get(weak), res.get(strong)
        if not a or not b or a[0] != "ok" or b[0] != "ok":
            continue
        for i, (x, y) in enumerate(zip(a[1], b[1])):
            if x is None or y is None:
                continue
            if x:
                prem += 1
            if x and not y:
                c = dict(case, pair=[weak, strong])
                if "queries" in case:
                    c["queries"] = [case["queries"][i]]
                else:
                    c["query_text"] = queries_txt[i]
                fails.append({"case": c, "impl": {weak: x, strong: y}, "spec": f"{weak} True implies {strong} True",
                              "signature": f"inclusion {weak} <= {strong} violated (weakly={case.get('weakly')})",
                              "what": "a weaker operator infers what the stronger one does not", "theorem": "InfOCF.C08_*"})
    return fails, prem


def recheck(case):
    if "kb" in case:
        cfgs = [tuple(x.split("/")) for x in case["pair"]]
        res = rel.eval_file((case["kb"], case["qfile"], case["m"], cfgs, case["weakly"], case["cap"]))
        fs, _ = check_pairs({k: case[k] for k in ("kb", "qfile", "m", "weakly", "cap")}, res, [tuple(case["pair"])], res.get("_queries"))
        for f in fs:
            if f["case"].get("query_text") == case.get("query_text"):
                return f
        return None
    cfgs = [tuple(x.split("/")) for x in case["pair"]]
    base_case = {k: case[k] for k in ("n", "sig", "weakly", "base", "queries")}
    res = rel.eval_small((base_case, cfgs))
    fs, _ = check_pairs(base_case, res, [tuple(case["pair"])])
    return fs[0] if fs else None


def shrink(fail, budget=60):
    if "kb" in fail["case"]:
        return fail
    sig = fail["signature"]
    best = fail
    progress = True
    while progress and budget > 0:
        progress = False
        case = best["case"]
        for i in range(len(case["base"])):
            if len(case["base"]) <= 1 or budget <= 0:
                break
            budget -= 1
            f = recheck(dict(case, base=case["base"][:i] + case["base"][i + 1:]))
            if f and f["signature"] == sig:
                best, progress = f, True
                break
    return best


def run(ctx):
    quick = ctx.tier == "quick"
    cases = answers.load_corpus("C08")
    cases += answers.gen_cases(ctx, 120 if quick else 2500, (2, 5), (1, 6), [False], ties=0.5, cost=0.12, rekey=0.3)
    ext = answers.gen_cases(ctx, 150 if quick else 3000, (2, 5), (1, 6), [True], ties=0.4, consts=0.15, rekey=0.3)
    ext.sort(key=lambda c: 0 if (c["_info"].get("inf") and c["_info"].get("layers")) else 1)      # finite layers and an infinity layer first
    cases += ext[:80 if quick else 1500]
    clean = [{k: v for k, v in c.items() if not k.startswith("_")} for c in cases]
    results = rel.pmap(ctx, rel.eval_small, [(c, rel.EXT_CFG if c["weakly"] else rel.STRICT_CFG) for c in clean])
    for c, res in zip(clean, results):
        pairs = PAIRS_EXT if c["weakly"] else PAIRS_STRICT
        fs, prem = check_pairs(c, res, pairs)
        ctx.evaluations += len(c["queries"]) * len(pairs)
        ctx.bump(f"small:mode={'ext' if c['weakly'] else 'strict'}")
        for k, r in res.items():
            if r[0] == "err":
                ctx.bump(f"small:error:{k}:{r[1]}")
        W = core.all_worlds(c["n"])
        for i, q in enumerate(c["queries"]):
            if answers.query_kind(c, q, W) != "contingent":
                continue
            for weak, strong in pairs:
                a = res.get(weak)
                if a and a[0] == "ok" and a[1][i]:
                    ctx.nontrivial.add(hash(json.dumps([c["base"], q[1:], c["weakly"], weak, strong])))
                    ctx.bump(f"premise_true:{weak}<={strong}")
        names = core.names_for(c["n"])
        ctx.sample({"base": [core.cond_text((b, a), names) for _, b, a in c["base"]], "weakly": c["weakly"],
                    "answers": {k: (v[1] if v[0] == "ok" else v[:2]) for k, v in res.items()}})
        for f in fs:
            ctx.fail(f, shrink)
    # large bases
    pairs_files = rel.shipped_pairs(ctx.rng, 12 if quick else 80, max_atoms=30 if quick else 40)
    m, cap = (6, 5) if quick else (10, 8)
    jobs = []
    for kb, q in pairs_files:
        weakly = ctx.rng.random() < 0.3
        jobs.append((kb, q, m, rel.EXT_CFG if weakly else rel.STRICT_CFG, weakly, cap))
    results = rel.pmap(ctx, rel.eval_file, jobs)
    for job, res in zip(jobs, results):
        kb, q, m_, cfgs, weakly, cap_ = job
        case = {"kb": kb, "qfile": q, "m": m_, "weakly": weakly, "cap": cap_}
        if "_error" in res:
            ctx.bump("large:load_error")
            continue
        ctx.bump(f"large:atoms={res['_size'][0]}")
        for k, r in res.items():
            if k.startswith("_"):
                continue
            if r[0] == "err":
                ctx.bump(f"large:error:{k}:{r[1]}")
            else:
                ctx.bump("large:timed_out_rows", sum(1 for x in r[1] if x is None))
        fs, prem = check_pairs(case, res, PAIRS_EXT if weakly else PAIRS_STRICT, res["_queries"])
        ctx.evaluations += m_ * len(PAIRS_STRICT)
        ctx.bump("large:premise_true", prem)
        if prem:
            ctx.nontrivial.add(hash((kb, weakly)))
        ctx.failures.extend(fs)
    if pairs_files:
        ctx.sample({"large_base": pairs_files[0][0], "answers": {k: v for k, v in results[0].items() if not k.startswith("_error")}})
