"""C13 answers are independent of batching, history and parallel evaluation; tables are row-exact."""
from __future__ import annotations

import json
import warnings

import core
from props import answers, rel

THEOREMS = ["InfOCF.C13_rows", "InfOCF.C13_history", "InfOCF.C13_batch_independent", "InfOCF.C13_parallel",
            "InfOCF.C13_text_keyed_wrong"]
RULE = ("one InferenceManager per case, asked a random history of 2-5 calls; each call submits 1-5 queries under arbitrary integer keys "
        "(0, sparse, descending), with repeated queries across calls and duplicate query texts inside a call, sequentially or with "
        "multi_inference=True; operators p, z, w (rc2, z3), lex (rc2, z3), c; every returned table must have one row per query in "
        "submission order carrying the query's key, text and the answer of the definition (driver; c-inference: a fresh manager asked "
        "that query alone), and no child process may be alive afterwards; non-trivial = history with >= 2 calls containing a repeated "
        "query or a duplicate text or a parallel call; distinct by (base, history, operator)")
ASSUMPTIONS = ["process scheduling is the operating system's: the absence of left-over workers and the equality of parallel and sequential "
               "tables are observed on the runs made, not proved for every schedule (the model treats workers as pure function calls)"]

CFGS = [("p-entailment", "rc2"), ("system-z", "rc2"), ("system-w", "rc2"), ("system-w", "z3"), ("lex_inf", "rc2"), ("lex_inf", "z3"),
        ("c-inference", "rc2")]


def impl_eval(case):
    import multiprocessing as mp

    from inference.conditional import Conditional
    from inference.inference_manager import InferenceManager
    from inference.queries import Queries

    names = core.names_for(case["n"])
    out = {"calls": [], "children": []}
    try:
        bb = core.make_bb(names, answers.keyed(case["base"]))
        with warnings.catch_warnings():
            warnings.simplefilter("ignore")
            man = InferenceManager(bb, case["system"], pmaxsat_solver=case["pmaxsat"], weakly=case["weakly"])
            for call in case["history"]:
                qd = {}
                for k, b, a in call["queries"]:
                    qd[k] = Conditional(core.f_pysmt(b, names), core.f_pysmt(a, names), core.cond_text((b, a), names))
                try:
                    df = man.inference(Queries(qd), multi_inference=call["multi"], **(call.get("budget") or {}))
                    rows = [[int(r["index"]), str(r["query"]), bool(r["result"]), bool(r["inference_timed_out"]), bool(r["preprocessing_timed_out"])]
                            for _, r in df.iterrows()]
                    out["calls"].append(("ok", rows))
                except Exception as e:  # noqa: BLE001
                    out["calls"].append(("err", f"{type(e).__name__}: {e}"[:200]))
                out["children"].append(len(mp.active_children()))
        # reference for c-inference: a fresh manager per distinct query
        if case["system"] == "c-inference":
            ref = {}
            for call in case["history"]:
                for k, b, a in call["queries"]:
                    key = json.dumps([b, a])
                    if key not in ref:
                        r = core.impl_answers(names, answers.keyed(case["base"]), [(1, (b, a))], "c-inference", weakly=False, pmaxsat=case["pmaxsat"])
                        ref[key] = r[1][0] if r[0] == "ok" else None
            out["ref"] = ref
    except Exception as e:  # noqa: BLE001
        out["err"] = f"{type(e).__name__}: {e}"[:200]
    return out


def expected_rows(case, ref):
    names = core.names_for(case["n"])
    calls = []
    for call in case["history"]:
        rows = []
        for k, b, a in call["queries"]:
            rows.append([k, core.cond_text((b, a), names), ref[json.dumps([b, a])]])
        calls.append(rows)
    return calls


def compare(case, impl, ref):
    fails = []
    cfg = f"{case['system']}/{case['pmaxsat']}"

    def fail(sig, got, want, i):
        fails.append({"case": dict(case, failing_call=i), "impl": got, "spec": want, "signature": f"{cfg}: {sig}", "what": sig,
                      "theorem": "InfOCF.C13_rows"})

    if "err" in impl:
        fail("manager construction raised " + impl["err"].split(":")[0], impl["err"], "tables", -1)
        return fails
    want = expected_rows(case, ref)
    for i, (call, got, exp, ch) in enumerate(zip(case["history"], impl["calls"], want, impl["children"])):
        mode = "parallel" if call["multi"] else "sequential"
        later = "later call" if i > 0 else "first call"
        if got[0] == "err":
            fail(f"{later} ({mode}) raised {got[1].split(':')[0]}", got[1], exp, i)
            break
        rows = got[1]
        if len(rows) != len(exp):
            fail(f"{later} ({mode}): table has {len(rows)} rows for {len(exp)} queries"[:80] if False else f"{later} ({mode}): wrong number of rows", rows, exp, i)
            break
        if any(r[3] or r[4] for r in rows):
            fail(f"{later} ({mode}): a row is flagged timed out although no budget was set", rows, exp, i)
            break
        if [r[0] for r in rows] != [e[0] for e in exp]:
            fail(f"{later} ({mode}): rows do not carry their query's own key in submission order", [r[0] for r in rows], [e[0] for e in exp], i)
            break
        if [r[1] for r in rows] != [e[1] for e in exp]:
            fail(f"{later} ({mode}): rows do not carry their query's own text", [r[1] for r in rows], [e[1] for e in exp], i)
            break
        if any(e[2] is not None and r[2] != e[2] for r, e in zip(rows, exp)):
            j = [j for j, (r, e) in enumerate(zip(rows, exp)) if e[2] is not None and r[2] != e[2]][0]
            fail(f"{later} ({mode}): answer differs from the one the query gets when asked alone", {"row": rows[j]}, {"row": exp[j]}, i)
            break
        if ch != 0:
            fail(f"{mode} call leaves worker processes behind", ch, 0, i)
            break
    return fails


def reference(case, driver_ref=None):
    """answers by the definition for every distinct query of the history"""
    ref = {}
    col = answers.SYS_COL.get(case["system"])
    if col is None:
        return None
    qs = []
    for call in case["history"]:
        for k, b, a in call["queries"]:
            key = json.dumps([b, a])
            if key not in ref:
                ref[key] = None
                qs.append((key, b, a))
    line = f"ans {case['n']} {1 if case['weakly'] else 0} {core.conds_line(answers.keyed(case['base']))} " + core.conds_line([(i, (b, a)) for i, (_, b, a) in enumerate(qs)])
    resp = core.driver_batch([line])[0]
    kind, rows = answers.decode(resp, len(qs))
    if kind != "ok":
        return None
    for (key, _, _), row in zip(qs, rows):
        ref[key] = row[col]
    return ref


def recheck(case):
    impl = impl_eval(case)
    ref = impl.get("ref") if case["system"] == "c-inference" else reference(case)
    if ref is None:
        return None
    fs = compare(case, impl, ref)
    return fs[0] if fs else None


def shrink(fail, budget=25):
    sig = fail["signature"]
    best = fail
    progress = True
    while progress and budget > 0:
        progress = False
        case = best["case"]
        cands = []
        h = case["history"]
        for i in range(len(h)):
            if len(h) > 1:
                cands.append(dict(case, history=h[:i] + h[i + 1:]))
            for j in range(len(h[i]["queries"])):
                if len(h[i]["queries"]) > 1:
                    h2 = [dict(c) for c in h]
                    h2[i] = dict(h[i], queries=h[i]["queries"][:j] + h[i]["queries"][j + 1:])
                    cands.append(dict(case, history=h2))
        for c2 in cands:
            if budget <= 0:
                break
            budget -= 1
            try:
                f = recheck(c2)
            except Exception:  # noqa: BLE001
                f = None
            if f and f["signature"] == sig:
                best, progress = f, True
                break
    return best


def run(ctx):
    from check import pmap_nd

    quick = ctx.tier == "quick"
    rng = ctx.rng
    cases = [c for c in answers.load_corpus("C13")]
    bases = answers.gen_cases(ctx, 140 if quick else 1500, (2, 5), (1, 5), [False, False, True], ties=0.25, q_per=6, consts=0.08, deep=0.35, big=0.1)
    for b in bases:
        layers = b["_info"]["layers"]
        deep_pairs = b.get("_kind") == "deep_pairs" and len(b["queries"]) >= 4
        b = {k: v for k, v in b.items() if not k.startswith("_")}
        cfgs = [c for c in CFGS if not (b["weakly"] and c[0] == "c-inference")]
        system, pm = rng.choice(cfgs)
        pool = [(q[1], q[2]) for q in b["queries"]]
        if rng.random() < 0.4 and b["n"] <= 4:
            # atoms that occur in no conditional (declared in the signature only): new solver variables appear per query
            n0 = b["n"]
            b["n"] = n0 + 2
            x, y = ("a", n0), ("a", n0 + 1)
            for _ in range(5):
                cb, ca = rng.choice(pool)
                r = rng.random()
                if r < 0.3:
                    pool.append((rng.choice([x, y, ("!", y)]), rng.choice([x, y, ("&", x, ca)])))
                elif r < 0.65:
                    pool.append((cb, ("&", ca, rng.choice([x, y, ("&", x, y)]))))
                else:
                    pool.append(core.gen_cond(rng, n0 + 2, 2, 0.03))
            rng.shuffle(pool)
            extra_atoms = True
        else:
            extra_atoms = False
        history = []
        par_budget = 1 if quick else 2
        for _ in range(rng.randint(2, 5)):
            m = rng.randint(1, 5)
            keyset = rng.sample(range(0, 30), m)
            if rng.random() < 0.3:
                keyset = sorted(keyset, reverse=True)
            qs = []
            for k in keyset:
                ba = rng.choice(pool)
                qs.append([k, ba[0], ba[1]])
            multi = par_budget > 0 and rng.random() < 0.3
            if multi:
                par_budget -= 1
                # queries a parallel path might settle by itself (unsatisfiable antecedent / verification / falsification)
                x = ("a", rng.randrange(b["n"]))
                ya = rng.choice(pool)[1]
                for j_, (sb, sa) in enumerate(rng.sample([(("!", x), x), (("F",), ya), (x, ("&", ya, ("!", ya))), (("|", x, ("!", x)), ya), (x, ("&", x, ya))], 2)):
                    qs.append([60 + j_, sb, sa])     # keys distinct from each other and from the sampled ones (< 30)
            # a generous time budget that never fires must not change anything (sequential or parallel)
            budget = rng.choice([None, None, {"inference_timeout": 600}, {"total_timeout": 900}, {"total_timeout": 900, "inference_timeout": 300}])
            history.append({"queries": qs, "multi": multi, "budget": budget})
        if deep_pairs:
            # the two members of a pair of deep queries (they differ only in the innermost literals) on the same manager: once in one
            # batch, once in successive calls, in either order
            p0 = [list(q) for q in b["queries"][0:2]]
            p1 = [list(q) for q in b["queries"][2:4]]
            if rng.random() < 0.5:
                p0.reverse()
            if rng.random() < 0.5:
                p1.reverse()
            history.insert(rng.randrange(len(history) + 1), {"queries": [[40, p0[0][1], p0[0][2]], [41, p0[1][1], p0[1][2]]], "multi": False, "budget": None})
            history.append({"queries": [[42, p1[0][1], p1[0][2]]], "multi": False, "budget": None})
            history.append({"queries": [[43, p1[1][1], p1[1][2]]], "multi": False, "budget": None})
        # bases with >= 3 layers (deep recursions, more solver state to leak) are asked with every operator
        for system, pm in (cfgs if (layers or 0) >= 3 else [(system, pm)]):
            cases.append({"n": b["n"], "weakly": b["weakly"], "base": b["base"], "layers": layers, "system": system, "pmaxsat": pm,
                          "history": history, "extra_atoms": extra_atoms})
    # extended mode, bases without any finite layer (every conditional in the infinity layer): the operators' short paths
    for _ in range(6 if quick else 60):
        n = rng.randint(2, 4)
        a = rng.randrange(n)
        x = core.gen_formula(rng, n, 1, 0.0)
        base = rng.choice([[(("F",), ("a", a))], [(x, ("a", a)), (("!", x), ("a", a))], [(("F",), ("a", a)), (("!", ("a", a)), ("a", a))]])
        base = [[i + 1, b, c] for i, (b, c) in enumerate(base)]
        pool = [core.gen_cond(rng, n, 1, 0.0) for _q in range(6)]
        history = []
        for _c in range(rng.randint(2, 4)):
            qs = [[k] + list(rng.choice(pool)) for k in rng.sample(range(0, 30), rng.randint(2, 4))]
            history.append({"queries": qs, "multi": False, "budget": None})
        for system, pm in [c for c in CFGS if c[0] != "c-inference"]:
            cases.append({"n": n, "weakly": True, "base": base, "layers": 0, "system": system, "pmaxsat": pm, "history": history, "extra_atoms": False})
    impls = pmap_nd(impl_eval, cases, min(ctx.procs, 8))
    for c, impl in zip(cases, impls):
        ref = impl.get("ref") if c["system"] == "c-inference" else reference(c)
        ctx.evaluations += sum(len(call["queries"]) for call in c["history"])
        ctx.bump(f"operator={c['system']}/{c['pmaxsat']}")
        ctx.bump(f"calls={len(c['history'])}")
        ctx.bump(f"layers={c.get('layers')}")
        if c.get("extra_atoms"):
            ctx.bump("histories_with_atoms_outside_the_base")
        par = sum(1 for call in c["history"] if call["multi"])
        ctx.bump("parallel_calls", par)
        dup = any(len({json.dumps(q[1:]) for q in call["queries"]}) < len(call["queries"]) for call in c["history"])
        seen, rep = set(), False
        for call in c["history"]:
            cur = {json.dumps(q[1:]) for q in call["queries"]}
            rep = rep or bool(cur & seen)
            seen |= cur
        if dup:
            ctx.bump("histories_with_duplicate_text")
        if rep:
            ctx.bump("histories_with_repeated_query")
        if len(c["history"]) >= 2 and (dup or rep or par):
            ctx.nontrivial.add(hash(json.dumps([c["base"], c["history"], c["system"], c["pmaxsat"]])))
        names = core.names_for(c["n"])
        ctx.sample({"operator": f"{c['system']}/{c['pmaxsat']}", "weakly": c["weakly"],
                    "history": [{"multi": call["multi"], "queries": [[q[0], core.cond_text((q[1], q[2]), names)] for q in call["queries"]]} for call in c["history"]],
                    "tables": impl.get("calls")})
        if ref is None:
            ctx.bump("no_reference")
            continue
        for f in compare(c, impl, ref):
            ctx.fail(f, shrink)
