"""C01 p-entailment answers equal the definition on every consistent base (strict mode)."""
from props import answers

THEOREMS = ["InfOCF.C01_partition", "InfOCF.C01_models", "InfOCF.C01_trivial", "InfOCF.C01_eval_ext", "InfOCF.C01_refuse", "InfOCF.tolPart_none_iff"]
RULE = ("random strongly consistent bases (1-6 atoms, 1-7 conditionals; constants, duplicates, tautological conditionals) x 6 queries "
        "(own conditionals, negated consequents, random, atoms outside the signature); "
        "non-trivial = query not short-cut and base has >= 2 conditionals; distinct by (base, query)")
ASSUMPTIONS = ["world enumeration bounds the correspondence to <= 7 atoms; the theorems have no bound"]
CONFIGS = [("p-entailment", "rc2")]


def nontrivial(case, info, qk, row):
    return qk in ("contingent", "AB-unsat") and len(case["base"]) >= 2


def run(ctx):
    count = 300 if ctx.tier == "quick" else 6000
    cases = answers.load_corpus("C01")
    cases += answers.gen_cases(ctx, count, (1, 6), (1, 7), [False, False, False, False, True], strong_only=True, consts=0.08, rekey=0.3)
    # knowledge bases shipped with the repository (examples/random_large: 6-12 atoms, deeply nested formulas), parsed by the real parser
    cases += answers.shipped_cases(ctx, 8 if ctx.tier == "quick" else 120, (6, 10) if ctx.tier == "quick" else (6, 12), [False])
    if ctx.tier == "thorough":
        ex = answers.exhaustive_cases(ctx, [False])
        ctx.notes.append(f"exhaustive small scope: all one-conditional bases over the 16 truth tables on 2 atoms and all two-conditional bases "
                         f"over a pool of 36 conditionals, each against all 256 queries ({len(ex)} chunks of 64 queries)")
        cases += ex
    answers.run_cases(ctx, cases, CONFIGS, nontrivial)


def recheck(case):
    return answers.recheck_one(case)
