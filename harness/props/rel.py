"""Shared helpers for the relational properties (C08 inclusions, C09 postulates, C11 back-ends, C12 presentation):
these compare *implementation answers with each other* along relations that are Lean theorems at the level of the
definitions, so they also reach bases far too large for world enumeration."""
from __future__ import annotations

import glob
import os
import warnings

import core
from props import answers

STRICT_CFG = [("p-entailment", "rc2"), ("system-z", "rc2"), ("system-w", "rc2"), ("system-w", "z3"),
              ("lex_inf", "rc2"), ("lex_inf", "z3"), ("c-inference", "rc2")]
EXT_CFG = [c for c in STRICT_CFG if c[0] != "c-inference"]


def cfg_name(c):
    return f"{c[0]}/{c[1]}"


def eval_small(args):
    """case (answers.mk_case shape) x configs -> {cfg: ('ok', [bool]) | ('err', cls, msg)}"""
    case, configs = args
    names = case.get("names") or core.names_for(case["n"])
    out = {}
    for system, pm in configs:
        out[cfg_name((system, pm))] = core.impl_answers(names, answers.keyed(case["base"]), answers.keyed(case["queries"]),
                                                        system, weakly=case["weakly"], pmaxsat=pm, sig=case.get("sig"),
                                                        **(case.get("inference_kwargs") or {}))
    return out


def eval_file(args):
    """shipped knowledge base file x first m queries x configs, with a per-query time cap"""
    kb, qfile, m, configs, weakly, cap = args
    from inference.inference_manager import InferenceManager
    from inference.queries import Queries
    from parser.Wrappers import parse_belief_base, parse_queries

    out = {}
    try:
        with warnings.catch_warnings():
            warnings.simplefilter("ignore")
            bb = parse_belief_base(kb)
            qs = parse_queries(qfile)
            keys = list(qs.conditionals)[:m]
            sub = Queries({k: qs.conditionals[k] for k in keys})
            out["_queries"] = [str(sub.conditionals[k]) for k in keys]
            out["_size"] = (len(bb.signature), len(bb.conditionals))
            for system, pm in configs:
                try:
                    man = InferenceManager(bb, system, pmaxsat_solver=pm, weakly=weakly)
                    df = man.inference(sub, inference_timeout=cap, preprocessing_timeout=cap * 4)
                    res = []
                    for r, t1, t2 in zip(df["result"], df["inference_timed_out"], df["preprocessing_timed_out"]):
                        res.append(None if (t1 or t2) else bool(r))
                    out[cfg_name((system, pm))] = ("ok", res)
                except AssertionError as e:
                    out[cfg_name((system, pm))] = ("err", "refused", str(e)[:100])
                except Exception as e:  # noqa: BLE001
                    out[cfg_name((system, pm))] = ("err", type(e).__name__, str(e)[:200])
    except Exception as e:  # noqa: BLE001
        out["_error"] = f"{type(e).__name__}: {e}"[:300]
    return out


def shipped_pairs(rng, count, max_atoms=60):
    """(kb file, query file) pairs from the repository's corpora"""
    ex = os.path.join(core.REPO, "examples")
    pairs = []
    for kb in sorted(glob.glob(os.path.join(ex, "random_large", "randomTest_*.cl"))):
        base = os.path.basename(kb)[len("randomTest_"):-3]
        atoms = int(base.split("_")[0])
        if atoms > max_atoms:
            continue
        q = os.path.join(ex, "random_large", f"randomQueries_{base}.clq")
        if os.path.exists(q):
            pairs.append((kb, q))
    rng.shuffle(pairs)
    pairs = pairs[:count]
    birds_q = os.path.join(ex, "birds", "queries_birds.clq")
    return pairs


def pmap(ctx, fn, items, on_died=None):
    from check import pmap as _pmap

    return _pmap(fn, items, getattr(ctx, "procs", 4), on_died)


def eval_small_isolated(ctx):
    """replacement evaluation for an item whose worker died: every configuration in a process of its own; a configuration
    that kills its process gets the result ("crash", ...) and is recorded in ctx.stats / ctx.notes"""
    from check import _run_pool

    def on_died(item):
        case, configs = item
        out = {}
        for cfg in configs:
            done, lost, _s = _run_pool(eval_small, [(0, (case, [cfg]))], 1)
            if lost:
                out[cfg_name(cfg)] = ("crash", "worker process died (native crash of the selected engine)")
                ctx.bump(f"native_crash:{cfg_name(cfg)}")
                note = f"native crash (worker process died) with {cfg_name(cfg)}; the configuration is left out of the comparison for that input"
                if note not in ctx.notes:
                    ctx.notes.append(note)
            else:
                out.update(done[0])
        return out
    return on_died
