"""C03 System W equals the preferred-structure definition, both back-ends (strict mode)."""
from props import answers

THEOREMS = ["InfOCF.C03_main", "InfOCF.C03_wless_spec", "InfOCF.C03_spec_form", "InfOCF.C03_refuse", "InfOCF.algWCode_eq_algW", "InfOCF.algW_eq_specW", "InfOCF.C03_z3enum", "InfOCF.C15_loop_exact"]
RULE = ("random strongly consistent bases (half of them defaults-with-exceptions structures with several incomparable minimal falsification sets per layer) x 6 queries x {rc2, z3}; non-trivial = contingent query, >= 2 layers and a tie (a minimal falsification set shared by verifying and falsifying worlds) at the top layer; distinct by (base, query)")
ASSUMPTIONS = ["world enumeration bounds the correspondence to <= 7 atoms; the theorem has no bound"]
CONFIGS = [("system-w", "rc2"), ("system-w", "z3")]


def nontrivial(case, info, qk, row):
    return qk == "contingent" and (info["layers"] or 0) >= 2 and len(row) > 4 and row[4] >= 1


def run(ctx):
    count = 200 if ctx.tier == "quick" else 4000
    cases = answers.load_corpus("C03")
    cases += answers.gen_cases(ctx, count, (1, 6), (1, 7), [False, False, False, False, True], strong_only=True, ties=0.5, rekey=0.3, big=0.1, cost=0.12)
    # knowledge bases shipped with the repository (examples/random_large: 6-12 atoms, deeply nested formulas), parsed by the real parser
    cases += answers.shipped_cases(ctx, 8 if ctx.tier == "quick" else 120, (6, 10) if ctx.tier == "quick" else (6, 12), [False])
    if ctx.tier == "thorough":
        ex = answers.exhaustive_cases(ctx, [False])
        ctx.notes.append(f"exhaustive small scope: all one-conditional bases over the 16 truth tables on 2 atoms and all two-conditional bases "
                         f"over a pool of 36 conditionals, each against all 256 queries ({len(ex)} chunks of 64 queries)")
        cases += ex
    answers.run_cases(ctx, cases, CONFIGS, nontrivial)


def recheck(case):
    return answers.recheck_one(case)
