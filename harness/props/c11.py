"""C11 answers do not depend on the chosen solver back-end."""
from __future__ import annotations

import json
import warnings

import core
from props import answers, rel

THEOREMS = ["InfOCF.C11_W_backend_free", "InfOCF.C11_Lex_backend_free", "InfOCF.C11_loop_meets_contract", "InfOCF.C03_z3enum", "InfOCF.enumLoop_spec", "InfOCF.minimal_of_enum",
            "InfOCF.C03_main", "InfOCF.C04_main", "InfOCF.C07_W", "InfOCF.C07_Lex"]
RULE = ("small random and tie-rich bases (both modes) x 6 queries, and shipped random_large bases (time-capped), each asked under every "
        "usable back-end: z3, rc2 and rc2-<engine> for every SAT engine that pysat can instantiate here (measured at run time); "
        "system-w and lex_inf across all of them, c-inference across the rc2 engines (strict mode); non-trivial = contingent query on a "
        "base with >= 2 finite layers; distinct by (base, query, operator)")
ASSUMPTIONS = ["engines that cannot be instantiated in this sandbox (e.g. lingeling raises in RC2) are excluded and listed in the evidence",
               "a SAT engine of the installed pysat that kills the interpreter on an input (observed: MapleChrono 'mpl' under System W, "
               "signal 11) is not a usable engine on that input: the configuration is evaluated in a process of its own, left out of the "
               "comparison and counted in the evidence (native_crash:*); this is third-party native code, not code of the repository"]

CANDIDATES = ["g3", "g4", "g42", "cd", "cd15", "cd19", "m22", "mgh", "mc", "mcb", "mcm", "mpl", "gc3", "gc4", "mg3", "lgl", "mep"]


def usable_engines():
    from pysat.examples.rc2 import RC2
    from pysat.formula import WCNF

    ok, bad = [], []
    for e in CANDIDATES:
        try:
            w = WCNF()
            w.append([1, 2])
            w.append([-1], weight=1)
            w.append([-2], weight=1)
            with RC2(w, solver=e) as r:
                m = r.compute()
                assert m is not None and r.cost == 1
                r.add_clause([-1])
                m = r.compute()
                assert m is not None
            ok.append(e)
        except BaseException:  # noqa: BLE001
            bad.append(e)
    return ok, bad


def configs_for(weakly, engines):
    cfgs = []
    for op in ("system-w", "lex_inf"):
        cfgs.append((op, "z3"))
        cfgs.append((op, "rc2"))
        cfgs += [(op, f"rc2-{e}") for e in engines]
    if not weakly:
        cfgs.append(("c-inference", "rc2"))
        cfgs += [("c-inference", f"rc2-{e}") for e in engines]
    return cfgs


def compare(case, res, queries_txt=None):
    fails = []
    by_op = {}
    for k, r in res.items():
        if k.startswith("_"):
            continue
        by_op.setdefault(k.split("/")[0], []).append((k, r))
    for op, lst in by_op.items():
        ref = None
        for k, r in lst:
            if r[0] == "ok":
                ref = (k, r)
                break
        for k, r in lst:
            if ref is None:
                break
            if r[0] != "ok":
                if r[1] in ("empty", "inconsistent", "refused") or r[0] == "crash":
                    # a SAT engine of the installed pysat that crashes natively is not a "usable engine" of the property
                    continue
                c = dict(case, pair=[ref[0], k])
                fails.append({"case": c, "impl": {ref[0]: ref[1][1], k: list(r[:2])}, "spec": "same answers under every back-end",
                              "signature": f"{op} weakly={case.get('weakly')}: back-end {k.split('/')[1]} raised {r[1]} where {ref[0].split('/')[1]} answers",
                              "what": "a back-end raises where another answers"})
                continue
            for i, (x, y) in enumerate(zip(ref[1][1], r[1])):
                if x is None or y is None:
                    continue
                if x != y:
                    c = dict(case, pair=[ref[0], k])
                    if "queries" in case:
                        c["queries"] = [case["queries"][i]]
                    else:
                        c["query_text"] = queries_txt[i]
                    fails.append({"case": c, "impl": {ref[0]: x, k: y}, "spec": "same answers under every back-end",
                                  "signature": f"{op} weakly={case.get('weakly')}: back-ends {ref[0].split('/')[1]} and {k.split('/')[1].split('-')[0]} disagree",
                                  "what": "answers differ between back-ends"})
                    break
    return fails


def recheck(case):
    cfgs = [tuple(x.split("/")) for x in case["pair"]]
    if "kb" in case:
        res = rel.eval_file((case["kb"], case["qfile"], case["m"], cfgs, case["weakly"], case["cap"]))
        fs = compare({k: case[k] for k in ("kb", "qfile", "m", "weakly", "cap")}, res, res.get("_queries"))
        return fs[0] if fs else None
    base_case = {k: case[k] for k in ("n", "sig", "weakly", "base", "queries", "inference_kwargs") if k in case}
    res = rel.eval_small((base_case, cfgs))
    fs = compare(base_case, res)
    return fs[0] if fs else None


def shrink(fail, budget=40):
    if "kb" in fail["case"]:
        return fail
    sig = fail["signature"]
    best = fail
    progress = True
    while progress and budget > 0:
        progress = False
        case = best["case"]
        for i in range(len(case["base"])):
            if len(case["base"]) <= 1 or budget <= 0:
                break
            budget -= 1
            try:
                f = recheck(dict(case, base=case["base"][:i] + case["base"][i + 1:]))
            except Exception:  # noqa: BLE001
                f = None
            if f and f["signature"] == sig:
                best, progress = f, True
                break
    return best


def run(ctx):
    quick = ctx.tier == "quick"
    engines, bad = usable_engines()
    ctx.notes.append(f"usable rc2 engines: {engines}; excluded: {bad}")
    if quick:
        # every engine is used, but spread over the cases (3 per case) to keep the quick tier short
        pass
    cases = answers.load_corpus("C11")
    cases += answers.gen_cases(ctx, 70 if quick else 1200, (2, 5), (1, 6), [False], ties=0.5, consts=0.08, rekey=0.3, big=0.08, cost=0.12)
    cases += answers.gen_cases(ctx, 40 if quick else 800, (2, 5), (1, 6), [True], ties=0.4, consts=0.12, rekey=0.3)
    jobs = []
    for c in cases:
        from_corpus = "note" in c
        c = {k: v for k, v in c.items() if not k.startswith("_") and k != "note"}
        eng = engines if (not quick or from_corpus) else ctx.rng.sample(engines, min(4, len(engines)))
        if len(jobs) % 11 == 5:
            # back-end independence also under parallel evaluation (with or without a generous budget)
            c["inference_kwargs"] = ctx.rng.choice([{"multi_inference": True}, {"multi_inference": True, "inference_timeout": 600}])
            eng = eng[:2]
            # queries decided by the general short cut (unsatisfiable antecedent, unfalsifiable query) belong to every batch
            a0 = ("a", ctx.rng.randrange(c["n"]))
            k0 = max([q[0] for q in c["queries"]] + [0])
            c["queries"] = c["queries"] + [[k0 + 1, core.gen_formula(ctx.rng, c["n"], 1, 0.0), ("&", a0, ("!", a0))],
                                           [k0 + 2, a0, ("&", a0, core.gen_formula(ctx.rng, c["n"], 1, 0.0))]]
        jobs.append((c, configs_for(c["weakly"], eng)))
    results = rel.pmap(ctx, rel.eval_small, jobs, rel.eval_small_isolated(ctx))
    for (c, cfgs), res in zip(jobs, results):
        ctx.evaluations += len(c["queries"]) * len(cfgs)
        ctx.bump(f"small:mode={'ext' if c['weakly'] else 'strict'}")
        for cfg in cfgs:
            ctx.bump(f"backend:{cfg[1]}")
        info = answers.classify(c)
        W = core.all_worlds(c["n"])
        if (info.get("layers") or 0) >= 2:
            for q in c["queries"]:
                if answers.query_kind(c, q, W) == "contingent":
                    ctx.nontrivial.add(hash(json.dumps([c["base"], q[1:], c["weakly"]])))
        names = core.names_for(c["n"])
        ctx.sample({"base": [core.cond_text((b, a), names) for _, b, a in c["base"]], "weakly": c["weakly"],
                    "answers": {k: (v[1] if v[0] == "ok" else v[:2]) for k, v in list(res.items())[:4]}})
        for f in compare(c, res):
            ctx.fail(f, shrink)
    # large bases: rc2 vs z3 (+ one more engine)
    files = rel.shipped_pairs(ctx.rng, 8 if quick else 32, max_atoms=20 if quick else 40)
    m, cap = (5, 5) if quick else (8, 6)
    jobs = []
    for kb, q in files:
        weakly = ctx.rng.random() < 0.3
        e = ctx.rng.choice(engines)
        cfgs = [("system-w", "rc2"), ("system-w", "z3"), ("system-w", f"rc2-{e}"), ("lex_inf", "rc2"), ("lex_inf", "z3"), ("lex_inf", f"rc2-{e}")]
        jobs.append((kb, q, m, cfgs, weakly, cap))
    results = rel.pmap(ctx, rel.eval_file, jobs)
    for job, res in zip(jobs, results):
        kb, q, m_, cfgs, weakly, cap_ = job
        if "_error" in res:
            ctx.bump("large:load_error")
            continue
        ctx.bump(f"large:atoms={res['_size'][0]}")
        ctx.evaluations += m_ * len(cfgs)
        ctx.nontrivial.add(hash((kb, weakly)))
        for k, r in res.items():
            if not k.startswith("_") and r[0] == "ok":
                ctx.bump("large:timed_out_rows", sum(1 for x in r[1] if x is None))
        case = {"kb": kb, "qfile": q, "m": m_, "weakly": weakly, "cap": cap_}
        ctx.failures.extend(compare(case, res, res["_queries"]))
