"""Refutation certificates for the answer True of c-inference (checked by the Lean driver, theorem C05_cert_sound).

The compiled system of c-inference is, per conditional i, `exists S in vMin_i, forall T in fMin_i: sum_S < eta_i + sum_T`, and the
negated query is `exists T in fMin_q, forall S in vMin_q: sum_T <= sum_S`.  For every choice of the existentials the remaining
homogeneous linear system over eta >= 0 is either refuted by a non-negative combination (Motzkin / Farkas; found here with z3 used as
an LP solver, CHECKED by the driver), or it has a solution, which is a candidate counter-model (also checked by the driver).
The families and their order come from the driver (`ctab`), because the multipliers are positional.
"""
from __future__ import annotations

import itertools


def _fam(txt):
    if txt == "":
        return []
    return [frozenset() if s == "-" else frozenset(int(x) for x in s.split(",")) for s in txt.split(";")]


def parse_ctab(resp):
    rows_txt, qs_txt = resp.split("@")
    rows = []
    for r in rows_txt.split("|"):
        v, f = r.split("#")
        rows.append((_fam(v), _fam(f)))
    qs = []
    if qs_txt != "":
        for r in qs_txt.split("|"):
            v, f = r.split("#")
            qs.append((_fam(v), _fam(f)))
    return rows, qs


def leaf_ok(k, rows, ch, T, Vq, leaf):
    bm, qm = leaf
    if sum(sum(ms) for ms in bm) < 1:
        return False
    for c in range(k):
        lhs = rhs = 0
        for j, ((_, F), ms) in enumerate(zip(rows, bm)):
            S = rows[j][0][ch[j]]
            for Tt, m in zip(F, ms):
                if m:
                    lhs += m * (c in S)
                    rhs += m * ((c == j) + (c in Tt))
        for S, m in zip(Vq, qm):
            if m:
                lhs += m * (c in T)
                rhs += m * (c in S)
        if rhs > lhs:
            return False
    return True


def _solve_leaf(k, rows, ch, T, Vq):
    """returns ('leaf', (bm, qm)) or ('model', eta) or ('unknown', None)"""
    import z3

    lam = [[z3.Int(f"l_{j}_{t}") for t in range(len(F))] for j, (_, F) in enumerate(rows)]
    mu = [z3.Int(f"m_{s}") for s in range(len(Vq))]
    s = z3.Solver()
    s.set("timeout", 10000)
    flat = [x for row in lam for x in row]
    for x in flat + mu:
        s.add(x >= 0)
    s.add(z3.Sum(flat + [z3.IntVal(0)]) >= 1)
    for c in range(k):
        lhs, rhs = [], []
        for j, (V, F) in enumerate(rows):
            S = V[ch[j]]
            for t, Tt in enumerate(F):
                if c in S:
                    lhs.append(lam[j][t])
                coef = (c == j) + (c in Tt)
                if coef:
                    rhs.append(coef * lam[j][t])
        for si, S in enumerate(Vq):
            if c in T:
                lhs.append(mu[si])
            if c in S:
                rhs.append(mu[si])
        s.add(z3.Sum(rhs + [z3.IntVal(0)]) <= z3.Sum(lhs + [z3.IntVal(0)]))
    r = s.check()
    if r == z3.sat:
        m = s.model()
        val = lambda x: m.eval(x, model_completion=True).as_long()  # noqa: E731
        return "leaf", ([[val(x) for x in row] for row in lam], [val(x) for x in mu])
    if r != z3.unsat:
        return "unknown", None
    # no refutation: the chosen linear system is solvable; find an integer solution (candidate counter-model)
    eta = [z3.Int(f"e_{c}") for c in range(k)]
    p = z3.Solver()
    p.set("timeout", 10000)
    for e in eta:
        p.add(e >= 0)
    sm = lambda S: z3.Sum([eta[c] for c in S] + [z3.IntVal(0)])  # noqa: E731
    for j, (V, F) in enumerate(rows):
        for Tt in F:
            p.add(sm(V[ch[j]]) + 1 <= eta[j] + sm(Tt))
    for S in Vq:
        p.add(sm(T) <= sm(S))
    if p.check() == z3.sat:
        m = p.model()
        return "model", [m.eval(e, model_completion=True).as_long() for e in eta]
    return "unknown", None


def build_cert(k, rows, Vq, Fq, cap=400):
    """certificate for one query: {'status': ok|cap|counter|unknown|trivial, 'pool': [...], 'eta': [...], 'choices': n}"""
    if not Fq:
        return {"status": "trivial", "pool": [], "choices": 0}
    sizes = [len(V) for V, _ in rows]
    total = len(Fq)
    for x in sizes:
        total *= x
    if total > cap:
        return {"status": "cap", "pool": [], "choices": total}
    pool = []
    for ch in itertools.product(*[range(x) for x in sizes]):
        for T in Fq:
            if any(leaf_ok(k, rows, ch, T, Vq, lf) for lf in pool):
                continue
            kind, val = _solve_leaf(k, rows, ch, T, Vq)
            if kind == "leaf":
                pool.append(val)
            elif kind == "model":
                return {"status": "counter", "pool": pool, "eta": val, "choices": total}
            else:
                return {"status": "unknown", "pool": pool, "choices": total}
    return {"status": "ok", "pool": pool, "choices": total}


def pool_text(pool):
    out = [str(len(pool))]
    for bm, qm in pool:
        out.append(str(len(bm)))
        for ms in bm:
            out.append(str(len(ms)))
            out += [str(x) for x in ms]
        out.append(str(len(qm)))
        out += [str(x) for x in qm]
    return " ".join(out)


# --------------------------------------------------------------------------------------
# completeness of a Pareto front (theorem C17_front_cert_sound)
# --------------------------------------------------------------------------------------

def fleaf_ok(k, rows, ch, front, cs, leaf):
    bm, fm = leaf
    lk = rk = 0
    for ms in bm:
        lk += sum(ms)
    for f, c, m in zip(front, cs, fm):
        lk += m
        rk += m * f[c]
    if not rk < lk:
        return False
    for c in range(k):
        lhs = rhs = 0
        for j, ((_, F), ms) in enumerate(zip(rows, bm)):
            S = rows[j][0][ch[j]]
            for Tt, m in zip(F, ms):
                if m:
                    lhs += m * (c in S)
                    rhs += m * ((c == j) + (c in Tt))
        for f, cc, m in zip(front, cs, fm):
            if cc == c:
                lhs += m
        if rhs > lhs:
            return False
    return True


def _solve_fleaf(k, rows, ch, front, cs):
    import z3

    lam = [[z3.Int(f"l_{j}_{t}") for t in range(len(F))] for j, (_, F) in enumerate(rows)]
    phi = [z3.Int(f"p_{i}") for i in range(len(front))]
    s = z3.Solver()
    s.set("timeout", 10000)
    flat = [x for row in lam for x in row]
    for x in flat + phi:
        s.add(x >= 0)
    s.add(z3.Sum([phi[i] * front[i][cs[i]] for i in range(len(front))] + [z3.IntVal(0)]) < z3.Sum(flat + phi + [z3.IntVal(0)]))
    for c in range(k):
        lhs, rhs = [], []
        for j, (V, F) in enumerate(rows):
            S = V[ch[j]]
            for t, Tt in enumerate(F):
                if c in S:
                    lhs.append(lam[j][t])
                coef = (c == j) + (c in Tt)
                if coef:
                    rhs.append(coef * lam[j][t])
        for i in range(len(front)):
            if cs[i] == c:
                lhs.append(phi[i])
        s.add(z3.Sum(rhs + [z3.IntVal(0)]) <= z3.Sum(lhs + [z3.IntVal(0)]))
    r = s.check()
    if r == z3.sat:
        m = s.model()
        val = lambda x: m.eval(x, model_completion=True).as_long()  # noqa: E731
        return "leaf", ([[val(x) for x in row] for row in lam], [val(x) for x in phi])
    if r != z3.unsat:
        return "unknown", None
    eta = [z3.Int(f"e_{c}") for c in range(k)]
    p = z3.Solver()
    p.set("timeout", 10000)
    for e in eta:
        p.add(e >= 0)
    sm = lambda S: z3.Sum([eta[c] for c in S] + [z3.IntVal(0)])  # noqa: E731
    for j, (V, F) in enumerate(rows):
        for Tt in F:
            p.add(sm(V[ch[j]]) + 1 <= eta[j] + sm(Tt))
    for i, f in enumerate(front):
        p.add(eta[cs[i]] + 1 <= f[cs[i]])
    if p.check() == z3.sat:
        m = p.model()
        return "model", [m.eval(e, model_completion=True).as_long() for e in eta]
    return "unknown", None


def build_front_cert(k, rows, front, cap=3000):
    """front: vectors in the listing order of the base. {'status': ok|cap|counter|unknown, 'pool', 'eta', 'choices'}"""
    sizes = [len(V) for V, _ in rows]
    total = k ** len(front)
    for x in sizes:
        total *= x
    if total > cap:
        return {"status": "cap", "pool": [], "choices": total}
    zero_bm = [[0] * len(F) for _, F in rows]
    pool = [(zero_bm, [1 if i == j else 0 for i in range(len(front))]) for j in range(len(front))]
    for ch in itertools.product(*[range(x) for x in sizes]):
        for cs in itertools.product(*[range(k) for _ in front]):
            if any(f[c] == 0 for f, c in zip(front, cs)):
                continue        # eta_c + 1 <= 0: refuted by the unit leaf of that member
            if any(fleaf_ok(k, rows, ch, front, cs, lf) for lf in pool):
                continue
            kind, val = _solve_fleaf(k, rows, ch, front, cs)
            if kind == "leaf":
                pool.append(val)
            elif kind == "model":
                return {"status": "counter", "pool": pool, "eta": val, "choices": total}
            else:
                return {"status": "unknown", "pool": pool, "choices": total}
    return {"status": "ok", "pool": pool, "choices": total}


def fpool_text(pool):
    return pool_text(pool)


def front_text(front):
    out = [str(len(front))]
    for f in front:
        out.append(str(len(f)))
        out += [str(x) for x in f]
    return " ".join(out)


# --------------------------------------------------------------------------------------
# c-revision: "no parameters exist" (theorem C19_none_cert_sound)
# --------------------------------------------------------------------------------------

def build_none_cert(n, ranks, conds, gpz, worlds, cap=1200):
    """conds: [(cons, ante)] in listing order; worlds: tuples of bools in the Lean order; ranks aligned with worlds.
    returns {'status': ok|cap|counter|unknown, 'pool': [(am, zm)], 'gp', 'gm', 'choices'}"""
    import z3

    import core

    k = len(conds)
    ver = [[wi for wi, w in enumerate(worlds) if core.c_ver(c, w)] for c in conds]
    fal = [[wi for wi, w in enumerate(worlds) if core.c_fal(c, w)] for c in conds]
    row = []
    for w in worlds:
        row.append([1 if core.c_ver(c, w) else 0 for c in conds] + [1 if core.c_fal(c, w) else 0 for c in conds])
    total = 1
    for v in ver:
        total *= len(v)
    if total > cap:
        return {"status": "cap", "pool": [], "choices": total}
    pool = []

    def leaf_ok(ch, leaf):
        am, zm = leaf
        lk = rk = 0
        lc = [0] * (2 * k)
        rc = [0] * (2 * k)
        for i in range(k):
            for f, m in zip(fal[i], am[i]):
                if m:
                    lk += m * (ranks[ch[i]] + 1)
                    rk += m * ranks[f]
                    for p in range(2 * k):
                        lc[p] += m * row[ch[i]][p]
                        rc[p] += m * row[f][p]
        if gpz:
            for p in range(k):
                lc[p] += zm
        return rk < lk and all(rc[p] <= lc[p] for p in range(2 * k))

    for ch in itertools.product(*ver):
        if any(leaf_ok(ch, lf) for lf in pool):
            continue
        lam = [[z3.Int(f"l_{i}_{t}") for t in range(len(fal[i]))] for i in range(k)]
        z = z3.Int("z")
        s = z3.Solver()
        s.set("timeout", 10000)
        flat = [x for r_ in lam for x in r_]
        for x in flat + [z]:
            s.add(x >= 0)
        if not gpz:
            s.add(z == 0)
        s.add(z3.Sum([lam[i][t] * ranks[f] for i in range(k) for t, f in enumerate(fal[i])] + [z3.IntVal(0)]) <
              z3.Sum([lam[i][t] * (ranks[ch[i]] + 1) for i in range(k) for t, f in enumerate(fal[i])] + [z3.IntVal(0)]))
        for p in range(2 * k):
            rhs = [lam[i][t] * row[f][p] for i in range(k) for t, f in enumerate(fal[i]) if row[f][p]]
            lhs = [lam[i][t] * row[ch[i]][p] for i in range(k) for t, f in enumerate(fal[i]) if row[ch[i]][p]]
            if gpz and p < k:
                lhs.append(z)
            s.add(z3.Sum(rhs + [z3.IntVal(0)]) <= z3.Sum(lhs + [z3.IntVal(0)]))
        r = s.check()
        if r == z3.sat:
            m = s.model()
            val = lambda x: m.eval(x, model_completion=True).as_long()  # noqa: E731
            pool.append(([[val(x) for x in r_] for r_ in lam], val(z)))
            continue
        if r != z3.unsat:
            return {"status": "unknown", "pool": pool, "choices": total}
        # no refutation of this choice: look for parameters
        g = [z3.Int(f"g_{p}") for p in range(2 * k)]
        q = z3.Solver()
        q.set("timeout", 10000)
        for x in g:
            q.add(x >= 0)
        if gpz:
            for p in range(k):
                q.add(g[p] == 0)
        kap = lambda wi: ranks[wi] + z3.Sum([g[p] for p in range(2 * k) if row[wi][p]] + [z3.IntVal(0)])  # noqa: E731
        for i in range(k):
            for f in fal[i]:
                q.add(kap(ch[i]) + 1 <= kap(f))
        if q.check() == z3.sat:
            m = q.model()
            vals = [m.eval(x, model_completion=True).as_long() for x in g]
            return {"status": "counter", "pool": pool, "gp": vals[:k], "gm": vals[k:], "choices": total}
        return {"status": "unknown", "pool": pool, "choices": total}
    return {"status": "ok", "pool": pool, "choices": total}


def rpool_text(pool):
    out = [str(len(pool))]
    for am, zm in pool:
        out.append(str(len(am)))
        for ms in am:
            out.append(str(len(ms)))
            out += [str(x) for x in ms]
        out.append(str(zm))
    return " ".join(out)
