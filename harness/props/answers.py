"""Shared correspondence for the answer-level properties (C01-C04, C07, ...):
implementation answers through InferenceManager vs. the driver's `ans` request."""
from __future__ import annotations

import json

import core

SYS_COL = {"p-entailment": 0, "system-z": 1, "system-w": 2, "lex_inf": 3}


def mk_case(n, sig, base, queries, weakly):
    return {"n": n, "sig": sig, "weakly": bool(weakly),
            "base": [[k, c[0], c[1]] for k, c in base],
            "queries": [[k, c[0], c[1]] for k, c in queries]}


def keyed(lst):
    return [(k, (b, a)) for k, b, a in lst]


def case_key(case):
    return json.dumps(case, sort_keys=True)


def driver_line(case):
    return f"ans {case['n']} {1 if case['weakly'] else 0} {core.conds_line(keyed(case['base']))} {core.conds_line(keyed(case['queries']))}"


def decode(resp, nq):
    """driver response -> ('E'|'I', None) or ('ok', [ (p,z,w,l) per query ])"""
    parts = resp.split(" ")
    assert len(parts) == nq, (resp, nq)
    rows = []
    for p in parts:
        m = p.split("/")[0]
        if m[0] in "EI":
            return (m[0], None)
        rows.append(tuple(ch == "1" for ch in m))
    return ("ok", rows)


def impl_eval(args):
    case, configs = args
    names = core.names_for(case["n"])
    out = {}
    for system, pm in configs:
        out[f"{system}/{pm}"] = core.impl_answers(names, keyed(case["base"]), keyed(case["queries"]),
                                                  system, weakly=case["weakly"], pmaxsat=pm, sig=case["sig"],
                                                  **(case.get("inference_kwargs") or {}))
    return out


def compare(case, impl, model, configs):
    """returns list of failure dicts"""
    fails = []
    kind, rows = model
    for system, pm in configs:
        r = impl[f"{system}/{pm}"]
        col = SYS_COL[system]
        if kind != "ok":
            want = "empty" if kind == "E" else "inconsistent"
            if r[0] == "err" and r[1] == want:
                continue
            fails.append({"case": dict(case, system=system, pmaxsat=pm),
                          "impl": list(r), "spec": f"refuse:{want}",
                          "signature": f"{system}/{pm}: expected refusal {want}, got {r[0]}:{r[1] if r[0]=='err' else 'answers'}",
                          "what": "operator did not refuse an unacceptable base"})
            continue
        if r[0] == "err":
            fails.append({"case": dict(case, system=system, pmaxsat=pm),
                          "impl": list(r), "spec": [row[col] for row in rows],
                          "signature": f"{system}/{pm}: raised {r[1]}",
                          "what": "operator raised instead of answering"})
            continue
        want = [row[col] for row in rows]
        if r[1] != want:
            idx = [i for i, (a, b) in enumerate(zip(r[1], want)) if a != b]
            i0 = idx[0]
            fails.append({"case": dict(case, system=system, pmaxsat=pm, queries=[case["queries"][i0]]),
                          "impl": r[1][i0], "spec": want[i0],
                          "signature": f"{system}/{pm}: answered {r[1][i0]} where the definition says {want[i0]}",
                          "what": "answer differs from the definition"})
    return fails


def recheck_one(case):
    """re-run implementation and model on a single-config case (used by shrinker and replay)"""
    cfg = [(case["system"], case["pmaxsat"])]
    base_case = {k: case[k] for k in ("n", "sig", "weakly", "base", "queries", "inference_kwargs") if k in case}
    impl = impl_eval((base_case, cfg))
    resp = core.driver_batch([driver_line(base_case)])[0]
    model = decode(resp, len(base_case["queries"]))
    fs = compare(base_case, impl, model, cfg)
    return fs[0] if fs else None


# --------------------------------------------------------------------------------------
# shrinking
# --------------------------------------------------------------------------------------

def _subformulas(f):
    out = []
    if f[0] in "!&|":
        for g in f[1:]:
            out.append(g)
    return out


def shrink(fail, budget=150):
    """greedy: drop conditionals, replace formulas by sub-formulas; keep the same failure signature"""
    sig = fail["signature"]
    best = fail

    def still(c):
        nonlocal budget
        if budget <= 0:
            return None
        budget -= 1
        try:
            f = recheck_one(c)
        except Exception:  # noqa: BLE001
            return None
        if f and f["signature"] == sig:
            return f
        return None

    progress = True
    while progress and budget > 0:
        progress = False
        case = best["case"]
        # drop conditionals
        for i in range(len(case["base"])):
            if len(case["base"]) <= 1:
                break
            c2 = dict(case, base=case["base"][:i] + case["base"][i + 1:])
            f = still(c2)
            if f:
                best, progress = f, True
                break
        if progress:
            continue
        # simplify formulas
        for which in ("base", "queries"):
            for i, (k, b, a) in enumerate(case[which]):
                for pos, fm in ((1, b), (2, a)):
                    for g in _subformulas(fm):
                        item = [k, b, a]
                        item[pos] = g
                        lst = list(case[which])
                        lst[i] = item
                        f = still(dict(case, **{which: lst}))
                        if f:
                            best, progress = f, True
                            break
                    if progress:
                        break
                if progress:
                    break
            if progress:
                break
    return best


# --------------------------------------------------------------------------------------
# classification for evidence
# --------------------------------------------------------------------------------------

def classify(case):
    n = case["n"]
    W = core.all_worlds(n)
    conds = [(b, a) for _, b, a in case["base"]]
    part = core.py_partition(conds, W, weakly=case["weakly"])
    info = {"layers": None, "inf": 0}
    if part is None:
        info["status"] = "rejected"
        return info
    if case["weakly"]:
        info["inf"] = len(part[-1])
        info["layers"] = len(part) - 1
        info["fin"] = part[:-1]
        info["infl"] = part[-1]
    else:
        info["layers"] = len(part)
        info["fin"] = part
        info["infl"] = []
    info["status"] = "ok"
    return info


def top_ties(case, info_part, q, W):
    """number of inclusion-minimal falsification sets of the top finite layer shared by verifying and falsifying worlds"""
    if not info_part:
        return 0
    conds = [(b, a) for _, b, a in case["base"]]
    top = info_part[-1]
    c = (q[1], q[2])

    def fam(worlds):
        sets = {frozenset(i for i in top if core.c_fal(conds[i], w)) for w in worlds}
        return {s for s in sets if not any(t < s for t in sets)}

    V = fam([w for w in W if core.c_ver(c, w)])
    F = fam([w for w in W if core.c_fal(c, w)])
    return len(V & F)


def query_kind(case, q, W=None):
    n = case["n"]
    W = W or core.all_worlds(n)
    c = (q[1], q[2])
    if not any(core.f_eval(c[1], w) for w in W):
        return "A-unsat"
    if not any(core.c_fal(c, w) for w in W):
        return "AnotB-unsat"
    if not any(core.c_ver(c, w) for w in W):
        return "AB-unsat"
    return "contingent"


# --------------------------------------------------------------------------------------
# generic run
# --------------------------------------------------------------------------------------

def gen_cases(ctx, count, n_range, k_range, weakly_modes, want=("ok",), q_per=6, consts=0.05, depth=2,
              outside_sig=0.1, max_tries=40, ties=0.0, deep=0.12, flat=0.06, conj=0.06, big=0.04, rekey=0.0, cost=0.08, infchain=0.12, subs=0.05, strong_only=False):
    """generate cases whose base status (by brute force classification) is in `want`"""
    rng = ctx.rng
    cases = []
    tries = 0
    while len(cases) < count and tries < count * max_tries:
        tries += 1
        n = rng.randint(*n_range)
        k = rng.randint(*k_range)
        weakly = rng.choice(weakly_modes)
        nq = n
        queries = []
        hintq = []
        kind = ""
        if rng.random() < big and n_range[1] >= 5:
            # larger inputs: 6-7 atoms, 8-12 conditionals (>= 10 keys, up to 6 layers)
            n = nq = rng.randint(6, 7)
            r = rng.random()
            if r < 0.45:
                conds, queries = core.gen_chain_case(rng, n)
            elif r < 0.7:
                conds, queries = core.gen_tie_case(rng, n)
            else:
                conds, queries = core.gen_base(rng, n, rng.randint(8, 10), depth=1, consts=0.0), []
            target = rng.choice([8, 9, 10, 10, 11, 12])
            while len(conds) < target:
                conds.append(core.gen_cond(rng, n, 1, 0.0))
            if rng.random() < 0.5:
                # a very specific rule: long conjunction chain as antecedent (tree height >= 5)
                ch, lits = core.deep_chain(rng, rng.sample(range(n), 6))
                conds.append((("a", rng.randrange(n)) if rng.random() < 0.5 else ("!", ("a", rng.randrange(n))), ch))
            rng.shuffle(conds)
            queries = (core.gen_deep_pairs(rng, n, 2, conds) + list(queries))[:max(q_per, 4)] if q_per else []
            kind = "deep_pairs" if q_per else ""
        elif rng.random() < cost and n_range[1] >= 5:
            n = nq = rng.randint(max(5, n_range[0]), min(6, n_range[1]))
            conds, queries = core.gen_cost_case(rng, n)
            hintq = list(queries)
            queries = queries[:q_per]
        elif rng.random() < subs and n_range[1] >= 3:
            n = nq = rng.randint(max(3, n_range[0]), min(4, n_range[1]))
            conds, queries = core.gen_subsumed_case(rng, n)
            hintq = list(queries)
            queries = queries[:q_per]
        elif rng.random() < ties and n_range[1] >= 4:
            n = nq = rng.randint(max(4, n_range[0]), n_range[1])
            conds, queries = core.gen_tie_case(rng, n)
        elif weakly and rng.random() < infchain and n_range[1] >= 3:
            n = nq = rng.randint(max(3, n_range[0]), n_range[1])
            conds, queries = core.gen_infchain_case(rng, n)
            kind = "infchain"
            hintq = list(queries)
            queries = queries[:q_per]
        elif rng.random() < conj and n_range[1] >= 3:
            n = nq = rng.randint(max(3, n_range[0]), n_range[1])
            conds, queries = core.gen_conj_case(rng, n)
            hintq = list(queries)
            queries = queries[:q_per]
        elif rng.random() < flat and n_range[1] >= 3:
            n = nq = rng.randint(max(3, n_range[0]), n_range[1])
            conds, queries = core.gen_flat_case(rng, n)
            hintq = list(queries)
            queries = queries[:q_per]
        elif rng.random() < deep and n_range[1] >= 4:
            n = nq = rng.randint(max(4, n_range[0]), n_range[1])
            conds, queries = core.gen_chain_case(rng, n)
            rng.shuffle(queries)
            hintq = list(queries)
            queries = queries[:q_per]
        else:
            conds = core.gen_base(rng, n, k, depth=depth, consts=consts)
            if rng.random() < outside_sig:
                nq = n + 1
        for j in range(q_per - len(queries)):
            r = rng.random()
            if r < 0.15 and conds:
                queries.append(rng.choice(conds))  # the base's own conditionals
            elif r < 0.25 and conds:
                b, a = rng.choice(conds)
                queries.append((("!", b), a))
            else:
                queries.append(core.gen_cond(rng, nq, depth, consts))
        if outside_sig > 0 and nq == n and kind != "deep_pairs" and rng.random() < 0.07 and n < 7:
            # also for the structured cases: one atom outside the base's signature (the two last queries are then about it)
            nq = n + 1
        if conds and rng.random() < 0.12:
            # the same conditional listed twice (two keys): multiplicities matter for lexicographic counts and impacts
            j = rng.randrange(len(conds))
            conds = list(conds[:j + 1]) + [conds[j]] + list(conds[j + 1:])
        if nq > n and conds and q_per >= 2 and queries:
            # antecedents made only of atoms the base does not mention, consequents the base constrains
            x = ("a", n)
            b1, b2 = rng.choice(conds)[0], rng.choice(conds)[0]
            queries = list(queries)
            queries[-1] = (b1, x)
            if len(queries) >= 2:
                queries[-2] = (b2 if rng.random() < 0.6 else ("!", b2), ("!", x))
        keys = list(range(1, len(conds) + 1))
        if rng.random() < rekey:
            # any distinct integer keys, one- and two-digit ones mixed, not ascending
            keys = rng.sample(range(0, 40), len(conds))
        case = mk_case(nq, n, list(zip(keys, conds)), list(enumerate(queries, 1)), weakly)
        info = classify(case)
        if info["status"] not in want:
            continue
        if strong_only and weakly and (info.get("inf") or 0) > 0:
            continue    # extended mode is asked here only on strongly consistent bases (where it must coincide with strict mode)
        case["_info"] = info
        case["_hintq"] = hintq
        case["_kind"] = kind
        r = rng.random()
        if r > 0.9:
            case["inference_kwargs"] = {"_shared": True}
        elif r > 0.8:
            case["inference_kwargs"] = {"_own": True}
        if r < 0.08 or (kind == "infchain" and r < 0.3):
            # the answer must not depend on how the batch is evaluated or labelled: parallel evaluation, generous budgets that
            # never fire, display options
            case["inference_kwargs"] = rng.choice([{"multi_inference": True}, {"multi_inference": True, "inference_timeout": 600},
                                                   {"inference_timeout": 600, "preprocessing_timeout": 600}, {"total_timeout": 900},
                                                   {"queries_name": "batch-7", "decimals": 3}, {"_warmup": True}, {"_warmup": True}])
            if case["inference_kwargs"].get("multi_inference") and len(case["queries"]) >= 3:
                # queries a parallel path might settle (or mis-settle) by itself: unsatisfiable verification / falsification
                x = ("a", rng.randrange(max(1, n)))
                y = rng.choice(case["queries"])[2]
                special = [(("!", x), x), (("F",), y), (("&", x, ("!", x)), y), (("|", x, ("!", x)), y), (x, ("&", y, ("!", y)))]
                rng.shuffle(special)
                qs = case["queries"]
                for j, (b, a) in enumerate(special[:2]):
                    qs[-1 - j] = [qs[-1 - j][0], b, a]
        cases.append(case)
    return cases


def _load_shipped(args):
    kb, qf, m, weakly = args
    import warnings

    from parser.Wrappers import parse_belief_base, parse_queries

    with warnings.catch_warnings():
        warnings.simplefilter("ignore")
        bb = parse_belief_base(kb)
        qs = parse_queries(qf)
    names = list(bb.signature)
    base = [(k, (core.f_from_pysmt(c.consequence, names), core.f_from_pysmt(c.antecedence, names))) for k, c in bb.conditionals.items()]
    queries = []
    for k, c in list(qs.conditionals.items())[:m]:
        try:
            queries.append((k, (core.f_from_pysmt(c.consequence, names), core.f_from_pysmt(c.antecedence, names))))
        except ValueError:
            continue
    case = mk_case(len(names), len(names), base, queries, weakly)
    case["_info"] = classify(case)
    case["_file"] = kb
    return case


def shipped_cases(ctx, count, atoms=(6, 8), weakly_modes=(False,), m=6, want=("ok",)):
    """knowledge bases and query files shipped in examples/random_large (deeply nested formulas over 6-12 atoms, parsed by
    the real parser), as cases for the answer-level comparison with the driver"""
    import glob
    import os

    from check import pmap

    ex = os.path.join(core.REPO, "examples", "random_large")
    files = []
    for kb in sorted(glob.glob(os.path.join(ex, "randomTest_*.cl"))):
        base = os.path.basename(kb)[len("randomTest_"):-3]
        a = int(base.split("_")[0])
        q = os.path.join(ex, f"randomQueries_{base}.clq")
        if atoms[0] <= a <= atoms[1] and os.path.exists(q):
            files.append((kb, q))
    ctx.rng.shuffle(files)
    jobs = [(kb, q, m, ctx.rng.choice(list(weakly_modes))) for kb, q in files[:count * 4]]
    out = []
    for c in pmap(_load_shipped, jobs, getattr(ctx, "procs", 4)):
        if c["_info"]["status"] in want and c["queries"]:
            out.append(c)
        if len(out) >= count:
            break
    return out


def canonical_formulas(n=2):
    """one small formula per truth table over n atoms (16 for n = 2), incl. the constants"""
    import itertools

    W = core.all_worlds(n)
    atoms = [("a", i) for i in range(n)]
    lits = atoms + [("!", a) for a in atoms]
    cands = [("T",), ("F",)] + lits
    cands += [(op, x, y) for op in "&|" for x in lits for y in lits if x != y]
    cands += [("|", ("&", x, y), ("&", ("!", x), ("!", y))) for x in atoms for y in atoms if x != y]
    cands += [("|", ("&", x, ("!", y)), ("&", ("!", x), y)) for x in atoms for y in atoms if x != y]
    seen = {}
    for f in cands:
        tt = tuple(core.f_eval(f, w) for w in W)
        if tt not in seen:
            seen[tt] = f
    return list(seen.values())


def exhaustive_cases(ctx, weakly_modes, pool_size=36, want=("ok",)):
    """all one-conditional bases over the canonical formulas on 2 atoms x all queries, and all two-conditional bases
    over a pool of `pool_size` conditionals x all queries (queries in chunks of 64 per case)"""
    fs = canonical_formulas(2)
    conds = [(b, a) for b in fs for a in fs]
    pool = ctx.rng.sample(conds, pool_size)
    cases = []
    bases = [[c] for c in conds] + [[x, y] for i, x in enumerate(pool) for y in pool[i:]]
    for weakly in weakly_modes:
        for base in bases:
            probe = mk_case(2, 2, list(enumerate(base, 1)), [], weakly)
            info = classify(probe)
            if info["status"] not in want:
                continue
            for off in range(0, len(conds), 64):
                c = mk_case(2, 2, list(enumerate(base, 1)), list(enumerate(conds[off:off + 64], 1)), weakly)
                c["_info"] = info
                cases.append(c)
    return cases


def run_cases(ctx, cases, configs, nontrivial):
    """evaluate, compare, shrink; `nontrivial(case, info, qkinds, rows)` -> bool"""
    clean = [{k: v for k, v in c.items() if not k.startswith("_")} for c in cases]
    impls = check_pmap(ctx, [(c, configs) for c in clean])
    resps = core.driver_batch([driver_line(c) for c in clean])
    seen = set()
    for c0, c, impl, resp in zip(cases, clean, impls, resps):
        model = decode(resp, len(c["queries"]))
        ctx.evaluations += len(c["queries"]) * len(configs)
        info = c0.get("_info") or classify(c)
        ctx.bump(f"atoms={c['n']}")
        ctx.bump(f"conds={len(c['base'])}")
        ctx.bump(f"layers={info['layers']}")
        if c["weakly"]:
            ctx.bump(f"inf_layer={'nonempty' if info['inf'] else 'empty'}")
        ctx.bump(f"status={info['status']}")
        W = core.all_worlds(c["n"])
        if model[0] == "ok":
            for q, row in zip(c["queries"], model[1]):
                qk = query_kind(c, q, W)
                ctx.bump(f"query={qk}")
                if qk == "contingent" and info.get("fin") is not None:
                    conds_ = [(b, a) for _, b, a in c["base"]]
                    Wf = [w for w in W if not any(core.c_fal(conds_[i], w) for i in info["infl"])]
                    t = top_ties(c, info["fin"], q, Wf)
                    ctx.bump(f"top_layer_ties={min(t, 3)}{'+' if t >= 3 else ''}")
                    row = row + (t,)
                if row[0] != row[1] or row[1] != row[2] or row[2] != row[3]:
                    ctx.bump("operators_disagree(p,z,w,lex)=" + "".join("T" if b else "F" for b in row[:4]))
                for (system, _pm) in configs:
                    ctx.bump(f"{system}:{'T' if row[SYS_COL[system]] else 'F'}")
                if nontrivial(c, info, qk, row):
                    key = json.dumps([c["base"], q[1:], c["weakly"]], sort_keys=True)
                    if key not in seen:
                        seen.add(key)
                        ctx.nontrivial.add(hash(key))
        else:
            ctx.bump(f"refusal={model[0]}")
            if nontrivial(c, info, "refusal", None):
                ctx.nontrivial.add(hash(case_key(c)))
        ctx.sample({"base": [core.cond_text((b, a), core.names_for(c["n"])) for _, b, a in c["base"]],
                    "queries": [core.cond_text((b, a), core.names_for(c["n"])) for _, b, a in c["queries"]][:3],
                    "weakly": c["weakly"], "model": resp[:60]})
        fs = compare(c, impl, model, configs)
        for f in fs:
            ctx.fail(f, shrink)


def check_pmap(ctx, items):
    from check import pmap

    return pmap(impl_eval, items, getattr(ctx, "procs", 4))


def load_corpus(prop):
    import os

    path = os.path.join(core.VERIF, "corpus", f"{prop}.jsonl")
    out = []
    if os.path.exists(path):
        for line in open(path):
            line = line.strip()
            if line and not line.startswith("#"):
                out.append(json.loads(line))
    return out
