"""C09 direct inference, System P postulates, consistency preservation, rational monotony (Z, lex)."""
from __future__ import annotations

import json

import core
from props import answers, rel

THEOREMS = ["InfOCF.C09_systemP", "InfOCF.C09_supraclassical", "InfOCF.C09_RM_Z", "InfOCF.C09_RM_Lex",
            "InfOCF.C09_consistency_preservation", "InfOCF.C09_direct", "InfOCF.C09_direct_P", "InfOCF.C09_direct_C", "InfOCF.C09_direct_ext", "InfOCF.C09_systemP_P", "InfOCF.C09_P_is_intersection", "InfOCF.C09_systemP_C", "InfOCF.C09_C_is_intersection", "InfOCF.C09_systemP_C_full", "InfOCF.C09_C_is_intersection_full", "InfOCF.C09_Pext_is_intersection", "InfOCF.C09_systemP_Pext", "InfOCF.interEnt_systemP", "InfOCF.wless_irrefl",
            "InfOCF.wless_trans", "InfOCF.RM_modular", "InfOCF.prefEnt_iff_Ent", "InfOCF.REF", "InfOCF.LLE", "InfOCF.RW",
            "InfOCF.AND", "InfOCF.OR", "InfOCF.CUT", "InfOCF.CM", "InfOCF.exists_min_below"]
RULE = ("random and tie-rich bases (both modes) x postulate instances built from the base's own antecedents/consequents and random "
        "formulas (premises and conclusion asked in one batch) x all operators and back-ends (c-inference strict only); "
        "non-trivial = all premises answered True (or, for RM, the negative premise False); distinct by (base, instance, operator)")
ASSUMPTIONS = ["System P is proved for Z, W, lex in both modes (C09_systemP), for p-entailment in strict and in extended mode (C09_systemP_P, "
               "C09_systemP_Pext) and for skeptical c-inference (C09_systemP_C_full), the latter three as intersections of preferential "
               "relations; direct inference is proved for all operators in both modes (C09_direct, C09_direct_P, C09_direct_C, C09_direct_ext); "
               "c-inference at the level of its specification specC (tied to the code by C05)"]

RANKED = ("system-z", "lex_inf")


def instances(rng, case_conds, n, hints=(), hintq=()):
    """returns (queries list of (cons, ante), instances list of dict(name, prem=[(qi, want)], concl=qi, guard=None|formula))"""
    qs = []
    idx = {}

    def q(cons, ante):
        key = json.dumps([cons, ante])
        if key not in idx:
            idx[key] = len(qs)
            qs.append((cons, ante))
        return idx[key]

    inst = []
    for ci, c in enumerate(case_conds):
        inst.append({"name": "DI", "prem": [], "concl": q(c[0], c[1])})

    def pick():
        r = rng.random()
        if hints and r > 0.8:
            return rng.choice(hints)
        if r < 0.45 and case_conds:
            c = rng.choice(case_conds)
            return c[1] if rng.random() < 0.6 else c[0]
        return core.gen_formula(rng, n, 2, 0.03)

    # instances built from the structured queries of the case's generator (antecedents that are disjunctions of worlds): Or over the
    # two halves of the antecedent, cautious monotony / Cut / And between queries
    hq = list(hintq)[:5]
    for j, (C, A) in enumerate(hq):
        if isinstance(A, tuple) and A[0] == "|":
            A1, A2 = A[1], A[2]
            inst.append({"name": "OR", "prem": [(q(C, A1), True), (q(C, A2), True)], "concl": q(C, A)})
            inst.append({"name": "CM", "prem": [(q(C, A), True), (q(A2, A), True)], "concl": q(C, ("&", A, A2))})
            inst.append({"name": "CUT", "prem": [(q(A2, A), True), (q(C, ("&", A, A2)), True)], "concl": q(C, A)})
            inst.append({"name": "RM", "prem": [(q(C, A), True), (q(("!", A2), A), False)], "concl": q(C, ("&", A, A2)), "ranked": True})
        # the antecedent as a list of disjuncts (worlds): Cut / cautious monotony with "not this world", Or over mixed halves
        ds = []
        stack = [A]
        while stack:
            x = stack.pop()
            if isinstance(x, tuple) and x[0] == "|":
                stack += [x[2], x[1]]
            else:
                ds.append(x)
        if 2 <= len(ds) <= 5:
            for d in ds[:3]:
                nd = ("!", d)
                inst.append({"name": "CUT", "prem": [(q(nd, A), True), (q(C, ("&", A, nd)), True)], "concl": q(C, A)})
                inst.append({"name": "CM", "prem": [(q(C, A), True), (q(nd, A), True)], "concl": q(C, ("&", A, nd))})
            if len(ds) >= 3:
                h1 = ("|", ds[0], ds[-1])
                h2 = ds[1]
                for d in ds[2:]:
                    h2 = ("|", h2, d)
                inst.append({"name": "OR", "prem": [(q(C, h1), True), (q(C, h2), True)], "concl": q(C, ("|", h1, h2))})
        inst.append({"name": "RW", "prem": [(q(C, A), True)], "concl": q(("|", C, ("!", A)), A)})
        inst.append({"name": "LLE", "prem": [(q(C, A), True)], "concl": q(C, ("!", ("!", A)))})
        if j + 1 < len(hq):
            C2, A_2 = hq[j + 1]
            inst.append({"name": "OR", "prem": [(q(C, A), True), (q(C, A_2), True)], "concl": q(C, ("|", A, A_2))})
            inst.append({"name": "AND", "prem": [(q(C, A), True), (q(C2, A), True)], "concl": q(("&", C, C2), A)})
    for _ in range(6):
        A, B, C = pick(), pick(), pick()
        if case_conds and rng.random() < 0.5:
            c = rng.choice(case_conds)
            A, B = c[1], c[0]
        inst.append({"name": "REF", "prem": [], "concl": q(A, A)})
        inst.append({"name": "SUPRA", "prem": [], "concl": q(("|", A, B), A)})
        A2 = ("!", ("!", A)) if rng.random() < 0.5 else ("&", A, ("|", A, C))
        inst.append({"name": "LLE", "prem": [(q(B, A), True)], "concl": q(B, A2)})
        inst.append({"name": "RW", "prem": [(q(B, A), True)], "concl": q(("|", B, C), A)})
        inst.append({"name": "AND", "prem": [(q(B, A), True), (q(C, A), True)], "concl": q(("&", B, C), A)})
        inst.append({"name": "OR", "prem": [(q(C, A), True), (q(C, B), True)], "concl": q(C, ("|", A, B))})
        inst.append({"name": "CM", "prem": [(q(B, A), True), (q(C, A), True)], "concl": q(C, ("&", A, B))})
        inst.append({"name": "CUT", "prem": [(q(B, A), True), (q(C, ("&", A, B)), True)], "concl": q(C, A)})
        inst.append({"name": "RM", "prem": [(q(C, A), True), (q(("!", B), A), False)], "concl": q(C, ("&", A, B)), "ranked": True})
        inst.append({"name": "CP", "prem": [(q(("F",), A), True)], "concl": None, "guard": A})
        # And with a contradictory pair: B and not-B both inferred from A makes A inconsistent
        inst.append({"name": "AND", "prem": [(q(B, A), True), (q(("!", B), A), True)], "concl": q(("F",), A)})
    return qs, inst


def check_case(case, res, inst, configs):
    fails = []
    live = 0
    W = core.all_worlds(case["n"])
    for cfg in configs:
        r = res.get(rel.cfg_name(cfg))
        if not r or r[0] != "ok":
            continue
        ans = r[1]
        for it in inst:
            if it.get("ranked") and cfg[0] not in RANKED:
                continue
            if it["name"] == "CP" and case["weakly"]:
                continue
            if not all(ans[i] == want for i, want in it["prem"]):
                continue
            if it["prem"]:
                live += 1
            bad = False
            if it["name"] == "CP":
                bad = any(core.f_eval(it["guard"], w) for w in W)
            else:
                bad = not ans[it["concl"]]
            if bad:
                qsel = sorted({i for i, _ in it["prem"]} | ({it["concl"]} if it["concl"] is not None else set()))
                c = dict(case, queries=[case["queries"][i] for i in qsel], postulate=it["name"], system=cfg[0], pmaxsat=cfg[1],
                         roles={"premises": [[qsel.index(i), w] for i, w in it["prem"]],
                                "conclusion": None if it["concl"] is None else qsel.index(it["concl"])})
                fails.append({"case": c, "impl": [ans[i] for i in qsel], "spec": f"{it['name']} must hold",
                              "signature": f"{rel.cfg_name(cfg)} weakly={case['weakly']}: postulate {it['name']} violated",
                              "what": "postulate violated on the implementation's answers", "theorem": "InfOCF.C09_systemP"})
    return fails, live


def recheck(case):
    cfg = (case["system"], case["pmaxsat"])
    base_case = {k: case[k] for k in ("n", "sig", "weakly", "base", "queries", "inference_kwargs") if k in case}
    res = rel.eval_small((base_case, [cfg]))
    r = res[rel.cfg_name(cfg)]
    if r[0] != "ok":
        return None
    ans = r[1]
    roles = case["roles"]
    if not all(ans[i] == w for i, w in roles["premises"]):
        return None
    if case["postulate"] == "CP":
        W = core.all_worlds(case["n"])
        A = case["queries"][roles["premises"][0][0]][2]
        bad = any(core.f_eval(A, w) for w in W)
    else:
        bad = not ans[roles["conclusion"]]
    if not bad:
        return None
    return {"case": case, "impl": ans, "spec": f"{case['postulate']} must hold",
            "signature": f"{rel.cfg_name(cfg)} weakly={case['weakly']}: postulate {case['postulate']} violated",
            "what": "postulate violated on the implementation's answers", "theorem": "InfOCF.C09_systemP"}


def shrink(fail, budget=40):
    sig = fail["signature"]
    best = fail
    progress = True
    while progress and budget > 0:
        progress = False
        case = best["case"]
        for i in range(len(case["base"])):
            if len(case["base"]) <= 1 or budget <= 0:
                break
            budget -= 1
            try:
                f = recheck(dict(case, base=case["base"][:i] + case["base"][i + 1:]))
            except Exception:  # noqa: BLE001
                f = None
            if f and f["signature"] == sig:
                best, progress = f, True
                break
    return best


def run(ctx):
    quick = ctx.tier == "quick"
    rng = ctx.rng
    raw = answers.load_corpus("C09")
    raw += answers.gen_cases(ctx, 90 if quick else 2000, (2, 5), (1, 6), [False], ties=0.4, q_per=0, consts=0.1)
    raw += answers.gen_cases(ctx, 45 if quick else 1000, (2, 5), (1, 6), [True], ties=0.3, q_per=0, consts=0.12)
    jobs, metas = [], []
    for c in raw:
        hintq = c.get("_hintq") or []
        c = {k: v for k, v in c.items() if not k.startswith("_")}
        conds = [(b, a) for _, b, a in c["base"]]
        if not c.get("queries_fixed"):
            hints = [a for _, _b, a in c.get("queries", [])] + [b for _, b, _a in c.get("queries", [])]
            qs, inst = instances(rng, conds, c["n"], hints, hintq)
            c["queries"] = [[i + 1, b, a] for i, (b, a) in enumerate(qs)]
        else:
            inst = c["inst"]
        cfgs = rel.EXT_CFG if c["weakly"] else rel.STRICT_CFG
        if len(jobs) % 9 == 4:
            # the same postulates under parallel evaluation with a time budget that never fires
            c["inference_kwargs"] = rng.choice([{"multi_inference": True, "inference_timeout": 600}, {"multi_inference": True, "total_timeout": 900},
                                                {"multi_inference": True}])
        elif len(jobs) % 3 == 1:
            # the base's own conditionals are asked with the base's own Conditional objects (direct inference through Queries(bb))
            c["inference_kwargs"] = {"_own": True}
        jobs.append((c, cfgs))
        metas.append(inst)
    results = rel.pmap(ctx, rel.eval_small, jobs)
    for (c, cfgs), inst, res in zip(jobs, metas, results):
        fs, live = check_case(c, res, inst, cfgs)
        ctx.evaluations += len(inst) * len(cfgs)
        ctx.bump(f"mode={'ext' if c['weakly'] else 'strict'}")
        if c.get("inference_kwargs"):
            ctx.bump("parallel_evaluation_with_budget")
        ctx.bump("instances_with_true_premises", live)
        for k, r in res.items():
            if r[0] == "err":
                ctx.bump(f"error:{k}:{r[1]}")
        # distinct non-trivial instances
        for cfg in cfgs:
            r = res.get(rel.cfg_name(cfg))
            if not r or r[0] != "ok":
                continue
            for j, it in enumerate(inst):
                if it["prem"] and all(r[1][i] == w for i, w in it["prem"]):
                    ctx.nontrivial.add(hash((json.dumps(c["base"]), c["weakly"], j, cfg)))
                    ctx.bump(f"live:{it['name']}")
        names = core.names_for(c["n"])
        ctx.sample({"base": [core.cond_text((b, a), names) for _, b, a in c["base"]], "weakly": c["weakly"],
                    "queries": [core.cond_text((b, a), names) for _, b, a in c["queries"]][:6]})
        for f in fs:
            ctx.fail(f, shrink)
