"""C15 CNF encodings are faithful; correction-set enumeration is exact."""
from __future__ import annotations

import json
import warnings

import core
from props import answers

THEOREMS = ["InfOCF.C15_cnf_check_sound", "InfOCF.C15_falsified_violated", "InfOCF.C15_getViolated_exact", "InfOCF.C15_loop_exact",
            "InfOCF.removeSupersets_spec", "InfOCF.enumLoop_spec", "InfOCF.minimal_of_enum", "InfOCF.violatedScan_mem"]
RULE = ("(a) the real integer clause lists of belief_base_to_cnf / query_to_cnf for random conditionals (every connective nesting up to depth 4, "
        "constants, repeated atoms, tautologies, contradictions) go through the Lean checker: faithful for verification, falsification and "
        "non-falsification, auxiliaries existentially quantified; (b) the real minimal_correction_subsets on the hard/soft/ignore combinations "
        "System W, lexicographic inference and c-inference build (hard = query CNF plus fixed ties, soft = one layer or all other conditionals) "
        "under several SAT engines vs the inclusion-minimal falsification sets computed by the driver; "
        "non-trivial = formula not a literal (a) / family with >= 2 minimal sets or hard part unsatisfiable (b); distinct by input")
ASSUMPTIONS = ["z3's tseitin-cnf tactic is not modelled: its output is validated per instance (<= 14 auxiliaries, else skipped and counted)",
               "that an RC2 optimum model violates clauses only of conditionals its world falsifies is observed through (b), not proved"]

MAX_AUX = 14


def cnf_case_eval(case):
    """returns list of (kind, key, clauses-with-renumbered-vars, n_aux) or error"""
    import z3
    from inference.inference_manager import create_epistemic_state
    from inference.tseitin_transformation import TseitinTransformation

    names = core.names_for(case["n"])
    out = {"items": [], "err": None}
    try:
        bb = core.make_bb(names, answers.keyed(case["base"]))
        es = create_epistemic_state(bb, "system-w", "z3", "rc2", False)
        tt = TseitinTransformation(es)
        with warnings.catch_warnings():
            warnings.simplefilter("ignore")
            tt.belief_base_to_cnf(True, True, True)
            qc = None
            if case.get("query"):
                from inference.conditional import Conditional
                k, b, a = case["query"]
                import zlib
                if zlib.crc32(json.dumps(case["query"]).encode()) % 2 == 0:
                    # the same transformation object has encoded another query before, carrying the same free-text label
                    tt.query_to_cnf(Conditional(core.f_pysmt(("!", b), names), core.f_pysmt(a, names), "q"))
                    tt.query_to_cnf(Conditional(core.f_pysmt(a, names), core.f_pysmt(("|", a, b), names), "q"))
                qc = tt.query_to_cnf(Conditional(core.f_pysmt(b, names), core.f_pysmt(a, names), "q"))
        pool = es["pool"]

        def var_index(v, auxmap):
            obj = pool.obj(v)
            name = None
            try:
                if obj is not None and z3.is_const(obj) and obj.decl().kind() == z3.Z3_OP_UNINTERPRETED:
                    name = obj.decl().name()
            except Exception:  # noqa: BLE001
                name = None
            if name in names:
                return names.index(name) + 1
            if v not in auxmap:
                auxmap[v] = len(auxmap)
            return case["n"] + auxmap[v] + 1

        def renumber(cnf):
            auxmap = {}
            res = [[(1 if lit > 0 else -1) * var_index(abs(lit), auxmap) for lit in cl] for cl in cnf]
            return res, len(auxmap)

        for kind, d in (("v", es["v_cnf_dict"]), ("f", es["f_cnf_dict"]), ("nf", es["nf_cnf_dict"])):
            for key, cnf in d.items():
                cl, naux = renumber(cnf)
                out["items"].append((kind, key, cl, naux))
        if qc is not None:
            for kind, cnf in (("v", qc[0]), ("f", qc[1])):
                cl, naux = renumber(cnf)
                out["items"].append((kind, "q", cl, naux))
    except Exception as e:  # noqa: BLE001
        out["err"] = f"{type(e).__name__}: {e}"[:300]
    return out


def mcs_case_eval(case):
    """real minimal_correction_subsets on an operator-style hard/soft combination"""
    from pysat.formula import WCNF
    from inference.conditional import Conditional
    from inference.inference_manager import create_epistemic_state
    from inference.optimizer import create_optimizer
    from inference.tseitin_transformation import TseitinTransformation

    names = core.names_for(case["n"])
    try:
        bb = core.make_bb(names, answers.keyed(case["base"]))
        es = create_epistemic_state(bb, "system-w", "z3", case["engine"], False)
        tt = TseitinTransformation(es)
        with warnings.catch_warnings():
            warnings.simplefilter("ignore")
            tt.belief_base_to_cnf(True, True, True)
            wcnf = WCNF()
            style = case["style"]
            if style == "query":
                k, b, a = case["query"]
                qc = tt.query_to_cnf(Conditional(core.f_pysmt(b, names), core.f_pysmt(a, names), "q"))
                for c in qc[0 if case["side"] == "v" else 1]:
                    wcnf.append(c)
            else:  # leading conditional (c-inference compile_constraint)
                d = es["v_cnf_dict"] if case["side"] == "v" else es["f_cnf_dict"]
                for c in d[case["lead"]]:
                    wcnf.append(c)
            for k in case["fix_f"]:
                for c in es["f_cnf_dict"][k]:
                    wcnf.append(c)
            for k in case["fix_nf"]:
                for c in es["nf_cnf_dict"][k]:
                    wcnf.append(c)
            for k in case["soft"]:
                for c in es["nf_cnf_dict"][k]:
                    wcnf.append(c, weight=1)
            opt = create_optimizer(es)
            res = opt.minimal_correction_subsets(wcnf, ignore=list(case["ignore"]))
        return ("ok", [sorted(x) for x in res])
    except Exception as e:  # noqa: BLE001
        return ("err", f"{type(e).__name__}: {e}"[:300])


def hard_formula(case):
    f = ("T",)
    conds = {k: (b, a) for k, b, a in case["base"]}

    def conj(x, y):
        return y if x == ("T",) else ("&", x, y)

    if case["style"] == "query":
        _, b, a = case["query"]
    else:
        b, a = conds[case["lead"]]
    f = conj(f, ("&", a, b) if case["side"] == "v" else ("&", a, ("!", b)))
    for k in case["fix_f"]:
        b, a = conds[k]
        f = conj(f, ("&", a, ("!", b)))
    for k in case["fix_nf"]:
        b, a = conds[k]
        f = conj(f, ("|", ("!", a), b))
    return f


def mcs_driver_line(case):
    soft = [(k, (b, a)) for k, b, a in case["base"] if k in case["soft"]]
    return f"mcs {case['n']} {core.f_prefix(hard_formula(case))} {core.conds_line(soft)}"


def parse_sets(resp):
    if resp == "":
        return []
    return [sorted(int(x) for x in s.split(",")) if s else [] for s in resp.split(";")[:-1]]


def mcs_compare(case, impl, want):
    if impl[0] != "ok":
        return {"case": case, "impl": impl[1], "spec": want, "signature": f"minimal_correction_subsets raised {impl[1].split(':')[0]}",
                "what": "enumeration raised"}
    got = impl[1]
    gs = sorted(map(tuple, got))
    ws = sorted(map(tuple, want))
    if gs != ws:
        if len(set(gs)) != len(gs):
            kind = "a set is returned more than once"
        elif set(gs) - set(ws) and not (set(ws) - set(gs)):
            kind = "returns a set that is not an inclusion-minimal falsification set"
        elif set(ws) - set(gs) and not (set(gs) - set(ws)):
            kind = "misses an inclusion-minimal falsification set"
        else:
            kind = "returns a different family"
        return {"case": case, "impl": got, "spec": want, "signature": f"minimal_correction_subsets ({case['style']} style): {kind}",
                "what": kind, "theorem": "InfOCF.C15_loop_exact"}
    return None


def recheck(case):
    if case.get("kind") == "rmsup":
        from inference.optimizer import remove_supersets

        fam = case["family"]
        line = f"rmsup {len(fam)} " + " ".join(f"{len(x)} " + " ".join(map(str, x)) if x else "0" for x in fam)
        want = sorted(map(tuple, parse_sets(core.driver_batch([line])[0])))
        got = sorted(tuple(sorted(x)) for x in remove_supersets([set(x) for x in fam]))
        if got != want:
            return {"case": case, "impl": got, "spec": want,
                    "signature": "remove_supersets does not return exactly the inclusion-minimal sets, each once",
                    "what": "remove_supersets wrong", "theorem": "InfOCF.removeSupersets_spec"}
        return None
    if case.get("kind") == "cnf":
        res = cnf_case_eval(case)
        return cnf_failures(case, res, first_only=True)
    impl = mcs_case_eval(case)
    want = parse_sets(core.driver_batch([mcs_driver_line(case)])[0])
    return mcs_compare(case, impl, want)


def cnf_failures(case, res, first_only=False, stats=None):
    fails = []
    if res["err"]:
        f = {"case": case, "impl": res["err"], "spec": "clause lists", "signature": "CNF translation raised " + res["err"].split(":")[0],
             "what": "translation raised"}
        return f if first_only else [f]
    conds = {k: (b, a) for k, b, a in case["base"]}
    if case.get("query"):
        conds["q"] = (case["query"][1], case["query"][2])
    lines, metas = [], []
    for kind, key, cl, naux in res["items"]:
        if naux > MAX_AUX:
            if stats is not None:
                stats("cnf:skipped_too_many_aux")
            continue
        b, a = conds[key]
        line = f"cnf {case['n']} {naux} {kind} {core.cond_prefix(0, (b, a))} {len(cl)} " + " ".join(
            f"{len(c)} " + " ".join(str(x) for x in c) if c else "0" for c in cl)
        lines.append(line)
        metas.append((kind, key, cl, naux))
    resp = core.driver_batch(lines)
    for (kind, key, cl, naux), r in zip(metas, resp):
        if stats is not None:
            stats(f"cnf:aux={min(naux, 6)}{'+' if naux >= 6 else ''}")
            stats(f"cnf:clauses={min(len(cl), 8)}{'+' if len(cl) >= 8 else ''}")
        if r != "ok":
            sub = dict(case, base=[x for x in case["base"] if x[0] == key] or case["base"][:1], kind="cnf")
            if key == "q":
                sub["base"] = case["base"][:1]
            else:
                sub["query"] = None
            f = {"case": sub, "impl": {"kind": kind, "key": key, "clauses": cl, "aux": naux}, "spec": "faithful encoding",
                 "signature": f"CNF of {'verification' if kind == 'v' else 'falsification' if kind == 'f' else 'non-falsification'} is not faithful",
                 "what": "clause set is satisfiable with an assignment that should be excluded, or vice versa", "theorem": "InfOCF.C15_cnf_check_sound"}
            if first_only:
                return f
            fails.append(f)
    return None if first_only else fails


def gen_mcs_cases(rng, base_case, engines):
    """operator-style combinations on one base (given with its partition info)"""
    out = []
    keys = [k for k, _, _ in base_case["base"]]
    n = base_case["n"]
    info = answers.classify(dict(base_case, weakly=False))
    part = [[keys[i] for i in L] for L in info["fin"]] if info.get("fin") else [keys]
    for q in base_case["queries"][:3]:
        for side in ("v", "f"):
            # System W / lex style: one layer soft, others ignored, optional tie fixing of a higher layer
            li = rng.randrange(len(part))
            layer = part[li]
            fix_f, fix_nf = [], []
            if li + 1 < len(part) and rng.random() < 0.6:
                upper = part[li + 1]
                W = core.all_worlds(n)
                conds = {k: (b, a) for k, b, a in base_case["base"]}
                cq = (q[1], q[2])
                cands = [w for w in W if (core.c_ver(cq, w) if side == "v" else core.c_fal(cq, w))]
                if cands:
                    w = rng.choice(cands)
                    fix_f = [k for k in upper if core.c_fal(conds[k], w)]
                    fix_nf = [k for k in upper if k not in fix_f]
            out.append(dict(n=n, base=base_case["base"], style="query", query=q, side=side, soft=layer,
                            ignore=[k for k in keys if k not in layer], fix_f=fix_f, fix_nf=fix_nf, engine=rng.choice(engines)))
    # c-inference style
    for k in rng.sample(keys, min(2, len(keys))):
        for side in ("v", "f"):
            out.append(dict(n=n, base=base_case["base"], style="lead", lead=k, side=side, soft=[x for x in keys if x != k],
                            ignore=[k], fix_f=[], fix_nf=[], engine=rng.choice(engines)))
    # query against the whole base (compile_and_encode_query)
    for q in base_case["queries"][3:5]:
        out.append(dict(n=n, base=base_case["base"], style="query", query=q, side=rng.choice("vf"), soft=keys, ignore=[],
                        fix_f=[], fix_nf=[], engine=rng.choice(engines)))
    return out


def run(ctx):
    from check import pmap
    from props.c11 import usable_engines

    quick = ctx.tier == "quick"
    rng = ctx.rng
    engines, _bad = usable_engines()
    engines = ["rc2"] + [f"rc2-{e}" for e in engines]
    # ---- (a) CNF faithfulness --------------------------------------------------------
    cnf_cases = [dict(c, kind="cnf") for c in answers.load_corpus("C15") if c.get("kind") == "cnf"]
    for _ in range(150 if quick else 4000):
        n = rng.randint(1, 4)
        depth = rng.choice([1, 2, 3, 3, 4])
        conds = [core.gen_cond(rng, n, depth, consts=0.15) for _ in range(rng.randint(1, 3))]
        if rng.random() < 0.2:
            a = core.gen_formula(rng, n, 2, 0.0)
            conds.append((rng.choice([("|", a, ("!", a)), ("&", a, ("!", a)), ("T",), ("F",)]), core.gen_formula(rng, n, 2, 0.1)))
        q = core.gen_cond(rng, n, depth, consts=0.15)
        cnf_cases.append({"kind": "cnf", "n": n, "base": [[i + 1, c[0], c[1]] for i, c in enumerate(conds)], "query": [0, q[0], q[1]]})
    results = pmap(cnf_case_eval, cnf_cases, ctx.procs)
    for case, res in zip(cnf_cases, results):
        fs = cnf_failures(case, res, stats=ctx.bump)
        ctx.evaluations += len(res["items"])
        for k, b, a in case["base"] + ([case["query"]] if case.get("query") else []):
            for f in (b, a):
                if core.f_depth(f) >= 1:
                    ctx.nontrivial.add(hash(json.dumps([b, a])))
                if f[0] in ("T", "F"):
                    ctx.bump("cnf:constant_formula")
        ctx.failures.extend(fs)
    names = core.names_for(4)
    ctx.sample({"cnf_case": [core.cond_text((b, a), names) for _, b, a in cnf_cases[-1]["base"]],
                "clauses_of_first": results[-1]["items"][:1]})
    # ---- (a') remove_supersets on arbitrary families in arbitrary order -------------------------
    from inference.optimizer import remove_supersets

    fams = []
    for _ in range(300 if quick else 6000):
        m = rng.randint(0, 6)
        fams.append([sorted(rng.sample(range(1, 7), rng.randint(0, 4))) for _ in range(m)])
    lines = [f"rmsup {len(f)} " + " ".join(f"{len(x)} " + " ".join(map(str, x)) if x else "0" for x in f) for f in fams]
    for fam, resp in zip(fams, core.driver_batch(lines)):
        ctx.evaluations += 1
        want = sorted(map(tuple, parse_sets(resp)))
        try:
            got = sorted(tuple(sorted(x)) for x in remove_supersets([set(x) for x in fam]))
        except Exception as e:  # noqa: BLE001
            got = f"{type(e).__name__}"
        if any(set(a) < set(b) for a in fam for b in fam):
            ctx.nontrivial.add(hash(json.dumps(fam)))
            ctx.bump("rmsup:family_with_proper_superset")
        if got != want:
            ctx.failures.append({"case": {"kind": "rmsup", "family": fam}, "impl": got, "spec": want,
                                 "signature": "remove_supersets does not return exactly the inclusion-minimal sets, each once",
                                 "what": "remove_supersets wrong", "theorem": "InfOCF.removeSupersets_spec"})
    # ---- (b) enumeration ----------------------------------------------------------------
    bases = answers.gen_cases(ctx, 60 if quick else 1500, (2, 5), (2, 7), [False], ties=0.5, q_per=5, consts=0.1, rekey=0.3)
    # bases whose conditionals have multi-clause non-falsification CNFs (conjunctive consequents), where the number of
    # violated soft clauses and the number of falsified conditionals disagree
    for _ in range(60 if quick else 1500):
        n = rng.randint(3, 5)
        conds = []
        for _j in range(rng.randint(2, 5)):
            lits = [("a", i) if rng.random() < 0.6 else ("!", ("a", i)) for i in rng.sample(range(n), rng.randint(1, 3))]
            if rng.random() < 0.4:
                lits.append(("|", ("a", rng.randrange(n)), ("!", ("a", rng.randrange(n)))) if rng.random() < 0.3 else core.gen_formula(rng, n, 1, 0.0))
            cons = lits[0]
            for l in lits[1:]:
                cons = ("&", cons, l)
            conds.append((cons, core.gen_formula(rng, n, 1, 0.0)))
        qs = [core.gen_cond(rng, n, 2, 0.0) for _q in range(5)]
        c = answers.mk_case(n, n, list(enumerate(conds, 1)), list(enumerate(qs, 1)), False)
        if answers.classify(c)["status"] == "ok":
            bases.append(c)
            ctx.bump("mcs:multi_clause_base")
    mcs_cases = [c for c in answers.load_corpus("C15") if c.get("style")]
    for b in bases:
        b = {k: v for k, v in b.items() if not k.startswith("_")}
        if rng.random() < 0.3:
            # keys as in `dict(enumerate(conds))`: starting at 0
            b["base"] = [[i, x, a] for i, (_, x, a) in enumerate(b["base"])]
            ctx.bump("mcs:keys_from_0")
        mcs_cases += gen_mcs_cases(rng, b, engines)
    def engine_died(case):
        # a SAT engine of the installed pysat that kills the interpreter is not a usable engine (third-party native code)
        ctx.bump(f"mcs:native_crash:{case['engine']}")
        return ("crash", None)
    impls = pmap(mcs_case_eval, mcs_cases, ctx.procs, engine_died)
    wants = [parse_sets(r) for r in core.driver_batch([mcs_driver_line(c) for c in mcs_cases])]
    for case, impl, want in zip(mcs_cases, impls, wants):
        ctx.evaluations += 1
        ctx.bump(f"mcs:style={case['style']}")
        ctx.bump(f"mcs:family_size={min(len(want), 4)}{'+' if len(want) >= 4 else ''}")
        ctx.bump(f"mcs:engine={case['engine']}")
        if case["fix_f"] or case["fix_nf"]:
            ctx.bump("mcs:with_fixed_tie")
        if len(want) >= 2 or len(want) == 0:
            ctx.nontrivial.add(hash(json.dumps([case["base"], case.get("query"), case.get("lead"), case["side"], case["soft"], case["fix_f"]])))
        f = None if impl[0] == "crash" else mcs_compare(case, impl, want)
        if f:
            ctx.failures.append(f)
    ctx.sample({"mcs_case": {k: mcs_cases[-1][k] for k in ("style", "side", "soft", "ignore", "fix_f", "fix_nf", "engine")},
                "expected_family": wants[-1], "returned": impls[-1][1]})
