"""C17 the c-representation ranking object is a minimal model of the base; Pareto front enumeration."""
from __future__ import annotations

import json
import multiprocessing as mp
import warnings

import core
from props import answers
from props.c18 import lean_order_worlds

THEOREMS = ["InfOCF.C17_front_loop_exact", "InfOCF.C17_front_loop_total", "InfOCF.paretoLoop_inv", "InfOCF.C17_pareto_box", "InfOCF.C17_rank_is_cost", "InfOCF.C17_front_sound_complete", "InfOCF.C17_front_cert_sound", "InfOCF.C17_front_cert_vectors", "InfOCF.linRefute_sound", "InfOCF.C17_cinf_accepted",
            "InfOCF.isCRepB_iff", "InfOCF.mem_boxVectors", "InfOCF.C05_base_iff", "InfOCF.C18_accept_iff"]
RULE = ("random strongly consistent bases (1-4 atoms, 1-5 conditionals; unfalsifiable conditionals, single-conditional bases, ties): "
        "PreOCF.init_random_min_c_rep must construct; its impacts are checked by the driver (non-negative, c-representation, Pareto-minimal "
        "by the exact box test), its ranks against the sums of impacts, acceptance of the base's conditionals and of every query c-inference "
        "answers True; c_inference_pareto_front is run under a watchdog and compared with the driver's exact front inside the cube "
        "[0..max+1]^k; non-trivial = base with >= 2 conditionals of which one has a non-zero impact; distinct by base")
ASSUMPTIONS = ["front completeness is decided inside a cube one above the largest returned/found component; a Pareto-minimal vector outside "
               "it would be missed (none can exist below the cube's diagonal by the box argument, see C17_pareto_box)",
               "termination of the front enumeration is observed under a 60 s watchdog"]


def _front_worker(names, keyed, q):
    try:
        from inference.c_revision import c_inference_pareto_front

        with warnings.catch_warnings():
            warnings.simplefilter("ignore")
            bb = core.make_bb(names, keyed)
            q.put(("ok", [list(v) for v in c_inference_pareto_front(bb)]))
    except Exception as e:  # noqa: BLE001
        q.put(("err", f"{type(e).__name__}: {e}"[:200]))


def impl_eval(case):
    from inference.conditional import Conditional
    from inference.inference_manager import InferenceManager
    from inference.preocf import PreOCF

    names = core.names_for(case["n"])
    out = {}
    keyed = answers.keyed(case["base"])
    try:
        bb = core.make_bb(names, keyed)
        with warnings.catch_warnings():
            warnings.simplefilter("ignore")
            o = PreOCF.init_random_min_c_rep(bb)
            out["impacts"] = list(o.save_impacts())
            out["ranks"] = dict(o.compute_all_ranks())
            out["base_accept"] = [bool(o.conditional_acceptance(c)) for c in bb.conditionals.values()]
            out["q_accept"] = [bool(o.conditional_acceptance(Conditional(core.f_pysmt(b, names), core.f_pysmt(a, names), "q")))
                               for _, b, a in case["queries"]]
            man = InferenceManager(bb, "c-inference")
            df = man.inference(core.make_queries(names, answers.keyed(case["queries"])))
            out["cinf"] = [bool(x) for x in df["result"]]
            if case.get("xqueries"):
                xnames = list(names) + ["zx"]      # one atom the base and the object's signature do not contain
                out["xq_accept"] = [bool(o.conditional_acceptance(Conditional(core.f_pysmt(b, xnames), core.f_pysmt(a, xnames), "q")))
                                    for _, b, a in case["xqueries"]]
                df2 = InferenceManager(core.make_bb(names, keyed), "c-inference").inference(core.make_queries(xnames, answers.keyed(case["xqueries"])))
                out["xq_cinf"] = [bool(x) for x in df2["result"]]
    except Exception as e:  # noqa: BLE001
        out["err"] = f"{type(e).__name__}: {e}"[:200]
    if case.get("front"):
        ctxm = mp.get_context("fork")
        q = ctxm.Queue()
        p = ctxm.Process(target=_front_worker, args=(names, keyed, q))
        p.start()
        p.join(case.get("front_timeout", 60))
        if p.is_alive():
            p.terminate()
            p.join()
            out["front"] = ("timeout", None)
        else:
            try:
                out["front"] = q.get(timeout=5)
            except Exception:  # noqa: BLE001
                out["front"] = ("err", "no result")
        # witness search (never a verdict by itself: the driver checks the witness): a c-representation that is not
        # componentwise above any returned vector shows that a Pareto-minimal vector is missing, whatever its size
        if out["front"][0] == "ok" and len(case["base"]) >= 6:
            out["front_witness"] = missing_front_witness(case, out["front"][1])
    return out


def missing_front_witness(case, front):
    import z3

    W = core.all_worlds(case["n"])
    conds = [(b, a) for _, b, a in case["base"]]
    keys = [k for k, _, _ in case["base"]]
    pos = {k: i for i, k in enumerate(sorted(keys))}          # the front's vectors are ordered by ascending key
    eta = [z3.Int(f"e{i}") for i in range(len(conds))]
    kap = [z3.Sum([eta[i] for i, c in enumerate(conds) if core.c_fal(c, w)] + [z3.IntVal(0)]) for w in W]
    s = z3.Solver()
    s.set("timeout", 20000)
    s.add([e >= 0 for e in eta])
    for c in conds:
        V = [i for i, w in enumerate(W) if core.c_ver(c, w)]
        F = [i for i, w in enumerate(W) if core.c_fal(c, w)]
        s.add(z3.Or([z3.And([kap[v] < kap[f] for f in F] + [z3.BoolVal(True)]) for v in V] + [z3.BoolVal(False)]))
    for v in front:
        if len(v) != len(keys):
            return None
        lv = [v[pos[k]] for k in keys]                          # listing order
        s.add(z3.Or([eta[i] < lv[i] for i in range(len(keys))]))
    if s.check() == z3.sat:
        m = s.model()
        return [m.eval(e, model_completion=True).as_long() for e in eta]
    return None


def compare(case, impl, resp):
    fails = []

    def fail(sig, got, want):
        fails.append({"case": case, "impl": got, "spec": want, "signature": "c-representation object: " + sig, "what": sig, "theorem": "InfOCF.C17_*"})

    n = case["n"]
    if "err" in impl:
        fail("construction / use raised " + impl["err"].split(":")[0] + " on a strongly consistent base", impl["err"], "object")
    else:
        eta = impl["impacts"]
        if len(eta) != len(case["base"]) or any((not isinstance(x, int)) or x < 0 for x in eta):
            fail("impacts are not one non-negative integer per conditional", eta, len(case["base"]))
        else:
            isrep, qacc, pareto, ranks = resp["crep"].split("|")
            want_ranks = dict(zip(lean_order_worlds(n), [int(x) for x in ranks.split(" ")]))
            if impl["ranks"] != want_ranks:
                fail("a world's rank is not the sum of the impacts of the conditionals it falsifies", impl["ranks"], want_ranks)
            if isrep != "1" or not all(impl["base_accept"]):
                fail("the ranking does not accept every conditional of the base", {"impacts": eta, "accept": impl["base_accept"]}, True)
            elif pareto == "?":
                # the box below the vector is too large for the exact test (never the case for a minimal vector of these bases):
                # probe single-coordinate reductions, each CHECKED by the driver; a certified smaller c-representation is a violation
                D = core.conds_line(answers.keyed(case["base"]))
                probes = []
                for i, x in enumerate(eta):
                    for y in {x - 1, x // 2, 0}:
                        if 0 <= y < x:
                            probes.append(eta[:i] + [y] + eta[i + 1:])
                rs = core.driver_batch([f"crep {n} {D} 0 " + " ".join(str(v) for v in pr) for pr in probes])
                hit = [pr for pr, r in zip(probes, rs) if r.split("|")[0] == "1"]
                if hit:
                    fail("the impact vector is not Pareto-minimal", eta, {"a smaller c-representation": hit[0]})
                else:
                    impl["pareto_inconclusive"] = True
            elif pareto != "1":
                fail("the impact vector is not Pareto-minimal", eta, "a smaller c-representation exists")
            W = core.all_worlds(n)
            for i, (q, c, a) in enumerate(zip(case["queries"], impl["cinf"], impl["q_accept"])):
                if a != (qacc[i] == "1"):
                    fail("acceptance of a query differs from the rank comparison", {"query": q, "got": a}, qacc[i] == "1")
                    break
                if c and any(core.f_eval(q[2], w) for w in W) and not a:
                    fail("a query c-inference answers True is not accepted by the c-representation object", {"query": q}, True)
                    break
    if case.get("xqueries") and resp.get("xcrep") and "xq_accept" in impl:
        xacc = resp["xcrep"].split("|")[1]
        Wx = core.all_worlds(case["n"] + 1)
        for i, (q, a) in enumerate(zip(case["xqueries"], impl["xq_accept"])):
            if a != (xacc[i] == "1"):
                fail("acceptance of a query that mentions an atom outside the signature differs from the rank comparison", {"query": q, "got": a}, xacc[i] == "1")
                break
            if impl["xq_cinf"][i] and any(core.f_eval(q[2], w) for w in Wx) and not a:
                fail("a query c-inference answers True is not accepted by the c-representation object", {"query": q}, True)
                break
    if case.get("front"):
        kind, val = impl["front"]
        if kind == "timeout":
            if len(case["base"]) >= 8:
                pass    # a large base may simply be slow on a loaded machine: inconclusive, counted in the evidence, never an alarm
            else:
                fail("Pareto front enumeration does not terminate (watchdog)", "timeout", "a finite front")
        elif kind == "err":
            fail("Pareto front enumeration raised " + str(val).split(":")[0], val, "a finite front")
        else:
            want = sorted(tuple(int(x) for x in v.split(",")) for v in resp["front"].split(";")) if resp["front"] else []
            # c_inference_pareto_front documents "eta values ordered by conditional index" (ascending key); the driver's vectors
            # follow the listing order of the base: bring the implementation's vectors into listing order before comparing
            keys = [k for k, _, _ in case["base"]]
            pos = {k: i for i, k in enumerate(sorted(keys))}
            got = sorted(tuple(v[pos[k]] for k in keys) if len(v) == len(keys) else tuple(v) for v in val)
            cube = resp["front_B"]
            if len(set(got)) != len(got):
                fail("Pareto front contains a vector twice", got, want)
            elif any(max(v) <= cube for v in got) or want:
                got_in = sorted(v for v in got if all(x <= cube for x in v))
                if got_in != want and sorted(got) != want:
                    extra = [v for v in got if v not in want and all(x <= cube for x in v)]
                    missing = [v for v in want if v not in got]
                    if extra:
                        fail("Pareto front contains a vector that is not a Pareto-minimal c-representation", extra, want)
                    elif missing:
                        fail("Pareto front misses a Pareto-minimal c-representation", got, missing)
    # a driver-certified c-representation that is not above any returned vector: a Pareto-minimal vector is missing
    if case.get("front") and impl.get("front_witness") and resp.get("witness") and impl["front"][0] == "ok":
        if resp["witness"].split("|")[0] == "1":
            keys = [k for k, _, _ in case["base"]]
            pos = {k: i for i, k in enumerate(sorted(keys))}
            wit = impl["front_witness"]
            front = [[v[pos[k]] for k in keys] for v in impl["front"][1] if len(v) == len(keys)]
            if all(any(wit[i] < v[i] for i in range(len(keys))) for v in front):
                fail("Pareto front misses a Pareto-minimal c-representation", front, {"c-representation below no returned vector": wit})
    # the LP search found a solution of the compiled system lying below no returned vector: driver-certified => a vector is missing
    if case.get("front") and resp.get("fcert_cm") and impl.get("front", ("",))[0] == "ok":
        if resp["fcert_cm"].split("|")[0] == "1":
            keys = [k for k, _, _ in case["base"]]
            pos = {k: i for i, k in enumerate(sorted(keys))}
            wit = resp["fcert_eta"]
            front = [[v[pos[k]] for k in keys] for v in impl["front"][1] if len(v) == len(keys)]
            if all(any(wit[i] < v[i] for i in range(len(keys))) for v in front):
                fail("Pareto front misses a Pareto-minimal c-representation", front, {"c-representation below no returned vector": wit})
    seen, out = set(), []
    for f in fails:
        if f["signature"] not in seen:
            seen.add(f["signature"])
            out.append(f)
    return out


def driver_eval(cases, impls):
    lines, idx = [], []
    for i, (c, impl) in enumerate(zip(cases, impls)):
        D = core.conds_line(answers.keyed(c["base"]))
        Q = core.conds_line(answers.keyed(c["queries"]))
        eta = impl.get("impacts")
        if eta is not None and len(eta) == len(c["base"]) and all(isinstance(x, int) and x >= 0 for x in eta):
            lines.append(f"crep {c['n']} {D} {Q} " + " ".join(str(x) for x in eta))
            idx.append((i, "crep"))
            if c.get("xqueries") and "xq_accept" in impl:
                lines.append(f"crep {c['n'] + 1} {D} {core.conds_line(answers.keyed(c['xqueries']))} " + " ".join(str(x) for x in eta))
                idx.append((i, "xcrep"))
        if c.get("front"):
            B = 3
            if eta:
                B = max(B, max(eta) + 1)
            fr = impl.get("front")
            if fr and fr[0] == "ok" and fr[1]:
                B = max(B, max(max(v) for v in fr[1] if v) + 1 if any(fr[1]) else B)
            B = min(B, 6 if len(c["base"]) <= 4 else (4 if len(c["base"]) <= 7 else 2))
            lines.append(f"cfront {c['n']} {B} {D}")
            idx.append((i, "front", B))
            lines.append(f"ctab {c['n']} {D} 0")
            idx.append((i, "ctab"))
            wit = impl.get("front_witness")
            if wit:
                lines.append(f"crep {c['n']} {D} 0 " + " ".join(str(x) for x in wit))
                idx.append((i, "witness"))
    resp = core.driver_batch(lines)
    out = [dict() for _ in cases]
    for t, r in zip(idx, resp):
        out[t[0]][t[1]] = r
        if t[1] == "front":
            out[t[0]]["front_B"] = t[2]
    # completeness certificates for the returned fronts (multipliers from z3 as an LP search, check by the driver: fcert)
    from props import ccert

    lines2, idx2 = [], []
    for i, (c, impl) in enumerate(zip(cases, impls)):
        fr = impl.get("front")
        keys = [k for k, _, _ in c["base"]]
        if not (c.get("front") and fr and fr[0] == "ok" and fr[1] and "ctab" in out[i] and all(len(v) == len(keys) for v in fr[1])):
            continue
        pos = {k: j for j, k in enumerate(sorted(keys))}
        front = sorted({tuple(int(v[pos[k]]) for k in keys) for v in fr[1]})
        if any(x < 0 for v in front for x in v):
            continue
        D = core.conds_line(answers.keyed(c["base"]))
        try:
            rows, _ = ccert.parse_ctab(out[i]["ctab"])
            cert = ccert.build_front_cert(len(keys), rows, [list(v) for v in front], cap=1500 if len(keys) <= 6 else 400)
        except Exception as e:  # noqa: BLE001
            cert = {"status": "unknown", "choices": 0, "err": f"{type(e).__name__}: {e}"[:100]}
        out[i]["fcert_status"] = cert["status"]
        out[i]["fcert_choices"] = cert.get("choices", 0)
        if cert["status"] == "ok":
            lines2.append(f"fcert {c['n']} {D} {ccert.front_text(front)} {ccert.pool_text(cert['pool'])}")
            idx2.append((i, "fcert"))
        elif cert["status"] == "counter":
            out[i]["fcert_eta"] = cert["eta"]
            lines2.append(f"crep {c['n']} {D} 0 " + " ".join(str(x) for x in cert["eta"]))
            idx2.append((i, "fcert_cm"))
    for t, r in zip(idx2, core.driver_batch(lines2)):
        out[t[0]][t[1]] = r
    return out


def recheck(case):
    impl = impl_eval(case)
    resp = driver_eval([case], [impl])[0]
    fs = compare(case, impl, resp)
    return fs[0] if fs else None


def run(ctx):
    from check import pmap_nd

    from props.c05 import gen

    quick = ctx.tier == "quick"
    cases = [c for c in answers.load_corpus("C17")]
    bases = gen(ctx, 70 if quick else 1500)
    for i, b in enumerate(bases):
        b = dict(b)
        b["n"] = b["sig"]
        b["queries"] = [[k, x, a] for k, x, a in b["queries"] if not ((core.f_atoms(x) | core.f_atoms(a)) - set(range(b["n"])))]
        if b["base"] and i % 2 == 0:
            zx = ("a", b["n"])
            c1, c2 = ctx.rng.choice(b["base"]), ctx.rng.choice(b["base"])
            b["xqueries"] = [[1, c1[1], ("&", c1[2], zx)], [2, ("|", c2[1], zx), c2[2]], [3, c1[1], ctx.rng.choice([zx, ("!", zx)])]]
        b["front"] = (i % (3 if quick else 2) == 0) and len(b["base"]) <= 4
        b["front_timeout"] = 30 if quick else 120
        cases.append(b)
    # larger bases (9-10 conditionals over 6 atoms): more objectives than small inputs ever give the Pareto engine
    for b in answers.gen_cases(ctx, 24 if quick else 100, (6, 6), (8, 10), [False], q_per=3, big=1.0):
        if len(b["base"]) < 8 or len(b["base"]) > 9 or sum(1 for c in cases if c.get("big")) >= (6 if quick else 30):
            continue
        b = {k: v for k, v in b.items() if not k.startswith("_")}
        # a conditional listed twice (under two keys, next to each other): at least two Pareto-minimal vectors that trade one impact
        pos = ctx.rng.randrange(len(b["base"]))
        dup = b["base"][pos]
        b["base"] = b["base"][:pos + 1] + [[0, dup[1], dup[2]]] + b["base"][pos + 1:]
        b["base"] = [[i + 1, x, a] for i, (_, x, a) in enumerate(b["base"])]     # keys follow the listing: the two copies are neighbours
        b["queries"] = [q for q in b["queries"] if not ((core.f_atoms(q[1]) | core.f_atoms(q[2])) - set(range(b["sig"])))][:3]
        b["front"], b["front_timeout"], b["big"] = True, 300, True
        cases.append(b)
    impls = pmap_nd(impl_eval, cases, min(ctx.procs, 8))
    resps = driver_eval(cases, impls)
    for c, impl, resp in zip(cases, impls, resps):
        ctx.evaluations += 2 + len(c["queries"]) + (1 if c.get("front") else 0)
        ctx.bump(f"conds={len(c['base'])}")
        if c.get("front"):
            ctx.bump("front_enumerations")
            if impl.get("front", ("", None))[0] == "timeout":
                ctx.bump("front_watchdog_timeouts(large base: inconclusive)" if len(c["base"]) >= 8 else "front_watchdog_timeouts")
            if impl.get("front", ("", None))[0] == "ok":
                ctx.bump(f"front_size={min(len(impl['front'][1]), 4)}")
                st = resp.get("fcert_status")
                if st == "ok":
                    ctx.bump("front_completeness_certified" if resp.get("fcert") == "1" else "front_certificate_rejected_by_driver")
                    ctx.bump("front_certificate_choice_combinations", resp.get("fcert_choices", 0))
                elif st:
                    ctx.bump("front_completeness_uncertified:" + st)
        eta = impl.get("impacts") or []
        if len(c["base"]) >= 2 and any(eta):
            ctx.nontrivial.add(hash(json.dumps(c["base"])))
        names = core.names_for(c["n"])
        ctx.sample({"base": [core.cond_text((b, a), names) for _, b, a in c["base"]], "impacts": eta, "front": impl.get("front"),
                    "driver": {k: (v[:80] if isinstance(v, str) else v) for k, v in resp.items()}})
        for f in compare(c, impl, resp):
            ctx.fail(f, lambda f: core.generic_shrink(f, recheck, fields=("base", "queries"), budget=30))
