"""C02 System Z answers equal rank comparison under the Z-ranking (strict mode)."""
from props import answers

THEOREMS = ["InfOCF.C02_main", "InfOCF.C02_rank_form", "InfOCF.C02_zrank_zero", "InfOCF.C02_zrank_succ", "InfOCF.C02_trivial", "InfOCF.C02_refuse"]
RULE = ("random strongly consistent bases (1-6 atoms, 1-7 conditionals, penguin-style chains, duplicates, constants) x 6 queries "
        "(own conditionals, negated consequents, random; 10% with an atom outside the signature); "
        "non-trivial = query not short-cut (A∧B and A∧¬B both satisfiable) and base has >= 2 layers; distinct by (base, query)")
ASSUMPTIONS = ["world enumeration bounds the correspondence to <= 7 atoms; the theorem has no bound"]
CONFIGS = [("system-z", "rc2")]


def nontrivial(case, info, qk, row):
    return qk == "contingent" and (info["layers"] or 0) >= 2


def run(ctx):
    count = 250 if ctx.tier == "quick" else 5000
    cases = answers.load_corpus("C02")
    cases += answers.gen_cases(ctx, count, (1, 6), (1, 7), [False, False, False, False, True], strong_only=True, rekey=0.3, big=0.08)
    # knowledge bases shipped with the repository (examples/random_large: 6-12 atoms, deeply nested formulas), parsed by the real parser
    cases += answers.shipped_cases(ctx, 8 if ctx.tier == "quick" else 120, (6, 10) if ctx.tier == "quick" else (6, 12), [False])
    if ctx.tier == "thorough":
        ex = answers.exhaustive_cases(ctx, [False])
        ctx.notes.append(f"exhaustive small scope: all one-conditional bases over the 16 truth tables on 2 atoms and all two-conditional bases "
                         f"over a pool of 36 conditionals, each against all 256 queries ({len(ex)} chunks of 64 queries)")
        cases += ex
    answers.run_cases(ctx, cases, CONFIGS, nontrivial)


def recheck(case):
    return answers.recheck_one(case)
