"""C12 answers depend only on meaning, not on presentation (keys, order, names, signature, equivalent formulas)."""
from __future__ import annotations

import json

import core
from props import answers, rel

THEOREMS = ["InfOCF.C12_key_formula_invariance_part", "InfOCF.C12_key_formula_invariance_P", "InfOCF.C12_key_formula_invariance_Z",
            "InfOCF.C12_key_formula_invariance_W", "InfOCF.C12_key_formula_invariance_Lex", "InfOCF.C12_query_equiv",
            "InfOCF.C12_order_invariance", "InfOCF.C12_order_invariance_P", "InfOCF.C12_order_invariance_part", "InfOCF.C12_atom_renaming", "InfOCF.C12_c_invariance", "InfOCF.C12_c_key_formula_invariance", "InfOCF.C12_c_atom_renaming", "InfOCF.C12_c_order_invariance", "InfOCF.specC_iff_pos", "InfOCF.C12_atom_renaming_part", "InfOCF.C12_signature_extension", "InfOCF.pull_transport", "InfOCF.tolPart_perm", "InfOCF.tolPart_congr", "InfOCF.tolPartExt_congr", "InfOCF.wless_congr", "InfOCF.lexVec_congr", "InfOCF.zrk_congr"]
RULE = ("random and tie-rich bases (both modes) x 5 queries; each base is presented in 7 ways: parser-style keys 1..n (reference), 0-based keys, "
        "sparse keys, permuted keys, reversed/shuffled conditional order, atoms renamed + signature reordered and extended by unused atoms, "
        "every formula (base and queries) rewritten to an equivalent one (double negation, De Morgan, distribution, constant absorption, "
        "duplicated conjuncts); every operator and back-end (c-inference: strict mode) must give the reference answers; "
        "non-trivial = contingent query on a base with >= 2 conditionals; distinct by (base, query, presentation)")
ASSUMPTIONS = ["the Lean theorems cover re-keying, replacement of formulas by equivalent ones (position-wise same verification/falsification sets), "
               "permutation of the conditional list, renaming of the atoms by any injection of signatures and extension of the signature by unused atoms "
               "(C12_atom_renaming, C12_signature_extension) for p-entailment, System Z, System W and lexicographic inference in both modes, and "
               "for skeptical c-inference at the level of its specification specC (C12_c_invariance, C12_c_order_invariance; impact assignments "
               "per conditional = impact vectors by position when keys are distinct, specC_iff_pos); specC is tied to the code by C05"]

CFG_STRICT = rel.STRICT_CFG
CFG_EXT = rel.EXT_CFG


def rewrite(rng, f, depth=0):
    """an equivalent formula"""
    t = f[0]
    r = rng.random()
    if t in ("a", "T", "F"):
        if r < 0.25:
            return ("!", ("!", f))
        if r < 0.4:
            return ("&", f, ("T",))
        if r < 0.5:
            return ("|", f, ("F",))
        if r < 0.6:
            return ("&", f, f)
        return f
    if t == "!":
        g = f[1]
        if g[0] == "&" and r < 0.5:
            return ("|", ("!", rewrite(rng, g[1])), ("!", rewrite(rng, g[2])))
        if g[0] == "|" and r < 0.5:
            return ("&", ("!", rewrite(rng, g[1])), ("!", rewrite(rng, g[2])))
        if g[0] == "!" and r < 0.5:
            return rewrite(rng, g[1])
        return ("!", rewrite(rng, g))
    a, b = rewrite(rng, f[1]), rewrite(rng, f[2])
    if r < 0.2:
        return (t, b, a)
    if r < 0.35:
        other = "|" if t == "&" else "&"
        return ("!", (other, ("!", a), ("!", b)))
    if r < 0.45 and b[0] in "&|" and b[0] != t:
        return (b[0], (t, a, b[1]), (t, a, b[2]))  # distribution
    if r < 0.5:
        return (t, (t, a, b), a)  # absorption-like duplicate
    return (t, a, b)


def rename(f, perm):
    t = f[0]
    if t == "a":
        return ("a", perm[f[1]])
    if t in ("T", "F"):
        return f
    return (t,) + tuple(rename(g, perm) for g in f[1:])


def presentations(rng, case):
    n = case["n"]
    base = [(k, b, a) for k, b, a in case["base"]]
    qs = [(k, b, a) for k, b, a in case["queries"]]
    out = []
    names = core.names_for(n)
    out.append(("reference", dict(case, names=names)))
    out.append(("keys-0-based", dict(case, names=names, base=[[i, b, a] for i, (_, b, a) in enumerate(base)])))
    if case.get("weakly") and len(base) >= 1:
        # key 0 on a conditional of the infinity layer (a falsy key where the code may test "is there anything in this layer")
        part = core.py_partition([(b, a) for _, b, a in base], core.all_worlds(n), weakly=True)
        if part and part[-1]:
            z = rng.choice(part[-1])
            ks = [0 if i == z else (i + 1) for i in range(len(base))]
            out.append(("key-0-in-infinity-layer", dict(case, names=names, base=[[k, b, a] for k, (_, b, a) in zip(ks, base)])))
    sk = sorted(rng.sample(range(0, 60), len(base)))
    out.append(("keys-sparse", dict(case, names=names, base=[[k, b, a] for k, (_, b, a) in zip(sk, base)])))
    pk = list(range(1, len(base) + 1))
    rng.shuffle(pk)
    out.append(("keys-permuted", dict(case, names=names, base=[[k, b, a] for k, (_, b, a) in zip(pk, base)])))
    sh = list(base)
    rng.shuffle(sh)
    if sh == base:
        sh = list(reversed(base))
    out.append(("order-shuffled", dict(case, names=names, base=[[i + 1, b, a] for i, (_, b, a) in enumerate(sh)])))
    # rename atoms, reorder + extend signature
    extra = rng.randint(1, 2)
    perm = list(range(n + extra))
    rng.shuffle(perm)
    names2 = core.names_for(n + extra)
    rng.shuffle(names2)
    out.append(("renamed+signature", dict(case, n=n + extra, sig=n + extra, names=names2,
                                          base=[[k, rename(b, perm), rename(a, perm)] for k, b, a in base],
                                          queries=[[k, rename(b, perm), rename(a, perm)] for k, b, a in qs])))
    out.append(("formulas-rewritten", dict(case, names=names,
                                           base=[[k, rewrite(rng, b), rewrite(rng, a)] for k, b, a in base],
                                           queries=[[k, rewrite(rng, b), rewrite(rng, a)] for k, b, a in qs])))
    return out


def eval_group(args):
    pres, cfgs = args
    return [rel.eval_small((p, cfgs)) for _, p in pres]


def compare(pres, results, cfgs):
    fails = []
    ref = results[0]
    for (label, p), res in zip(pres[1:], results[1:]):
        for cfg in cfgs:
            k = rel.cfg_name(cfg)
            a, b = ref.get(k), res.get(k)
            if a is None or b is None:
                continue
            if a[0] != "ok":
                # the reference presentation itself fails: not a presentation issue
                continue
            if b[0] != "ok":
                fails.append({"case": {"presentation": label, "cfg": list(cfg), "reference": pres[0][1], "variant": p},
                              "impl": {"reference": a[1], "variant": list(b[:2])}, "spec": "same answers",
                              "signature": f"{k} weakly={p['weakly']}: presentation {label} raises {b[1]}",
                              "what": "a re-presented base makes the operator raise"})
                continue
            if a[1] != b[1]:
                i = [j for j, (x, y) in enumerate(zip(a[1], b[1])) if x != y][0]
                fails.append({"case": {"presentation": label, "cfg": list(cfg), "query_index": i,
                                       "reference": dict(pres[0][1], queries=[pres[0][1]["queries"][i]]),
                                       "variant": dict(p, queries=[p["queries"][i]])},
                              "impl": {"reference": a[1][i], "variant": b[1][i]}, "spec": "same answers",
                              "signature": f"{k} weakly={p['weakly']}: answer changes under presentation {label}",
                              "what": "answer depends on the presentation of the input"})
    return fails


def recheck(case):
    cfg = tuple(case["cfg"])
    r1 = rel.eval_small((case["reference"], [cfg]))[rel.cfg_name(cfg)]
    r2 = rel.eval_small((case["variant"], [cfg]))[rel.cfg_name(cfg)]
    if r1[0] != "ok":
        return None
    if r2[0] != "ok" or r1[1] != r2[1]:
        k = rel.cfg_name(cfg)
        label = case["presentation"]
        sig = (f"{k} weakly={case['variant']['weakly']}: presentation {label} raises {r2[1]}" if r2[0] != "ok"
               else f"{k} weakly={case['variant']['weakly']}: answer changes under presentation {label}")
        return {"case": case, "impl": {"reference": r1[1], "variant": list(r2[:2]) if r2[0] != "ok" else r2[1]},
                "spec": "same answers", "signature": sig, "what": "answer depends on the presentation of the input"}
    return None


def run(ctx):
    quick = ctx.tier == "quick"
    rng = ctx.rng
    cases = answers.load_corpus("C12")
    cases += answers.gen_cases(ctx, 45 if quick else 1200, (2, 5), (2, 6), [False], ties=0.4, q_per=5, consts=0.08, big=0.15, cost=0.2, subs=0.15)
    cases += answers.gen_cases(ctx, 25 if quick else 600, (2, 5), (2, 6), [True], ties=0.3, q_per=5, consts=0.12, big=0.1, cost=0.15, subs=0.1)
    jobs = []
    for c in cases:
        c = {k: v for k, v in c.items() if not k.startswith("_")}
        pres = presentations(rng, c)
        jobs.append((pres, CFG_EXT if c["weakly"] else CFG_STRICT))
    results = rel.pmap(ctx, eval_group, jobs)
    for (pres, cfgs), res in zip(jobs, results):
        c = pres[0][1]
        ctx.evaluations += len(pres) * len(cfgs) * len(c["queries"])
        ctx.bump(f"mode={'ext' if c['weakly'] else 'strict'}")
        W = core.all_worlds(c["n"])
        for q in c["queries"]:
            if answers.query_kind(c, q, W) == "contingent" and len(c["base"]) >= 2:
                for label, _ in pres[1:]:
                    ctx.nontrivial.add(hash((json.dumps(c["base"]), json.dumps(q[1:]), c["weakly"], label)))
        for k, r in res[0].items():
            if r[0] == "err":
                ctx.bump(f"reference_error:{k}:{r[1]}")
        names = core.names_for(c["n"])
        ctx.sample({"reference": [f"{k}:" + core.cond_text((b, a), names) for k, b, a in c["base"]],
                    "rewritten": [f"{k}:" + core.cond_text((b, a), pres[6][1]["names"]) for k, b, a in pres[6][1]["base"]],
                    "renamed": [f"{k}:" + core.cond_text((b, a), pres[5][1]["names"]) for k, b, a in pres[5][1]["base"]]}, cap=2)
        ctx.failures.extend(compare(pres, res, cfgs))
