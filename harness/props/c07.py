"""C07 extended semantics: exact and total on every weakly consistent base."""
from props import answers

THEOREMS = ["InfOCF.C07_Z", "InfOCF.C07_W", "InfOCF.C07_Lex", "InfOCF.C07_edges", "InfOCF.C07_total", "InfOCF.C07_strict_coincide", "InfOCF.bodyZ_ext_eq", "InfOCF.bodyW_ext_eq", "InfOCF.bodyLex_eq", "InfOCF.C07_P", "InfOCF.C07_P_ans", "InfOCF.rem_ext_query", "InfOCF.GreedyRun_max"]
RULE = ("random weakly consistent bases (incl. no finite layer, mixed finite/infinity layers, strongly consistent ones) x 6 queries x "
        "{p, z, w/rc2, w/z3, lex/rc2, lex/z3}, weakly=True; non-trivial = infinity layer non-empty and query contingent; distinct by (base, query)")
ASSUMPTIONS = ["world enumeration bounds the correspondence to <= 7 atoms; the theorems have no bound"]
CONFIGS = [("p-entailment", "rc2"), ("system-z", "rc2"), ("system-w", "rc2"), ("system-w", "z3"), ("lex_inf", "rc2"), ("lex_inf", "z3")]


def nontrivial(case, info, qk, row):
    return qk == "contingent" and info["inf"] > 0


def run(ctx):
    count = 150 if ctx.tier == "quick" else 3000
    cases = answers.load_corpus("C07")
    cases += answers.gen_cases(ctx, count, (1, 6), (1, 6), [True], consts=0.12, ties=0.3, rekey=0.3)
    # knowledge bases shipped with the repository (examples/random_large: 6-12 atoms, deeply nested formulas), parsed by the real parser
    cases += answers.shipped_cases(ctx, 8 if ctx.tier == "quick" else 120, (6, 10) if ctx.tier == "quick" else (6, 12), [True])
    if ctx.tier == "thorough":
        ex = answers.exhaustive_cases(ctx, [True])
        ctx.notes.append(f"exhaustive small scope: all one-conditional bases over the 16 truth tables on 2 atoms and all two-conditional bases "
                         f"over a pool of 36 conditionals, each against all 256 queries ({len(ex)} chunks of 64 queries)")
        cases += ex
    answers.run_cases(ctx, cases, CONFIGS, nontrivial)


def recheck(case):
    return answers.recheck_one(case)
