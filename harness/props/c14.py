"""C14 time budgets never produce an unflagged wrong answer (fault enumeration from outside, no hook)."""
from __future__ import annotations

import json
import warnings

import core
from props import answers

THEOREMS = ["InfOCF.C14_failstop", "InfOCF.C14_rows_failstop", "InfOCF.C14_state_good", "InfOCF.C14_budget_le_total",
            "InfOCF.C14_unknown_as_sat_wrong"]
RULE = ("per case (small base, batch of 3-4 queries, operator/back-end, budget setting total/preprocessing/per-query): one run without "
        "budgets, one fault-free run with budgets that counts the observations (for a third of the cases also one under parallel "
        "evaluation) (calls of Deadline.expired and of z3 Optimize.check), then "
        "one run per observation index k and per kind with that observation reporting expiry / unknown (single fault, and 'sticky': "
        "every observation from k on), each followed by a fault-free call on the same manager; every row must be flagged with answer "
        "False or equal to the answer without budgets, and no exception may escape; non-trivial = the fault index is reached (always, by "
        "construction); distinct by (case, kind, k, sticky)")
ASSUMPTIONS = ["expiry inside a native solver call is represented by the verdict 'unknown' of Optimize.check (a solver returning a "
               "sub-optimal model as sat cannot be exhibited this way)",
               "p-entailment and System Z never poll a deadline: their budgets cannot fire, which satisfies the property trivially"]

CFGS = [("system-w", "rc2"), ("system-w", "z3"), ("lex_inf", "rc2"), ("lex_inf", "z3"), ("c-inference", "rc2"), ("system-z", "rc2"),
        ("p-entailment", "rc2")]
BUDGETS = [{"inference_timeout": 1000}, {"total_timeout": 1000}, {"total_timeout": 1000, "inference_timeout": 500, "preprocessing_timeout": 500},
           {"inference_timeout": 1000, "preprocessing_timeout": 1000}, {"total_timeout": 1000, "preprocessing_timeout": 500}]


class Sched:
    def __init__(self):
        self.reset(None, None, False)

    def reset(self, kind, k, sticky):
        self.kind, self.k, self.sticky = kind, k, sticky
        self.count = {"deadline": 0, "solver": 0}

    def observe(self, kind):
        i = self.count[kind]
        self.count[kind] += 1
        if self.kind == kind and self.k is not None:
            return i == self.k or (self.sticky and i > self.k)
        return False


S = Sched()
_patched = False


def install():
    global _patched
    if _patched:
        return
    import z3
    from inference import deadline as dl

    orig_expired = dl.Deadline.expired
    orig_check = z3.Optimize.check

    def expired(self):
        if S.observe("deadline"):
            return True
        return orig_expired(self)

    def check(self, *a):
        if S.observe("solver"):
            return z3.unknown
        return orig_check(self, *a)

    dl.Deadline.expired = expired
    z3.Optimize.check = check
    _patched = True


def one_call(man, names, queries, budget):
    try:
        with warnings.catch_warnings():
            warnings.simplefilter("ignore")
            df = man.inference(core.make_queries(names, answers.keyed(queries)), **budget)
        return ("ok", [[bool(r["result"]), bool(r["inference_timed_out"]), bool(r["preprocessing_timed_out"])] for _, r in df.iterrows()])
    except Exception as e:  # noqa: BLE001
        return ("err", f"{type(e).__name__}: {e}"[:160])


def impl_eval(case):
    from inference.inference_manager import InferenceManager

    install()
    names = core.names_for(case["n"])
    out = {"runs": []}

    def mk():
        bb = core.make_bb(names, answers.keyed(case["base"]))
        return InferenceManager(bb, case["system"], pmaxsat_solver=case["pmaxsat"], weakly=case["weakly"])

    try:
        S.reset(None, None, False)
        out["nobudget"] = one_call(mk(), names, case["queries"], {})
        S.reset(None, None, False)
        out["faultfree"] = one_call(mk(), names, case["queries"], case["budget"])
        counts = dict(S.count)
        out["counts"] = counts
        if case.get("multi"):
            # the same budgets under parallel evaluation (no fault): rows must equal the run without budgets
            S.reset(None, None, False)
            out["faultfree_multi"] = one_call(mk(), names, case["queries"], dict(case["budget"], multi_inference=True))
        plan = case.get("plan")
        if plan is None:
            plan = []
            for kind in ("deadline", "solver"):
                for k in range(counts[kind]):
                    plan.append([kind, k, False])
                    if k % 3 == 0 or counts[kind] <= 6:
                        plan.append([kind, k, True])
            if case.get("max_runs") and len(plan) > case["max_runs"]:
                step = len(plan) / case["max_runs"]
                plan = [plan[int(i * step)] for i in range(case["max_runs"])]
        for kind, k, sticky in plan:
            man = mk()
            S.reset(kind, k, sticky)
            first = one_call(man, names, case["queries"], case["budget"])
            S.reset(None, None, False)
            follow = one_call(man, names, case["queries"], case["budget"])
            out["runs"].append({"kind": kind, "k": k, "sticky": sticky, "first": first, "follow": follow})
    except Exception as e:  # noqa: BLE001
        out["err"] = f"{type(e).__name__}: {e}"[:200]
    finally:
        S.reset(None, None, False)
    return out


def rows_ok(rows, ref):
    """each row flagged with answer False, or equal to the reference answer"""
    for (res, ito, pto), want in zip(rows, ref):
        if ito or pto:
            if res:
                return "a flagged row carries answer True"
        elif res != want:
            return "an unflagged row carries a different answer than the run without budgets"
    if len(rows) != len(ref):
        return "wrong number of rows"
    return None


def compare(case, impl):
    fails = []
    cfg = f"{case['system']}/{case['pmaxsat']}"

    def fail(sig, got, want, run=None):
        c = dict(case)
        if run is not None:
            c["plan"] = [[run["kind"], run["k"], run["sticky"]]]
        fails.append({"case": c, "impl": got, "spec": want, "signature": f"{cfg}: {sig}", "what": sig, "theorem": "InfOCF.C14_failstop"})

    if "err" in impl:
        fail("harness-level exception " + impl["err"].split(":")[0], impl["err"], "runs")
        return fails
    if impl["nobudget"][0] != "ok":
        return fails  # not a budget matter (C05/C07 own it)
    ref = [r[0] for r in impl["nobudget"][1]]
    ff = impl["faultfree"]
    if ff[0] != "ok":
        fail("budgets set but no fault: call raised " + ff[1].split(":")[0], ff[1], ref)
        return fails
    bad = rows_ok(ff[1], ref)
    if bad:
        fail("budgets set but no fault: " + bad, ff[1], ref)
    fm = impl.get("faultfree_multi")
    if fm is not None:
        if fm[0] != "ok":
            fail("budgets set, parallel evaluation, no fault: call raised " + fm[1].split(":")[0], fm[1], ref)
        else:
            bad = rows_ok(fm[1], ref)
            if bad:
                fail("budgets set, parallel evaluation, no fault: " + bad, fm[1], ref)
    for run in impl["runs"]:
        what = "expiry observed" if run["kind"] == "deadline" else "solver verdict unknown"
        for phase in ("first", "follow"):
            r = run[phase]
            label = "in the faulted call" if phase == "first" else "in the following call on the same manager"
            if r[0] != "ok":
                fail(f"{what}: exception {r[1].split(':')[0]} escapes {label}", r[1], "flagged rows", run)
                break
            bad = rows_ok(r[1], ref)
            if bad:
                fail(f"{what}: {bad} {label}", r[1], ref, run)
                break
    # one report per signature is enough
    seen, out = set(), []
    for f in fails:
        if f["signature"] not in seen:
            seen.add(f["signature"])
            out.append(f)
    return out


def recheck(case):
    impl = impl_eval(case)
    fs = compare(case, impl)
    return fs[0] if fs else None


def is_flat(b):
    """>= 3 conditionals sharing one antecedent (independent defaults in one layer)"""
    antes = {}
    for _, _c, a in b["base"]:
        antes[json.dumps(a)] = antes.get(json.dumps(a), 0) + 1
    return max(antes.values(), default=0) >= 3


def run(ctx):
    from check import pmap

    quick = ctx.tier == "quick"
    rng = ctx.rng
    cases = [c for c in answers.load_corpus("C14")]
    bases = answers.gen_cases(ctx, 36 if quick else 500, (2, 4), (2, 5), [False, False, True], ties=0.4, q_per=4, consts=0.05, flat=0.3)
    for i, b in enumerate(bases):
        b = {k: v for k, v in b.items() if not k.startswith("_")}
        cfgs = [c for c in CFGS if not (b["weakly"] and c[0] == "c-inference")]
        system, pm = cfgs[i % len(cfgs)] if i < 2 * len(cfgs) else rng.choice(cfgs[:5])
        # bases with several incomparable correction sets per layer (long optimizer enumerations) are run with every enumerating operator
        flat = is_flat(b)
        for system, pm in (cfgs[:4] if flat else [(system, pm)]):
            cases.append({"n": b["n"], "weakly": b["weakly"], "base": b["base"], "queries": b["queries"], "system": system, "pmaxsat": pm,
                          "budget": rng.choice(BUDGETS), "max_runs": 60 if quick else 400, "multi": len(cases) % 3 == 0})
    # larger bases (>= 8 conditionals, several layers) for the operators that enumerate correction sets
    bigs = [b for b in answers.gen_cases(ctx, 16 if quick else 80, (6, 6), (8, 10), [False], q_per=4, big=1.0)
            if (b["_info"].get("layers") or 0) >= 2][:8 if quick else 40]
    big_cfgs = [CFGS[0], CFGS[0], CFGS[1], CFGS[2], CFGS[0], CFGS[3], CFGS[0], CFGS[2]]
    for i, b in enumerate(bigs):
        b = {k: v for k, v in b.items() if not k.startswith("_")}
        system, pm = big_cfgs[i % len(big_cfgs)]
        cases.append({"n": b["n"], "weakly": b["weakly"], "base": b["base"], "queries": b["queries"][:4], "system": system, "pmaxsat": pm,
                      "budget": rng.choice(BUDGETS), "max_runs": 40 if quick else 200})
    impls = pmap(impl_eval, cases, ctx.procs)
    for c, impl in zip(cases, impls):
        runs = impl.get("runs", [])
        ctx.evaluations += 2 + 2 * len(runs)
        ctx.bump(f"operator={c['system']}/{c['pmaxsat']}")
        if c.get("multi"):
            ctx.bump("budgeted_parallel_runs")
        cnt = impl.get("counts", {"deadline": 0, "solver": 0})
        ctx.bump("deadline_observations", cnt["deadline"])
        ctx.bump("solver_observations", cnt["solver"])
        for r in runs:
            ctx.nontrivial.add(hash((json.dumps(c["base"]), c["system"], c["pmaxsat"], json.dumps(c["budget"]), r["kind"], r["k"], r["sticky"])))
            if r["first"][0] == "ok":
                ctx.bump("faulted_rows_flagged", sum(1 for x in r["first"][1] if x[1] or x[2]))
                ctx.bump("faulted_rows_unflagged", sum(1 for x in r["first"][1] if not (x[1] or x[2])))
        names = core.names_for(c["n"])
        ctx.sample({"operator": f"{c['system']}/{c['pmaxsat']}", "budget": c["budget"], "weakly": c["weakly"],
                    "base": [core.cond_text((b, a), names) for _, b, a in c["base"]], "observations": cnt,
                    "one_faulted_run": runs[0] if runs else None})
        for f in compare(c, impl):
            ctx.fail(f, lambda f: core.generic_shrink(f, recheck, fields=("base", "queries"), budget=30))
