"""C16 the System Z ranking object equals the Z-ranking, models the base, agrees with the operator; facts."""
from __future__ import annotations

import json
import warnings

import core
from props import answers
from props.c18 import lean_order_worlds

THEOREMS = ["InfOCF.C16_rank", "InfOCF.C16_rank_ext", "InfOCF.C16_cache", "InfOCF.C16_models", "InfOCF.C16_accept_eq_Z",
            "InfOCF.C16_facts_top", "InfOCF.zrk_models"]
RULE = ("random strongly / weakly consistent bases (1-5 atoms) x fact lists (0-2 formulas) x extended flag; ranks requested in a random "
        "order mixing lazy, forced and compute_all_ranks calls, every returned value compared with the driver's Z-rank (extended: top rank "
        "for infeasible worlds); acceptance of 6 queries compared with the driver and with the implementation's own System Z operator on the "
        "(augmented) base where the antecedent has a feasible model; unsatisfiable combinations must be refused with ValueError; half of the bases carry gapped / sparse / 0-based keys; "
        "non-trivial = >= 2 finite layers or facts present; distinct by (base, facts, mode)")
ASSUMPTIONS = ["world enumeration bounds the correspondence to <= 5 atoms; the theorems have no bound"]


def impl_eval(case):
    from inference.conditional import Conditional
    from inference.preocf import PreOCF

    n = case["n"]
    names = core.names_for(n)
    out = {"calls": [], "accept": [], "op": None}
    try:
        bb = core.make_bb(names, answers.keyed(case["base"]))
        forms = case.get("fact_forms") or ["pysmt"] * len(case["facts"])
        facts = [core.fact_arg(f, names, fm) for f, fm in zip(case["facts"], forms)] or None
        with warnings.catch_warnings():
            warnings.simplefilter("ignore")
            ocf = PreOCF.init_system_z(bb, signature=(list(case["objsig"]) if case.get("objsig") else None), facts=facts, extended=case["extended"])
    except ValueError as e:
        out["refused"] = str(e)[:300]
        return out
    except Exception as e:  # noqa: BLE001
        out["err"] = f"constructor {type(e).__name__}: {e}"[:300]
        return out
    try:
        with warnings.catch_warnings():
            warnings.simplefilter("ignore")
            for op in case["ops"]:
                if op[0] == "all":
                    out["calls"].append(dict(ocf.compute_all_ranks()))
                elif op[0] == "accept":
                    _, b, a = case["queries"][op[1]]
                    out["calls"].append(bool(ocf.conditional_acceptance(Conditional(core.f_pysmt(b, names), core.f_pysmt(a, names), "q"))))
                else:
                    out["calls"].append(ocf.rank_world(op[1], force_calculation=(op[0] == "force")))
            out["final"] = dict(ocf.compute_all_ranks())
            for _, b, a in case["queries"]:
                out["accept"].append(bool(ocf.conditional_acceptance(Conditional(core.f_pysmt(b, names), core.f_pysmt(a, names), "q"))))
            out["base_accept"] = {k: bool(ocf.conditional_acceptance(c)) for k, c in bb.conditionals.items()}
    except Exception as e:  # noqa: BLE001
        out["err"] = f"{type(e).__name__}: {e}"[:300]
        return out
    # the implementation's own System Z operator on the augmented base
    try:
        from inference.consistency_diagnostics import augment_belief_base_with_facts
        from inference.inference_manager import InferenceManager

        with warnings.catch_warnings():
            warnings.simplefilter("ignore")
            aug = augment_belief_base_with_facts(bb, facts or [])
            man = InferenceManager(aug, "system-z", weakly=case["mode_ext"])
            df = man.inference(core.make_queries(names, answers.keyed(case["queries"])))
        out["op"] = [bool(x) for x in df["result"]]
    except Exception as e:  # noqa: BLE001
        out["op_err"] = f"{type(e).__name__}: {e}"[:200]
    return out


def proj(case, w):
    """world string over the object's explicit signature -> world string over the base's signature (names order)"""
    sg = case.get("objsig")
    if not sg:
        return w
    names = core.names_for(case["n"])
    return "".join(w[sg.index(nm)] for nm in names)


def driver_line(case):
    return (f"zobj {case['n']} {1 if case['mode_ext'] else 0} {core.conds_line(answers.keyed(case['base']))} "
            f"{len(case['facts'])} " + " ".join(core.f_prefix(f) for f in case["facts"]) + " " + core.conds_line(answers.keyed(case["queries"])))


def compare(case, impl, resp):
    fails = []

    def fail(sig, got, want, what):
        fails.append({"case": case, "impl": got, "spec": want, "signature": sig, "what": what, "theorem": "InfOCF.C16_*"})

    if resp == "none":
        # combination has no partition for the mode
        if case["facts"]:
            if "refused" not in impl:
                fail("unsatisfiable combination with facts not refused", impl.get("err") or "constructed", "ValueError", "missing refusal")
            elif "consistent" not in impl["refused"]:
                fail("refusal does not carry the diagnostics", impl["refused"], "diagnostics in message", "refusal without diagnostics")
        return fails  # without facts the property does not speak about inconsistent bases
    if "refused" in impl:
        fail("acceptable base/facts combination refused", impl["refused"], "object", "constructor refused an acceptable input")
        return fails
    if "err" in impl:
        fail("ranking object raised " + impl["err"].split(":")[0], impl["err"], "ranks", "ranking object raised")
        return fails
    ranks_s, acc_s, ops_s = resp.split("|")
    worlds = lean_order_worlds(case["n"])
    want = dict(zip(worlds, [int(x) for x in ranks_s.split(" ")]))
    for op, got in zip(case["ops"], impl["calls"]):
        if op[0] == "all":
            if case.get("objsig"):
                gotp = {w: r for w, r in got.items()}
                bad = [w for w in gotp if gotp[w] != want[proj(case, w)]] + ([None] if len(gotp) != 2 ** len(case["objsig"]) else [])
                if bad:
                    fail("compute_all_ranks returns a rank different from the Z-rank", {bad[0]: gotp.get(bad[0])},
                         {bad[0]: want.get(proj(case, bad[0])) if bad[0] else "one rank per world of the signature"}, "wrong rank")
                    break
                continue
            if got != want:
                bad = [w for w in worlds if got.get(w) != want[w]][0]
                fail("compute_all_ranks returns a rank different from the Z-rank", {bad: got.get(bad)}, {bad: want[bad]}, "wrong rank")
                break
        elif op[0] == "accept":
            if got != (acc_s[op[1]] == "1"):
                fail("conditional_acceptance asked on a partially computed object differs from rank comparison",
                     {"query": case["queries"][op[1]], "got": got}, acc_s[op[1]] == "1", "wrong acceptance")
                break
        elif got != want[proj(case, op[1])]:
            fail(f"rank_world ({op[0]}) returns a rank different from the Z-rank", {op[1]: got}, {op[1]: want[proj(case, op[1])]}, "wrong rank")
            break
    if case.get("objsig"):
        badf = [w for w, r in impl["final"].items() if r != want[proj(case, w)]]
        if badf and not fails:
            fail("final ranks differ from the Z-rank", {badf[0]: impl["final"][badf[0]]}, {badf[0]: want[proj(case, badf[0])]}, "wrong rank")
    elif impl["final"] != want and not fails:
        bad = [w for w in worlds if impl["final"].get(w) != want[w]][0]
        fail("final ranks differ from the Z-rank", {bad: impl["final"].get(bad)}, {bad: want[bad]}, "wrong rank")
    for i, (g, w) in enumerate(zip(impl["accept"], acc_s)):
        if g != (w == "1"):
            fail("conditional_acceptance differs from rank comparison", {"query": case["queries"][i], "got": g}, w == "1", "wrong acceptance")
            break
    # acceptance vs the implementation's System Z operator, where the antecedent has a feasible model
    if impl.get("op") is not None:
        for i, (g, o, flag) in enumerate(zip(impl["accept"], impl["op"], ops_s)):
            if flag != "x" and g != o:
                fail("acceptance verdict differs from the System Z operator's answer", {"query": case["queries"][i], "accept": g, "operator": o},
                     "equal", "ranking object and operator disagree")
                break
    # accepts every conditional of the base outside the infinity layer: rank(AB) < rank(A!B) by the driver's ranks
    W = core.all_worlds(case["n"])
    conds = {k: (b, a) for k, b, a in case["base"]}
    top = max(want.values()) if case["mode_ext"] else None
    for k, c in conds.items():
        wl = [(w, want["".join("1" if w[i] else "0" for i in range(case["n"]))]) for w in W]
        v = [r for w, r in wl if core.c_ver(c, w)]
        f = [r for w, r in wl if core.c_fal(c, w)]
        in_inf = case["mode_ext"] and (not v or (f and min(v) >= min(f)))
        if not in_inf and not impl["base_accept"].get(k, False):
            fail("a conditional of the base outside the infinity layer is not accepted", {"key": k}, True, "base conditional rejected")
            break
    return fails


def recheck(case):
    impl = impl_eval(case)
    resp = core.driver_batch([driver_line(case)])[0]
    fs = compare(case, impl, resp)
    return fs[0] if fs else None


def run(ctx):
    from check import pmap

    quick = ctx.tier == "quick"
    rng = ctx.rng
    raw = answers.load_corpus("C16")
    cases = list(raw)
    gen = answers.gen_cases(ctx, 200 if quick else 4000, (1, 5), (1, 6), [False, True], want=("ok",), q_per=6, consts=0.1, ties=0.2, big=0.1)
    for c in gen:
        c = {k: v for k, v in c.items() if not k.startswith("_")}
        n = c["n"] = c["sig"]  # ranking objects range over the signature only
        # queries must stay inside the signature
        c["queries"] = [[k, b, a] for k, b, a in c["queries"] if not ({x for x in core.f_atoms(b) | core.f_atoms(a)} - set(range(n)))]
        facts = []
        r = rng.random()
        if r < 0.45:
            facts = [core.gen_formula(rng, n, 2, 0.03) for _ in range(rng.randint(1, 2))]
            if n >= 6 and rng.random() < 0.6:
                # a fact of tree height >= 5: a long clause / conjunction over six atoms
                facts[0] = core.deep_chain(rng, rng.sample(range(n), 6), op=rng.choice(["|", "|", "&"]), pos=0.6)[0]
        if facts:
            extended = rng.choice([None, True, None, False])
            mode_ext = True if extended is None else extended
        else:
            extended = True if c["weakly"] else rng.choice([None, False])
            mode_ext = bool(extended)
        # conditionals may carry any distinct keys (gapped after removals, 0-based, sparse)
        if rng.random() < 0.5:
            style = rng.random()
            k = len(c["base"])
            if style < 0.4:
                keys = sorted(rng.sample(range(1, k + 3), k))          # gaps right above the base size
            elif style < 0.7:
                keys = sorted(rng.sample(range(0, 3 * k + 2), k))
            else:
                keys = rng.sample(range(0, 2 * k + 2), k)
            c["base"] = [[kk, b, a] for kk, (_, b, a) in zip(keys, c["base"])]
        worlds = lean_order_worlds(n)
        objsig = None
        if rng.random() < 0.25 and n <= 5:
            # the object lives over an explicit signature: the base's atoms reordered, sometimes with an extra atom
            objsig = list(core.names_for(n))
            rng.shuffle(objsig)
            if rng.random() < 0.4:
                objsig.insert(rng.randint(0, len(objsig)), "zz")
            worlds = lean_order_worlds(len(objsig))
        ops = []
        for _ in range(rng.randint(2, 2 ** n + 2)):
            t = rng.random()
            if t < 0.12:
                ops.append(["all"])
            elif t < 0.27 and c["queries"]:
                ops.append(["accept", rng.randrange(len(c["queries"]))])
            elif t < 0.42:
                ops.append(["force", rng.choice(worlds)])
            else:
                ops.append(["lazy", rng.choice(worlds)])
        if rng.random() < 0.25:
            # the same few worlds ranked lazily and then recomputed again and again (more rank computations than there are worlds
            # while most worlds are still unranked), acceptance asked in between and afterwards
            few = rng.sample(worlds, min(len(worlds), rng.randint(1, 3)))
            ops = [["lazy", w] for w in few]
            total = len(worlds) + rng.randint(0, 3)
            while len(ops) < total:
                ops.append(["force", rng.choice(few)])
                if c["queries"] and rng.random() < 0.15:
                    ops.append(["accept", rng.randrange(len(c["queries"]))])
            for qi in range(len(c["queries"])):
                ops.append(["accept", qi])
            if rng.random() < 0.5:
                ops.append(["lazy", rng.choice(worlds)])
        cases.append({"n": n, "base": c["base"], "facts": facts, "fact_forms": [rng.choice(["pysmt", "text", "textmin"]) for _ in facts], "extended": extended, "mode_ext": mode_ext, "ops": ops, "queries": c["queries"], "objsig": objsig})
    impls = pmap(impl_eval, cases, ctx.procs)
    resps = core.driver_batch([driver_line(c) for c in cases])
    for c, impl, resp in zip(cases, impls, resps):
        ctx.evaluations += len(c["ops"]) + len(c["queries"])
        ctx.bump(f"facts={len(c['facts'])}")
        if c.get("objsig"):
            ctx.bump("explicit_signature=" + ("extended" if len(c["objsig"]) > c["n"] else "reordered"))
        for fm in c.get("fact_forms") or []:
            ctx.bump(f"fact_form={fm}")
        ctx.bump(f"mode={'extended' if c['mode_ext'] else 'strict'}")
        ctx.bump("combination=" + ("no-partition" if resp == "none" else "ok"))
        if resp != "none":
            ranks = [int(x) for x in resp.split("|")[0].split(" ")]
            ctx.bump(f"max_rank={max(ranks)}")
            if max(ranks) >= 2 or c["facts"]:
                ctx.nontrivial.add(hash(json.dumps([c["base"], c["facts"], c["mode_ext"]])))
            ctx.bump("queries_with_feasible_antecedent", sum(1 for ch in resp.split("|")[2] if ch != "x"))
        names = core.names_for(c["n"])
        ctx.sample({"base": [core.cond_text((b, a), names) for _, b, a in c["base"]], "facts": [core.f_text(f, names) for f in c["facts"]],
                    "extended": c["extended"], "ops": c["ops"][:4], "driver": resp[:80]})
        for f in compare(c, impl, resp):
            ctx.fail(f, lambda f: core.generic_shrink(f, recheck, fields=("base", "queries", "ops", "facts"), budget=30))
