"""C06 consistency verdicts, partitions (object and key variants), diagnostics flags, operator refusal."""
from __future__ import annotations

import json
import warnings

import core
from props import answers

THEOREMS = ["InfOCF.C06_none_iff", "InfOCF.C06_greedy", "InfOCF.C06_layer_spec", "InfOCF.C06_unique", "InfOCF.C06_ext",
            "InfOCF.C06_ext_reject", "InfOCF.C06_ext_strict", "InfOCF.C06_last_empty_iff", "InfOCF.C06_diag",
            "InfOCF.C06_facts_in_infinity", "InfOCF.C06_refusal", "InfOCF.tolPart_iff_run", "InfOCF.tolPartExt_iff_run",
            "InfOCF.GreedyRun_det"]
RULE = ("arbitrary random bases (about 1/3 strongly consistent, 1/3 weakly only, 1/3 rejected; constants, duplicates, unverifiable and "
        "unfalsifiable conditionals; arbitrary distinct keys) x both modes: partitions of consistency() and consistency_indices(), "
        "all five diagnostics flags for every (extended, uses_facts) combination with 1-3 random facts, and the refusal class of the five "
        "operators; non-trivial = >= 2 layers, non-empty infinity layer, or rejection; distinct by (base, mode, facts)")
ASSUMPTIONS = ["world enumeration bounds the correspondence to <= 6 atoms; the theorems have no bound"]

OPERATORS = [("p-entailment", "rc2"), ("system-z", "rc2"), ("system-w", "rc2"), ("system-w", "z3"), ("lex_inf", "rc2"),
             ("lex_inf", "z3"), ("c-inference", "rc2")]


def keyed(lst):
    return [(k, (b, a)) for k, b, a in lst]


def impl_eval(case):
    from inference.consistency_diagnostics import consistency_diagnostics
    from inference.consistency_sat import consistency, consistency_indices

    names = core.names_for(case["n"])
    out = {}
    try:
        bb = core.make_bb(names, keyed(case["base"]))
        ident = {id(c): k for k, c in bb.conditionals.items()}
        with warnings.catch_warnings():
            warnings.simplefilter("ignore")
            p1 = consistency(bb, "z3", case["weakly"])[0]
            p2 = consistency_indices(bb, "z3", case["weakly"])[0]
        out["obj"] = None if p1 is False else [[ident[id(c)] for c in L] for L in p1]
        out["idx"] = None if p2 is False else [list(L) for L in p2]
    except Exception as e:  # noqa: BLE001
        out["part_err"] = f"{type(e).__name__}: {e}"[:200]
    out["diag"] = {}
    for ext in (False, True):
        for uf in (False, True):
            if uf and not case["facts"]:
                continue
            try:
                bb = core.make_bb(names, keyed(case["base"]))
                forms = case.get("fact_forms") or ["pysmt"] * len(case["facts"])
                facts = [core.fact_arg(f, names, fm) for f, fm in zip(case["facts"], forms)] if uf else None
                with warnings.catch_warnings():
                    warnings.simplefilter("ignore")
                    d = consistency_diagnostics(bb, extended=ext, uses_facts=uf, facts=facts, on_inconsistent="silent")
                out["diag"][f"{int(ext)}{int(uf)}"] = [d.get("facts_consistent"), d.get("belief_base_consistent"),
                                                       d.get("belief_base_weakly_consistent"), d.get("combination_consistent"),
                                                       d.get("combination_infinity_increase")]
            except Exception as e:  # noqa: BLE001
                out["diag"][f"{int(ext)}{int(uf)}"] = f"{type(e).__name__}: {e}"[:200]
    # refusal
    out["ops"] = {}
    if case.get("ask_ops"):
        q = [(1, (("a", 0), ("T",)))]
        for system, pm in OPERATORS:
            if system == "c-inference" and case["weakly"]:
                continue
            out["ops"][f"{system}/{pm}"] = list(core.impl_answers(names, keyed(case["base"]), q, system, weakly=case["weakly"], pmaxsat=pm))[:2]
    return out


def driver_lines(case):
    n, wk = case["n"], 1 if case["weakly"] else 0
    base = core.conds_line(keyed(case["base"]))
    lines = [f"part {n} {wk} {base}"]
    tags = ["part"]
    for ext in (0, 1):
        for uf in (0, 1):
            if uf and not case["facts"]:
                continue
            facts = case["facts"] if uf else []
            lines.append(f"diag {n} {ext} {uf} {base} {len(facts)} " + " ".join(core.f_prefix(f) for f in facts))
            tags.append(f"{ext}{uf}")
    return lines, tags


def parse_part(resp):
    if resp == "none":
        return None
    layers = resp.split(";")[:-1]
    return [[int(x) for x in L.split(",")] if L else [] for L in layers]


def parse_diag(resp):
    m = resp.split("/")[1]  # the definition side
    return [None if ch == "-" else ch == "1" for ch in m]


def compare(case, impl, model):
    fails = []
    part = model["part"]
    base_case = {k: case[k] for k in ("n", "weakly", "base", "facts")}
    if "part_err" in impl:
        fails.append({"case": dict(base_case, obs="partition"), "impl": impl["part_err"], "spec": part,
                      "signature": "consistency raised " + impl["part_err"].split(":")[0], "what": "consistency test raised"})
    else:
        for variant in ("obj", "idx"):
            if impl[variant] != part:
                kind = ("reported inconsistent but a partition exists" if impl[variant] is None else
                        "returned a partition for an inconsistent base" if part is None else "partition differs from the greedy maximal one")
                fails.append({"case": dict(base_case, obs=f"partition/{variant}"), "impl": impl[variant], "spec": part,
                              "signature": f"{'consistency' if variant == 'obj' else 'consistency_indices'} weakly={case['weakly']}: {kind}",
                              "what": kind})
    for tag, want in model["diag"].items():
        got = impl["diag"].get(tag)
        if got != want:
            fl = ["facts_consistent", "belief_base_consistent", "belief_base_weakly_consistent", "combination_consistent", "combination_infinity_increase"]
            which = [fl[i] for i in range(5) if isinstance(got, list) and got[i] != want[i]] or ["exception"]
            fails.append({"case": dict(base_case, obs=f"diagnostics ext={tag[0]} uses_facts={tag[1]}"), "impl": got, "spec": want,
                          "signature": f"diagnostics ext={tag[0]} uses_facts={tag[1]}: {','.join(which)} wrong",
                          "what": "diagnostics flag differs from its definition"})
    if case.get("ask_ops"):
        want = "empty" if not case["base"] else ("inconsistent" if part is None else None)
        for cfg, r in impl["ops"].items():
            if want is None:
                # C06 only speaks about refusing unacceptable bases; exceptions on acceptable bases belong to C05/C07/C12
                if r[0] == "err" and r[1] in ("empty", "inconsistent"):
                    fails.append({"case": dict(base_case, obs=f"refusal {cfg}"), "impl": r, "spec": "answers",
                                  "signature": f"{cfg}: refused an acceptable base as {r[1]}", "what": "operator refused an acceptable base"})
            elif not (r[0] == "err" and r[1] == want):
                fails.append({"case": dict(base_case, obs=f"refusal {cfg}"), "impl": r, "spec": f"refuse:{want}",
                              "signature": f"{cfg}: expected refusal {want}, got {r[0]}:{r[1] if r[0] == 'err' else 'answers'}",
                              "what": "operator did not refuse an unacceptable base"})
    return fails


def evaluate(cases, procs):
    from check import pmap

    impls = pmap(impl_eval, cases, procs)
    lines, index = [], []
    for i, c in enumerate(cases):
        ls, tags = driver_lines(c)
        for l, t in zip(ls, tags):
            lines.append(l)
            index.append((i, t))
    resps = core.driver_batch(lines)
    models = [{"part": None, "diag": {}} for _ in cases]
    for (i, t), r in zip(index, resps):
        if t == "part":
            models[i]["part"] = parse_part(r)
        else:
            models[i]["diag"][t] = parse_diag(r)
    return impls, models


def recheck(case):
    c = dict(case)
    c["ask_ops"] = case.get("obs", "").startswith("refusal") or case.get("ask_ops", False)
    impls, models = evaluate([c], 1)
    fs = compare(c, impls[0], models[0])
    want = case.get("obs")
    for f in fs:
        if want is None or f["case"].get("obs") == want:
            return f
    return fs[0] if fs and want is None else None


def shrink(fail, budget=80):
    sig = fail["signature"]
    best = fail
    progress = True
    while progress and budget > 0:
        progress = False
        case = best["case"]
        cands = []
        for i in range(len(case["base"])):
            cands.append(dict(case, base=case["base"][:i] + case["base"][i + 1:]))
        for i in range(len(case["facts"])):
            if len(case["facts"]) > 1:
                cands.append(dict(case, facts=case["facts"][:i] + case["facts"][i + 1:]))
        for i, (k, b, a) in enumerate(case["base"]):
            for pos, fm in ((1, b), (2, a)):
                for g in answers._subformulas(fm):
                    item = [k, b, a]
                    item[pos] = g
                    lst = list(case["base"])
                    lst[i] = item
                    cands.append(dict(case, base=lst))
        for c2 in cands:
            if budget <= 0:
                break
            budget -= 1
            try:
                f = recheck(c2)
            except Exception:  # noqa: BLE001
                continue
            if f and f["signature"] == sig:
                best, progress = f, True
                break
    return best


def run(ctx):
    rng = ctx.rng
    count = 400 if ctx.tier == "quick" else 8000
    cases = answers.load_corpus("C06")
    # the empty base
    cases.append({"n": 1, "weakly": False, "base": [], "facts": [], "ask_ops": True})
    cases.append({"n": 1, "weakly": True, "base": [], "facts": [], "ask_ops": True})
    for _ in range(count):
        n = rng.randint(1, 5)
        k = rng.randint(1, 7)
        conds = core.gen_base(rng, n, k, depth=2, consts=0.12, dup=0.1)
        r = rng.random()
        if r < 0.35:
            # push towards weakly-only / inconsistent: unverifiable or contradictory conditionals
            for _j in range(rng.randint(1, 2)):
                a = core.gen_formula(rng, n, 1, 0.05)
                kind = rng.random()
                if kind < 0.4:
                    conds.append((("F",), a))
                elif kind < 0.7:
                    b = core.gen_formula(rng, n, 1, 0.0)
                    conds.append((b, a))
                    conds.append((("!", b), a))
                else:
                    conds.append((("!", a), a))
            rng.shuffle(conds)
        if rng.random() < 0.06:
            # larger bases: 6-7 atoms, 8-12 conditionals, several layers, a long conjunction chain as antecedent
            n = rng.randint(6, 7)
            conds = (core.gen_chain_case(rng, n) if rng.random() < 0.6 else core.gen_tie_case(rng, n))[0]
            while len(conds) < rng.randint(8, 12):
                conds.append(core.gen_cond(rng, n, 1, 0.0))
            if rng.random() < 0.6:
                conds.append((core.gen_formula(rng, n, 0, 0.0), core.deep_chain(rng, rng.sample(range(n), 6))[0]))
            if rng.random() < 0.3:
                a = core.gen_formula(rng, n, 1, 0.0)
                conds.append((("F",), a))
            rng.shuffle(conds)
        keys = rng.sample(range(1, 40), len(conds)) if rng.random() < 0.3 else list(range(1, len(conds) + 1))
        facts = [core.gen_formula(rng, n, 2, 0.05) for _ in range(rng.randint(0, 3))]
        cases.append({"n": n, "weakly": rng.random() < 0.5, "base": [[kk, c[0], c[1]] for kk, c in zip(keys, conds)],
                      "facts": facts, "fact_forms": [rng.choice(["pysmt", "text", "textmin"]) for _ in facts], "ask_ops": rng.random() < 0.35})
    impls, models = evaluate(cases, ctx.procs)
    for c, impl, model in zip(cases, impls, models):
        ctx.evaluations += 2 + len(model["diag"]) + len(impl["ops"])
        part = model["part"]
        W = core.all_worlds(c["n"])
        conds = [(b, a) for _, b, a in c["base"]]
        ps = core.py_partition(conds, W, False)
        pe = core.py_partition(conds, W, True)
        status = "strongly" if ps is not None else ("weakly-only" if pe is not None else "rejected")
        ctx.bump(f"status={status}")
        ctx.bump(f"mode={'extended' if c['weakly'] else 'strict'}")
        ctx.bump(f"layers={'none' if part is None else len(part)}")
        ctx.bump(f"facts={len(c['facts'])}")
        if c.get("ask_ops"):
            ctx.bump("refusal_asked")
        nontriv = part is None or len(part) - (1 if c["weakly"] else 0) >= 2 or (c["weakly"] and part and part[-1])
        if nontriv:
            ctx.nontrivial.add(hash(json.dumps([c["base"], c["weakly"], c["facts"]], sort_keys=True)))
        names = core.names_for(c["n"])
        ctx.sample({"base": [f"{k}:" + core.cond_text((b, a), names) for k, b, a in c["base"]], "weakly": c["weakly"],
                    "facts": [core.f_text(f, names) for f in c["facts"]], "partition": part, "diag": impl["diag"]})
        for f in compare(c, impl, model):
            ctx.fail(f, shrink)
