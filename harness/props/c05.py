"""C05 c-inference equals skeptical inference over all c-representations."""
from __future__ import annotations

import json
import warnings

import core
from props import answers, ccert

THEOREMS = ["InfOCF.C05_main", "InfOCF.C05_base_iff", "InfOCF.C05_query_iff", "InfOCF.C05_accepts_iff_compiled",
            "InfOCF.C05_unfalsifiable", "InfOCF.C05_verifying_cost", "InfOCF.C05_falsifying_cost", "InfOCF.leastCost_famMin",
            "InfOCF.min_famMin", "InfOCF.minimaEnc_iff", "InfOCF.minimaEnc_nil", "InfOCF.C08_P_le_C", "InfOCF.C05_cert_sound",
            "InfOCF.farkas_sound", "InfOCF.C05_cert_no_counter_model"]
RULE = ("random strongly consistent bases (1-4 atoms, 1-5 conditionals; constants, duplicates, unfalsifiable conditionals, ties) x 6 queries "
        "through InferenceManager('c-inference'). For every answer a counter-model (a c-representation that does not accept the query) is "
        "searched twice independently: exhaustively in the cube [0..3]^k by the driver, and by z3 on the definitional constraint system "
        "over all worlds; every candidate is CHECKED by the driver (non-negative, accepts the base, rejects the query). An answer False "
        "needs a certified counter-model, an answer True must have none AND gets a refutation certificate: for every choice of the "
        "minimal sets in the compiled system a non-negative combination of its linear inequalities (multipliers found by z3 used as an "
        "LP solver) which the driver checks with cCertCheck (theorem C05_cert_sound: accepted certificate => every c-representation "
        "accepts the query); plus the sandwich p <= c <= W with both ends from the driver; "
        "non-trivial = contingent query on a base with >= 2 conditionals; distinct by (base, query)")
ASSUMPTIONS = ["answers False: the counter-model is certified by the Lean driver; answers True: certified by a Lean-checked refutation "
               "certificate (counted as true_certified); only for the answers counted as true_uncertified (more than 400 choice "
               "combinations, or the multiplier search gave up) the direction 'True and no counter-model exists' rests on z3 reporting the "
               "definitional system unsatisfiable plus the exhaustive cube search"]

CUBE = 3


def impl_eval(case):
    from inference.inference_manager import InferenceManager

    names = core.names_for(case["n"])
    out = {}
    try:
        bb = core.make_bb(names, answers.keyed(case["base"]))
        with warnings.catch_warnings():
            warnings.simplefilter("ignore")
            man = InferenceManager(bb, "c-inference")
            if case.get("warmup") and case["queries"]:
                man.inference(core.make_queries(names, answers.keyed(case["queries"][:1])))
            df = man.inference(core.make_queries(names, answers.keyed(case["queries"])))
        out["answers"] = [bool(x) for x in df["result"]]
        out["vMin"] = {str(k): sorted(sorted(x) for x in v) for k, v in man.epistemic_state["vMin"].items()}
        out["fMin"] = {str(k): sorted(sorted(x) for x in v) for k, v in man.epistemic_state["fMin"].items()}
    except AssertionError as e:
        out["refused"] = str(e)[:100]
    except Exception as e:  # noqa: BLE001
        out["err"] = f"{type(e).__name__}: {e}"[:200]
        return out
    # z3 search on the definitional system (never a verdict: every model found is checked by the driver)
    try:
        import z3

        n = case["n"]
        W = core.all_worlds(n)
        conds = [(b, a) for _, b, a in case["base"]]
        eta = [z3.Int(f"e{i}") for i in range(len(conds))]
        kap = [z3.Sum([eta[i] for i, c in enumerate(conds) if core.c_fal(c, w)] + [z3.IntVal(0)]) for w in W]

        def accept(c):
            V = [j for j, w in enumerate(W) if core.c_ver(c, w)]
            F = [j for j, w in enumerate(W) if core.c_fal(c, w)]
            return z3.Or([z3.And([kap[v] < kap[f] for f in F] + [z3.BoolVal(True)]) for v in V] + [z3.BoolVal(False)])

        base = [e >= 0 for e in eta] + [accept(c) for c in conds]
        wit = []
        for _, b, a in case["queries"]:
            s = z3.Solver()
            s.set("timeout", 20000)
            s.add(*base)
            s.add(z3.Not(accept((b, a))))
            r = s.check()
            if r == z3.sat:
                m = s.model()
                wit.append([m.eval(e, model_completion=True).as_long() for e in eta])
            elif r == z3.unsat:
                wit.append(None)
            else:
                wit.append("unknown")
        out["witness"] = wit
    except Exception as e:  # noqa: BLE001
        out["witness_err"] = f"{type(e).__name__}: {e}"[:200]
    return out


def driver_lines(case, impl):
    n = case["n"]
    D = core.conds_line(answers.keyed(case["base"]))
    Q = core.conds_line(answers.keyed(case["queries"]))
    lines = [f"csearch {n} {CUBE} {D} {Q}", f"ans {n} 0 {D} {Q}", f"ctab {n} {D} {Q}"]
    tags = ["cube", "ans", "ctab"]
    for i, w in enumerate(impl.get("witness") or []):
        if isinstance(w, list):
            q = case["queries"][i]
            lines.append(f"crep {n} {D} 1 {core.cond_prefix(q[0], (q[1], q[2]))} " + " ".join(str(x) for x in w))
            tags.append(("wit", i))
    return lines, tags


def compare(case, impl, resp, tags):
    fails = []

    def fail(sig, got, want, qi=None):
        c = dict(case)
        if qi is not None:
            c["queries"] = [case["queries"][qi]]
        fails.append({"case": c, "impl": got, "spec": want, "signature": "c-inference: " + sig, "what": sig, "theorem": "InfOCF.C05_*"})

    if "err" in impl:
        fail("raised " + impl["err"].split(":")[0] + " on a strongly consistent base", impl["err"], "answers")
        return fails
    if "refused" in impl:
        fail("refused a strongly consistent base", impl["refused"], "answers")
        return fails
    cube = resp[tags.index("cube")]
    anyrep, per = cube.split("|")
    per = per.split(" ")
    kind, rows = answers.decode(resp[tags.index("ans")], len(case["queries"]))
    certified = {}
    cert_true, cert_cm = {}, {}
    for t, r in zip(tags, resp):
        if isinstance(t, tuple) and t[0] == "wit":
            isrep, acc, _pareto, _ranks = r.split("|")
            certified[t[1]] = (isrep == "1" and acc == "0")
        elif isinstance(t, tuple) and t[0] == "cert":
            cert_true[t[1]] = (r == "1")
        elif isinstance(t, tuple) and t[0] == "certcm":
            isrep, acc, _pareto, _ranks = r.split("|")
            cert_cm[t[1]] = (isrep == "1" and acc == "0")
    impl["cert_true"] = cert_true
    W = core.all_worlds(case["n"])
    for i, (q, a) in enumerate(zip(case["queries"], impl["answers"])):
        qk = answers.query_kind(case, q, W)
        cube_cm = per[i].startswith("1")
        z3w = (impl.get("witness") or [None] * len(per))[i]
        z3_cm = certified.get(i, False)
        if isinstance(z3w, list) and not z3_cm:
            # z3's model failed the driver's check: a problem of the witness search, not of the implementation
            pass
        if qk in ("A-unsat", "AnotB-unsat"):
            if not a:
                fail("answers False to a query whose falsification is unsatisfiable", a, True, i)
            continue
        if a and cert_cm.get(i) and not (cube_cm or z3_cm):
            fail("answers True although a c-representation rejects the query",
                 {"answer": a, "counter_model_impacts": impl["cert"][i]["eta"]}, False, i)
        elif a and (cube_cm or z3_cm):
            cm = per[i][2:] if cube_cm else z3w
            fail("answers True although a c-representation rejects the query", {"answer": a, "counter_model_impacts": cm}, False, i)
        elif not a and not (cube_cm or z3_cm):
            if z3w is None:
                fail("answers False although no c-representation rejects the query (cube search empty, definitional system unsatisfiable)",
                     a, True, i)
        if kind == "ok":
            p, w = rows[i][0], rows[i][2]
            if p and not a:
                fail("p-entailment infers the query but c-inference does not", {"p": p, "c": a}, "p <= c", i)
            if a and not w:
                fail("c-inference infers the query but System W does not", {"c": a, "w": w}, "c <= W", i)
    return fails


def evaluate(cases, procs):
    from check import pmap

    impls = pmap(impl_eval, cases, procs)
    lines, per = [], []
    for c, impl in zip(cases, impls):
        if "answers" in impl:
            ls, tags = driver_lines(c, impl)
        else:
            ls, tags = [], []
        per.append((len(lines), len(ls), tags))
        lines += ls
    resp = core.driver_batch(lines)
    out = [(resp[o:o + l], t) for o, l, t in per]
    # second round: refutation certificates for the answers True (multipliers from z3, check by the driver)
    from check import pmap as _pmap

    jobs = [(c, impl, r[t.index("ctab")]) for c, impl, (r, t) in zip(cases, impls, out) if "answers" in impl]
    certs = _pmap(_cert_job, jobs, procs)
    lines2, where = [], []
    ci = 0
    for idx, (c, impl) in enumerate(zip(cases, impls)):
        if "answers" not in impl:
            continue
        cert = certs[ci]
        ci += 1
        impl["cert"] = {i: {k: v for k, v in x.items() if k != "pool"} for i, x in cert.items()}
        D = core.conds_line(answers.keyed(c["base"]))
        for i, x in cert.items():
            q = c["queries"][i]
            qp = core.cond_prefix(q[0], (q[1], q[2]))
            if x["status"] == "ok":
                lines2.append(f"ccert {c['n']} {D} 1 {qp} {ccert.pool_text(x['pool'])}")
                where.append((idx, ("cert", i)))
            elif x["status"] == "counter":
                lines2.append(f"crep {c['n']} {D} 1 {qp} " + " ".join(str(v) for v in x["eta"]))
                where.append((idx, ("certcm", i)))
    resp2 = core.driver_batch(lines2)
    for (idx, tag), r in zip(where, resp2):
        out[idx][0].append(r)
        out[idx][1].append(tag)
    return impls, out


def _cert_job(job):
    case, impl, ctab_resp = job
    rows, qfam = ccert.parse_ctab(ctab_resp)
    res = {}
    for i, a in enumerate(impl["answers"]):
        if a and i < len(qfam) and qfam[i][1]:
            try:
                res[i] = ccert.build_cert(len(case["base"]), rows, qfam[i][0], qfam[i][1])
            except Exception as e:  # noqa: BLE001
                res[i] = {"status": "unknown", "pool": [], "choices": 0, "err": f"{type(e).__name__}: {e}"[:120]}
    return res


def recheck(case):
    impls, resps = evaluate([case], 1)
    fs = compare(case, impls[0], resps[0][0], resps[0][1])
    return fs[0] if fs else None


def shrink(fail, budget=20):
    sig = fail["signature"]
    best = fail
    progress = True
    while progress and budget > 0:
        progress = False
        case = best["case"]
        for i in range(len(case["base"])):
            if len(case["base"]) <= 1 or budget <= 0:
                break
            budget -= 1
            try:
                f = recheck(dict(case, base=case["base"][:i] + case["base"][i + 1:]))
            except Exception:  # noqa: BLE001
                f = None
            if f and f["signature"] == sig:
                best, progress = f, True
                break
    return best


def gen(ctx, count):
    rng = ctx.rng
    cases = answers.gen_cases(ctx, count, (1, 4), (1, 5), [False], ties=0.35, q_per=6, consts=0.1, conj=0.2, subs=0.15)
    out = []
    for c in cases:
        c = {k: v for k, v in c.items() if not k.startswith("_")}
        # unfalsifiable conditionals (a|a), (Top|x) mixed in
        if rng.random() < 0.25:
            a = core.gen_formula(rng, c["sig"], 1, 0.0)
            extra = rng.choice([(a, a), (("T",), a), (("|", a, ("!", a)), ("T",))])
            c["base"] = c["base"] + [[len(c["base"]) + 1, extra[0], extra[1]]]
        if c["sig"] >= 3 and rng.random() < 0.2 and c["base"]:
            # a programmatically built conditional with a three-member conjunction / disjunction (may become one n-ary connective)
            j = rng.randrange(len(c["base"]))
            x, y, z = [("a", a_) if rng.random() < 0.7 else ("!", ("a", a_)) for a_ in rng.sample(range(c["sig"]), 3)]
            op = rng.choice(["&", "|"])
            chain = (op, (op, x, y), z)
            k_, b_, a_ = c["base"][j]
            c["base"][j] = [k_, chain, a_] if rng.random() < 0.5 else [k_, b_, chain]
        if len(c["base"]) > 5:
            c["base"] = c["base"][:5]
        if answers.classify(c)["status"] != "ok":
            continue
        # any distinct integer keys: parser style 1..n, 0-based, sparse, not ascending
        r = rng.random()
        k = len(c["base"])
        if r < 0.2:
            keys = list(range(k))
        elif r < 0.5:
            # one- and two-digit keys mixed; half of the time from a pool where one key is a decimal prefix of another
            keys = rng.sample([1, 10, 11, 12, 13, 2, 20, 21, 3, 30, 0], k) if rng.random() < 0.5 else rng.sample(range(0, 25), k)
        else:
            keys = None
        if keys is not None:
            c["base"] = [[kk, b, a] for kk, (_, b, a) in zip(keys, c["base"])]
            c["rekeyed"] = True
        c["warmup"] = rng.random() < 0.5     # the batch is then the second call on its manager
        out.append(c)
    return out


def run(ctx):
    quick = ctx.tier == "quick"
    cases = [c for c in answers.load_corpus("C05")] + gen(ctx, 170 if quick else 2500)
    impls, resps = evaluate(cases, ctx.procs)
    for c, impl, (resp, tags) in zip(cases, impls, resps):
        ctx.evaluations += len(c["queries"])
        ctx.bump(f"conds={len(c['base'])}")
        if c.get("rekeyed"):
            ctx.bump("keys_0_based_or_sparse")
        W = core.all_worlds(c["n"])
        conds = [(b, a) for _, b, a in c["base"]]
        if any(not any(core.c_fal(cd, w) for w in W) for cd in conds):
            ctx.bump("base_with_unfalsifiable_conditional")
        if "answers" in impl:
            for q, a in zip(c["queries"], impl["answers"]):
                qk = answers.query_kind(c, q, W)
                ctx.bump(f"query={qk}")
                ctx.bump(f"answer={'T' if a else 'F'}")
                if qk == "contingent" and len(c["base"]) >= 2:
                    ctx.nontrivial.add(hash(json.dumps([c["base"], q[1:]])))
            per = resp[tags.index("cube")].split("|")[1].split(" ")
            ctx.bump("counter_models_in_cube", sum(1 for x in per if x.startswith("1")))
            ctx.bump("counter_models_z3_certified", sum(1 for t, r in zip(tags, resp) if isinstance(t, tuple) and t[0] == "wit" and r.startswith("1|0")))
            names = core.names_for(c["n"])
            ctx.sample({"base": [core.cond_text((b, a), names) for _, b, a in c["base"]],
                        "queries": [core.cond_text((b, a), names) for _, b, a in c["queries"]], "answers": impl["answers"],
                        "cube": resp[tags.index("cube")], "vMin": impl.get("vMin"), "fMin": impl.get("fMin")})
        fs = compare(c, impl, resp, tags)
        for i, x in (impl.get("cert") or {}).items():
            if x["status"] == "ok":
                ctx.bump("true_certified" if impl.get("cert_true", {}).get(i) else "true_certificate_rejected_by_driver")
                ctx.bump("certificate_choice_combinations", x["choices"])
            elif x["status"] in ("cap", "unknown"):
                ctx.bump("true_uncertified")
                ctx.bump("true_uncertified:" + x["status"])
        for f in fs:
            ctx.fail(f, shrink)
