"""C19 c-revision returns parameters of a ranking that accepts the new conditionals; compilations agree."""
from __future__ import annotations

import json
import warnings

import core
from props import answers
from props.c18 import lean_order_worlds

THEOREMS = ["InfOCF.C19_constraint_iff", "InfOCF.C19_system_iff", "InfOCF.C19_two_sums_wrong", "InfOCF.C19_incremental",
            "InfOCF.C19_fast_eq_alt", "InfOCF.C17_front_loop_exact", "InfOCF.C19_mask_eq_eval", "InfOCF.C19_pareto_box", "InfOCF.C19_zero_prior_is_crep", "InfOCF.C19_none_cert_sound",
            "InfOCF.C19_none_cert_revOk"]
RULE = ("random prior rankings over 1-6 atoms (zero, random, sparse) x 1-4 revision conditionals (literal and compound, duplicates of "
        "antecedents, unfalsifiable and contradictory ones) x gamma modes (gamma+ fixed to zero / free) x fixed-value maps: c_revision's "
        "result is checked by the driver (non-negative integers, fixed values respected, revised ranking accepts every revision "
        "conditional, gamma- Pareto-minimal by the exact box test when gamma+ = 0); a None result is confronted with an exhaustive search of "
        "the cube [0..3]^k; the three compilations (reference, fast, incremental) are compared as multisets; incremental models are driven "
        "through random add/remove sequences and compared with a fresh compilation; non-trivial = >= 2 conditionals and (non-zero prior or "
        "compound formula); distinct by (prior, conditionals, mode); for bases of <= 3 conditionals c_revision_pareto_front (gamma+ = 0, at most 40 "
        "solutions) is enumerated as well: every vector must be accepted and Pareto-minimal by the driver, no vector twice, and the vector "
        "c_revision itself returns must be among them")
ASSUMPTIONS = ["'returns nothing only if no parameters exist' is decided inside the cube [0..3]^k (and [0..2]^2k when gamma+ is free)"]

CUBE = 3


def canon(comp):
    v, f = comp
    def c(d):
        return {str(k): sorted([int(t[0]), sorted(int(x) for x in t[1]), sorted(int(x) for x in t[2])] for t in lst) for k, lst in d.items()}
    return [c(v), c(f)]


def mk_conds(names, R):
    from inference.conditional import Conditional

    out = []
    for k, b, a in R:
        c = Conditional(core.f_pysmt(b, names), core.f_pysmt(a, names), core.cond_text((b, a), names))
        c.index = k
        out.append(c)
    return out


def impl_eval(case):
    from inference.c_revision import c_revision, c_revision_pareto_front, compile_alt, compile_alt_fast
    from inference.c_revision_model import CRevisionModel
    from inference.preocf import PreOCF

    n = case["n"]
    names = core.names_for(n)
    worlds = lean_order_worlds(n)
    out = {}
    try:
        with warnings.catch_warnings():
            warnings.simplefilter("ignore")
            prior = PreOCF.init_custom(dict(zip(worlds, case["ranks"])), signature=list(names))
            conds = mk_conds(names, case["conds"])
            try:
                out["alt"] = canon(compile_alt(prior, conds))
                out["fast"] = canon(compile_alt_fast(prior, conds))
                out["model"] = canon(CRevisionModel(prior, conds).to_compilation())
            except Exception as e:  # noqa: BLE001
                out["compile_err"] = f"{type(e).__name__}: {e}"[:200]
            # incremental history
            hist = []
            try:
                m = CRevisionModel(prior, [])
                cur = {}
                pool = {c.index: c for c in mk_conds(names, case["pool"])}
                pool2 = {c.index: c for c in mk_conds(names, case.get("pool2") or case["pool"])}
                for step in case["history"]:
                    # [op, key, variant, compile_after]: an index may be re-used for a DIFFERENT conditional (variant), and the model
                    # is not compiled after every update (several updates may be pending when it is next asked)
                    op, k = step[0], step[1]
                    variant = step[2] if len(step) > 2 else 0
                    check = step[3] if len(step) > 3 else True
                    if op == "add" and k not in cur:
                        cnd = (pool2 if variant else pool)[k]
                        m.add_conditional(cnd)
                        cur[k] = cnd
                    elif op == "remove":
                        m.remove_conditional(k)
                        cur.pop(k, None)
                    if check:
                        hist.append([canon(m.to_compilation()), canon(compile_alt(prior, list(cur.values())))])
                    else:
                        hist.append(None)
                out["history"] = hist
            except Exception as e:  # noqa: BLE001
                out["history_err"] = f"{type(e).__name__}: {e}"[:200]
            res = []
            for mode in case["modes"]:
                kw = {"gamma_plus_zero": mode["gpz"]}
                if mode.get("fixed_minus"):
                    kw["fixed_gamma_minus"] = {int(k): v for k, v in mode["fixed_minus"].items()}
                if mode.get("fixed_plus"):
                    kw["fixed_gamma_plus"] = {int(k): v for k, v in mode["fixed_plus"].items()}
                if mode.get("use_model"):
                    kw["model"] = CRevisionModel(prior, conds)
                try:
                    r = c_revision(prior, conds, **kw)
                    res.append(("ok", r))
                except Exception as e:  # noqa: BLE001
                    res.append(("err", f"{type(e).__name__}: {e}"[:200]))
            out["results"] = res
            # "returns nothing": build a refutation certificate (multipliers by z3 as an LP search; CHECKED by the driver, rcert)
            try:
                from props import ccert

                wt = [tuple(ch == "1" for ch in w) for w in worlds]
                certs = {}
                for mi, (mode, r) in enumerate(zip(case["modes"], res)):
                    if r[0] == "ok" and r[1] is None and not mode.get("fixed_minus") and not mode.get("fixed_plus"):
                        certs[mi] = ccert.build_none_cert(n, list(case["ranks"]), [(b, a) for _, b, a in case["conds"]], bool(mode["gpz"]), wt)
                out["none_cert"] = certs
            except Exception as e:  # noqa: BLE001
                out["none_cert_err"] = f"{type(e).__name__}: {e}"[:200]
            # the enumerated Pareto front (gamma+ = 0, nothing fixed), bounded
            if case.get("front"):
                import signal

                def _alarm(signum, frame):
                    raise TimeoutError("front enumeration of <= 3 conditionals still running after 120 s")
                old_handler = signal.signal(signal.SIGALRM, _alarm)
                signal.alarm(120)
                try:
                    fr = c_revision_pareto_front(prior, conds, gamma_plus_zero=True, max_solutions=FRONT_MAX)
                    out["front"] = ("ok", [[int(sol.get(f"gamma-_{k}", -1)) for k, _, _ in case["conds"]] for sol in fr])
                except Exception as e:  # noqa: BLE001
                    out["front"] = ("err", f"{type(e).__name__}: {e}"[:200])
                finally:
                    signal.alarm(0)
                    signal.signal(signal.SIGALRM, old_handler)
    except Exception as e:  # noqa: BLE001
        out["err"] = f"{type(e).__name__}: {e}"[:200]
    return out


def driver_lines(case, impl):
    n = case["n"]
    rk = " ".join(str(r) for r in case["ranks"])
    R = core.conds_line([(k, (b, a)) for k, b, a in case["conds"]])
    lines, tags = [], []
    for mi, (mode, res) in enumerate(zip(case["modes"], impl.get("results", []))):
        if res[0] != "ok":
            continue
        if res[1] is None:
            if not mode.get("fixed_minus") and not mode.get("fixed_plus"):
                lines.append(f"crevsearch {n} {CUBE if mode['gpz'] else 2} {1 if mode['gpz'] else 0} {rk} {R}")
                tags.append(("search", mi))
                cert = (impl.get("none_cert") or {}).get(mi)
                if cert and cert["status"] == "ok":
                    from props import ccert
                    lines.append(f"rcert {n} {1 if mode['gpz'] else 0} {rk} {R} {ccert.rpool_text(cert['pool'])}")
                    tags.append(("rcert", mi))
                elif cert and cert["status"] == "counter":
                    lines.append(f"crev {n} {rk} {R} " + " ".join(map(str, cert["gp"])) + " " + " ".join(map(str, cert["gm"])))
                    tags.append(("rcert_cm", mi))
            continue
        d = res[1]
        try:
            gp = [int(d.get(f"gamma+_{k}", 0)) for k, _, _ in case["conds"]]
            gm = [int(d.get(f"gamma-_{k}", 0)) for k, _, _ in case["conds"]]
        except Exception:  # noqa: BLE001
            continue
        if all(x >= 0 for x in gp + gm):
            lines.append(f"crev {n} {rk} {R} " + " ".join(map(str, gp)) + " " + " ".join(map(str, gm)))
            tags.append(("check", mi))
    fr = impl.get("front")
    if fr and fr[0] == "ok":
        zeros = " ".join("0" for _ in case["conds"])
        for j, gm in enumerate(fr[1]):
            if all(x >= 0 for x in gm):
                lines.append(f"crev {n} {rk} {R} {zeros} " + " ".join(map(str, gm)))
                tags.append(("front", j))
    return lines, tags


FRONT_MAX = 40


def compare(case, impl, resp, tags):
    fails = []

    def fail(sig, got, want, mode=None):
        c = dict(case)
        if mode is not None:
            c["modes"] = [mode]
        fails.append({"case": c, "impl": got, "spec": want, "signature": "c-revision: " + sig, "what": sig, "theorem": "InfOCF.C19_*"})

    if "err" in impl:
        fail("harness-level failure " + impl["err"].split(":")[0], impl["err"], "results")
        return fails
    if "compile_err" in impl:
        fail("compilation raised " + impl["compile_err"].split(":")[0], impl["compile_err"], "compilations")
    else:
        if impl["alt"] != impl["fast"]:
            fail("fast compilation differs from the reference compilation", impl["fast"], impl["alt"])
        if impl["alt"] != impl["model"]:
            fail("incremental compilation differs from the reference compilation", impl["model"], impl["alt"])
    if "history_err" in impl:
        fail("incremental model raised " + impl["history_err"].split(":")[0], impl["history_err"], "compilations")
    else:
        for i, pair in enumerate(impl.get("history", [])):
            if pair is None:
                continue
            got, want = pair
            if got != want:
                fail("incremental model after an add/remove sequence differs from a fresh compilation", {"step": i, "got": got}, want)
                break
    # enumerated front: every vector accepted and Pareto-minimal, no vector twice, consistent with c_revision itself
    fr = impl.get("front")
    if fr:
        if fr[0] == "err":
            fail("Pareto front enumeration raised " + fr[1].split(":")[0], fr[1], "a list of vectors")
        else:
            vecs = [tuple(v) for v in fr[1]]
            if len(set(vecs)) != len(vecs):
                fail("Pareto front contains a vector twice", vecs, "distinct vectors")
            for (kind, j), r in zip(tags, resp):
                if kind != "front":
                    continue
                ok, per, pareto, _r = r.split("|")
                if ok != "1":
                    fail("Pareto front contains parameters whose revised ranking does not accept every revision conditional", list(vecs[j]), per)
                    break
                if pareto == "0":
                    fail("Pareto front contains a vector that is not Pareto-minimal", list(vecs[j]), "a smaller vector works")
                    break
            r0 = impl.get("results", [None])[0]
            if r0 and r0[0] == "ok" and case["modes"] and case["modes"][0] == {"gpz": True}:
                if r0[1] is None and vecs:
                    fail("c_revision returns nothing although the Pareto front is not empty", None, vecs)
                elif r0[1] is not None:
                    gm0 = tuple(int(r0[1].get(f"gamma-_{k}", -1)) for k, _, _ in case["conds"])
                    if len(vecs) < FRONT_MAX and gm0 not in vecs:
                        fail("the vector c_revision returns is missing from the enumerated Pareto front", vecs, list(gm0))
    tags, resp = [t for t in tags if t[0] != "front"], [r for t, r in zip(tags, resp) if t[0] != "front"]
    byi = {t[1]: (t[0], r) for t, r in zip(tags, resp) if t[0] in ("search", "check")}
    rc = {t[1]: r for t, r in zip(tags, resp) if t[0] == "rcert"}
    rcm = {t[1]: r for t, r in zip(tags, resp) if t[0] == "rcert_cm"}
    impl["none_certified"] = {mi: (r == "1") for mi, r in rc.items()}
    for mi, (mode, res) in enumerate(zip(case["modes"], impl.get("results", []))):
        label = ("gamma+ = 0" if mode["gpz"] else "gamma+ free") + (", fixed values" if mode.get("fixed_minus") or mode.get("fixed_plus") else "") + \
                (", incremental model" if mode.get("use_model") else "")
        if res[0] == "err":
            fail(f"raised {res[1].split(':')[0]} ({label})", res[1], "parameters or None", mode)
            continue
        d = res[1]
        if d is None:
            if mi in byi and byi[mi][1].startswith("1"):
                fail(f"returns nothing although parameters exist ({label})", None, byi[mi][1], mode)
            elif mi in rcm and rcm[mi].split("|")[0] == "1":
                cert = impl["none_cert"][mi]
                fail(f"returns nothing although parameters exist ({label})", None, {"gamma+": cert["gp"], "gamma-": cert["gm"]}, mode)
            continue
        keys = [k for k, _, _ in case["conds"]]
        vals = {}
        bad = False
        for k in keys:
            for pre in ("gamma+_", "gamma-_"):
                v = d.get(pre + str(k))
                if pre == "gamma+_" and v is None and not mode["gpz"]:
                    v = 0 if v is None else v
                if v is None and pre == "gamma-_":
                    bad = True
                elif v is not None and (not isinstance(v, int) or isinstance(v, bool) or v < 0):
                    bad = True
                vals[pre + str(k)] = v
        if bad:
            fail(f"parameters are not non-negative integers for every conditional ({label})", d, keys, mode)
            continue
        for k, v in (mode.get("fixed_minus") or {}).items():
            if d.get(f"gamma-_{k}") != v:
                fail(f"a fixed gamma- value is not respected ({label})", d, mode, mode)
        for k, v in (mode.get("fixed_plus") or {}).items():
            if d.get(f"gamma+_{k}") != v:
                fail(f"a fixed gamma+ value is not respected ({label})", d, mode, mode)
        if mode["gpz"] and any(d.get(f"gamma+_{k}", 0) != 0 for k in keys if str(k) not in (mode.get("fixed_plus") or {})):
            fail(f"gamma+ is not zero although requested ({label})", d, 0, mode)
        if mi in byi:
            ok, per, pareto, _ranks = byi[mi][1].split("|")
            if ok != "1":
                if mode.get("fixed_minus") or mode.get("fixed_plus"):
                    fail("with fixed gamma values the returned parameters do not make the revised ranking accept every revision conditional",
                         {"parameters": d, "accepted": per}, "all accepted", mode)
                else:
                    fail(f"the revised ranking does not accept every revision conditional ({label})", {"parameters": d, "accepted": per}, "all accepted", mode)
            elif mode["gpz"] and not mode.get("fixed_minus") and not mode.get("fixed_plus") and pareto == "0":
                fail(f"gamma- vector is not Pareto-minimal ({label})", d, "a smaller vector works", mode)
    seen, out = set(), []
    for f in fails:
        if f["signature"] not in seen:
            seen.add(f["signature"])
            out.append(f)
    return out


def _has_fixed(case):
    return any(m.get("fixed_minus") or m.get("fixed_plus") for m in case.get("modes", []))


TRIGGERS = {"fixed_values": _has_fixed}


def evaluate(cases, procs):
    from check import pmap

    impls = pmap(impl_eval, cases, procs)
    lines, per = [], []
    for c, impl in zip(cases, impls):
        ls, tags = driver_lines(c, impl)
        per.append((len(lines), len(ls), tags))
        lines += ls
    resp = core.driver_batch(lines)
    return impls, [(resp[o:o + l], t) for o, l, t in per]


def recheck(case):
    impls, resps = evaluate([case], 1)
    fs = compare(case, impls[0], resps[0][0], resps[0][1])
    return fs[0] if fs else None


def gen_case(rng):
    n = rng.choice([1, 2, 2, 3, 3, 4, 4, 5, 6, 6, 6])
    N = 2 ** n
    style = rng.random()
    if style < 0.35:
        ranks = [0] * N
    elif style < 0.45:
        ranks = [rng.choice([0, 2, 9, 10, 11, 12]) for _ in range(N)]                  # priors with two-digit ranks
    elif style < 0.8:
        ranks = [rng.randint(0, 4) for _ in range(N)]
    else:
        ranks = [rng.choice([0, 0, 5]) for _ in range(N)]
    k = rng.randint(1, 4 if n > 1 else 2)
    keys = rng.sample(range(1, 9), k) if rng.random() < 0.6 else rng.sample([1, 10, 11, 12, 2, 20, 21, 3, 13], k)
    conds = []
    for key in keys:
        r = rng.random()
        if r < 0.5 and n >= 2:
            a, b = rng.sample(range(n), 2)
            cons = ("a", b) if rng.random() < 0.5 else ("!", ("a", b))
            ante = ("a", a) if rng.random() < 0.6 else ("!", ("a", a))
        elif r < 0.6:
            x = core.gen_formula(rng, n, 1, 0.0)
            cons, ante = rng.choice([(x, x), (("T",), x), (("!", x), x)])
        elif r < 0.75 and n >= 5:
            # weak antecedent (tautology or disjunction): many verifying and falsifying worlds
            cons = core.gen_formula(rng, n, 1, 0.0)
            ante = rng.choice([("T",), ("|", ("a", rng.randrange(n)), ("!", ("a", rng.randrange(n)))), core.gen_formula(rng, n, 1, 0.0)])
        else:
            cons, ante = core.gen_cond(rng, n, 2, 0.05)
        conds.append([key, cons, ante])
    if n >= 6:
        # a conditional with more than 32 verifying or falsifying worlds: compound consequent under a tautological antecedent
        a, b = rng.sample(range(n), 2)
        la = ("a", a) if rng.random() < 0.5 else ("!", ("a", a))
        lb = ("a", b) if rng.random() < 0.5 else ("!", ("a", b))
        conds[0] = [conds[0][0], (rng.choice(["|", "&"]), la, lb), rng.choice([("T",), ("|", ("a", a), ("!", ("a", a)))])]
        if rng.random() < 0.8:
            # cheap worlds late in the enumeration order
            ranks = [rng.randint(1, 4) for _ in range(N // 2)] + [rng.randint(0, 2) for _ in range(N - N // 2)]
    modes = [{"gpz": True}, {"gpz": False}]
    if rng.random() < 0.5:
        fk = rng.choice(keys)
        modes.append({"gpz": True, "fixed_minus": {str(fk): rng.randint(0, 3)}})
    if rng.random() < 0.3:
        fk = rng.choice(keys)
        modes.append({"gpz": False, "fixed_plus": {str(fk): rng.randint(0, 2)}})
    if rng.random() < 0.4:
        modes.append({"gpz": rng.random() < 0.5, "use_model": True})
    pool_keys = list(range(1, 7)) if rng.random() < 0.6 else [1, 10, 11, 2, 20, 3]
    pool = []
    for key in pool_keys:
        if n >= 2 and rng.random() < 0.5:
            a, b = rng.sample(range(n), 2)
            pool.append([key, ("a", b) if rng.random() < 0.5 else ("!", ("a", b)), ("a", a)])
        else:
            c = core.gen_cond(rng, n, 2, 0.05)
            pool.append([key, c[0], c[1]])
    pool2 = []
    for key, b, a in pool:
        r = rng.random()
        if r < 0.4:
            pool2.append([key, ("!", b), a])
        elif r < 0.7 and n >= 2:
            x, y = rng.sample(range(n), 2)
            pool2.append([key, ("a", y) if rng.random() < 0.5 else ("!", ("a", y)), ("a", x)])
        else:
            c = core.gen_cond(rng, n, 2, 0.05)
            pool2.append([key, c[0], c[1]])
    hist = []
    live = set()
    steps = rng.randint(2, 9)
    for i in range(steps):
        if live and rng.random() < 0.4:
            k = rng.choice(sorted(live))
            live.discard(k)
            hist.append(["remove", k, 0, rng.random() < 0.45])
            if rng.random() < 0.5:
                # the freed index is taken by a different conditional straight away
                hist.append(["add", k, rng.randrange(2), rng.random() < 0.6])
                live.add(k)
        else:
            k = rng.choice(pool_keys)
            hist.append(["add", k, rng.randrange(2), rng.random() < 0.6])
            live.add(k)
    hist[-1][3] = True
    return {"n": n, "ranks": ranks, "conds": conds, "modes": modes, "pool": pool, "pool2": pool2, "history": hist,
            "front": len(conds) <= 3 and rng.random() < 0.6}


def run(ctx):
    quick = ctx.tier == "quick"
    rng = ctx.rng
    cases = [c for c in answers.load_corpus("C19")]
    for _ in range(120 if quick else 2500):
        cases.append(gen_case(rng))
    impls, resps = evaluate(cases, ctx.procs)
    for c, impl, (resp, tags) in zip(cases, impls, resps):
        ctx.evaluations += len(c["modes"]) + 3 + len(c["history"])
        ctx.bump(f"conds={len(c['conds'])}")
        ctx.bump("prior=" + ("zero" if not any(c["ranks"]) else "nonzero"))
        for mode, res in zip(c["modes"], impl.get("results", [])):
            ctx.bump("result=" + ("error" if res[0] == "err" else "none" if res[1] is None else "parameters"))
        rc_ = {t[1]: r for t, r in zip(tags, resp) if t[0] == "rcert"}
        for mi, cert in (impl.get("none_cert") or {}).items():
            if cert["status"] == "ok":
                ctx.bump("none_certified" if rc_.get(mi) == "1" else "none_certificate_rejected_by_driver")
            else:
                ctx.bump("none_uncertified:" + cert["status"])
        compound = any(core.f_depth(b) + core.f_depth(a) > 1 for _, b, a in c["conds"])
        if len(c["conds"]) >= 2 and (any(c["ranks"]) or compound):
            ctx.nontrivial.add(hash(json.dumps([c["ranks"], c["conds"], c["modes"]])))
        names = core.names_for(c["n"])
        ctx.sample({"prior": dict(zip(lean_order_worlds(c["n"]), c["ranks"])),
                    "conditionals": [f"{k}:" + core.cond_text((b, a), names) for k, b, a in c["conds"]], "modes": c["modes"],
                    "results": impl.get("results"), "driver": resp[:2]})
        for f in compare(c, impl, resp, tags):
            ctx.fail(f, lambda f: core.generic_shrink(f, recheck, fields=("revs", "conds", "ops", "history", "base"), budget=30))
