"""C18 ranking-function operations obey their defining laws for every ranking."""
from __future__ import annotations

import json
import warnings

import core

THEOREMS = ["InfOCF.C18_formulaRank_none", "InfOCF.C18_formulaRank_min", "InfOCF.C18_accept_iff", "InfOCF.C18_marginalize_spec",
            "InfOCF.C18_marginal_formula_rank", "InfOCF.C18_conditionalize_spec", "InfOCF.C18_tpo_layers", "InfOCF.C18_tpo_roundtrip_order",
            "InfOCF.C18_tpo_roundtrip_exact"]
RULE = ("random total rankings over 1-6 atoms (asymmetric: independent ranks 0..6 per world, plus sparse and constant ones) given to "
        "PreOCF.init_custom; formula_rank / conditional_acceptance for random compound formulas, marginalize for random proper atom subsets "
        "(incl. preserved formula ranks over the remaining atoms), compute_conditionalization, ranks2tpo and tpo2ranks with identity, "
        "strictly increasing and 'i-th distinct rank' numberings; thorough: exhaustive for <= 2 atoms with ranks <= 2; "
        "non-trivial = ranking not constant and formula not a literal; distinct by (ranking, operation, argument)")
RULE += ("; lazily evaluated objects: System Z and c-representation objects of random strict bases (incl. exception chains with >= 3 layers) are "
         "asked random sequences of formula_rank / conditional_acceptance / rank_world while only part of their ranks is computed; every "
         "result must equal the law applied to the ranking a fresh, fully computed object of the same base has")
ASSUMPTIONS = ["rankings are total (every world has a rank), as the property states"]


def lean_order_worlds(n):
    """world strings in the order of the Lean `allWorlds n` (atom 0 varies fastest)"""
    return ["".join(str((j >> k) & 1) for k in range(n)) for j in range(2 ** n)]


def impl_eval(case):
    from inference.conditional import Conditional
    from inference.preocf import PreOCF, ranks2tpo, tpo2ranks

    n = case["n"]
    names = core.names_for(n)
    worlds = lean_order_worlds(n)
    ranks = dict(zip(worlds, case["ranks"]))
    out = {}
    try:
        with warnings.catch_warnings():
            warnings.simplefilter("ignore")
            if case.get("with_bb"):
                # a belief base over a reordered subset of the atoms is passed along with the explicit signature: the explicit one counts
                from inference.belief_base import BeliefBase
                bsig = [names[i] for i in case["with_bb"]]
                bb = BeliefBase(bsig, {1: Conditional(core.f_pysmt(("a", case["with_bb"][0]), names), core.f_pysmt(("T",), names), "(x|Top)")}, "kb")
                ocf = PreOCF.init_custom(dict(ranks), bb, list(names))
            else:
                ocf = PreOCF.init_custom(dict(ranks), signature=list(names))
            out["frank"] = [ocf.formula_rank(core.f_pysmt(f, names)) for f in case["formulas"]]
            if case.get("xformulas"):
                xnames = list(names) + ["zx"]      # an atom outside the ranking's signature: every world may choose it freely
                out["xfrank"] = [ocf.formula_rank(core.f_pysmt(f, xnames)) for f in case["xformulas"]]
            out["accept"] = [bool(ocf.conditional_acceptance(Conditional(core.f_pysmt(b, names), core.f_pysmt(a, names), "c")))
                             for b, a in case["conds"]]
            out["marg"] = []
            for drop in case["drops"]:
                m = ocf.marginalize([names[i] for i in drop])
                rest = [i for i in range(n) if i not in drop]
                out["marg"].append({"ranks": dict(m.ranks), "sig": list(m.signature),
                                    "franks": [m.formula_rank(core.f_pysmt(f, names)) for f in case["marg_formulas"][json.dumps(drop)]]})
            out["cond"] = [dict(ocf.compute_conditionalization(core.f_pysmt(f, names))) for f in case["formulas"][:3]]
            tpo = ranks2tpo(dict(ranks))
            out["tpo"] = [sorted(L) for L in tpo]
            out["back"] = []
            for fv in case["numberings"]:
                out["back"].append(dict(tpo2ranks(tpo, lambda i, fv=fv: fv[i] if i < len(fv) else 0)))
    except Exception as e:  # noqa: BLE001
        out["err"] = f"{type(e).__name__}: {e}"[:300]
    return out


def rename_for_rest(f, rest):
    """formula over the remaining atoms -> indices in the marginalised signature"""
    t = f[0]
    if t == "a":
        return ("a", rest.index(f[1]))
    if t in ("T", "F"):
        return f
    return (t,) + tuple(rename_for_rest(g, rest) for g in f[1:])


def driver_lines(case):
    n = case["n"]
    rk = " ".join(str(r) for r in case["ranks"])
    lines, tags = [], []
    for i, f in enumerate(case["formulas"]):
        lines.append(f"frank {n} {rk} {core.f_prefix(f)}")
        tags.append(("frank", i))
    for i, f in enumerate(case.get("xformulas") or []):
        lines.append(f"frank {n + 1} {rk} {rk} {core.f_prefix(f)}")        # the rank of a world over n+1 atoms is that of its projection
        tags.append(("xfrank", i))
    for i, (b, a) in enumerate(case["conds"]):
        lines.append(f"accept {n} {rk} {core.cond_prefix(0, (b, a))}")
        tags.append(("accept", i))
    for i, drop in enumerate(case["drops"]):
        lines.append(f"marg {n} {rk} {len(drop)} " + " ".join(str(d) for d in drop))
        tags.append(("marg", i))
        for j, f in enumerate(case["marg_formulas"][json.dumps(drop)]):
            # law: formula ranks over the remaining atoms are preserved -> expected = rank in the ORIGINAL ranking
            lines.append(f"frank {n} {rk} {core.f_prefix(f)}")
            tags.append(("margfrank", i, j))
    for i, f in enumerate(case["formulas"][:3]):
        lines.append(f"cond {n} {rk} {core.f_prefix(f)}")
        tags.append(("cond", i))
    for i, fv in enumerate(case["numberings"]):
        lines.append(f"tpo {n} {rk} {len(fv)} " + " ".join(str(x) for x in fv))
        tags.append(("tpo", i))
    return lines, tags


def parse_assoc(s):
    if not s:
        return {}
    return {p.split(":")[0]: int(p.split(":")[1]) for p in s.split(",")}


def compare(case, impl, resp, tags):
    fails = []

    def fail(op, arg, got, want):
        fails.append({"case": dict(case, op=op, arg=arg), "impl": got, "spec": want,
                      "signature": f"{op}: result differs from the defining law", "what": f"{op} wrong", "theorem": "InfOCF.C18_*"})

    if "err" in impl:
        fails.append({"case": case, "impl": impl["err"], "spec": "results", "signature": "ranking operation raised " + impl["err"].split(":")[0],
                      "what": "operation raised"})
        return fails
    for r, t in zip(resp, tags):
        if t[0] == "frank":
            want = None if r == "none" else int(r)
            if impl["frank"][t[1]] != want:
                fail("formula_rank", case["formulas"][t[1]], impl["frank"][t[1]], want)
        elif t[0] == "xfrank":
            want = None if r == "none" else int(r)
            if impl.get("xfrank", [None] * 9)[t[1]] != want:
                fail("formula_rank (formula with an atom outside the signature)", case["xformulas"][t[1]], impl.get("xfrank", [None] * 9)[t[1]], want)
        elif t[0] == "accept":
            if impl["accept"][t[1]] != (r == "1"):
                fail("conditional_acceptance", case["conds"][t[1]], impl["accept"][t[1]], r == "1")
        elif t[0] == "marg":
            want = parse_assoc(r)
            if impl["marg"][t[1]]["ranks"] != want:
                fail("marginalize", case["drops"][t[1]], impl["marg"][t[1]]["ranks"], want)
        elif t[0] == "margfrank":
            want = None if r == "none" else int(r)
            got = impl["marg"][t[1]]["franks"][t[2]]
            if got != want:
                fail("marginalize/formula_rank preserved", [case["drops"][t[1]], case["marg_formulas"][json.dumps(case["drops"][t[1]])][t[2]]], got, want)
        elif t[0] == "cond":
            want = parse_assoc(r)
            if impl["cond"][t[1]] != want:
                fail("compute_conditionalization", case["formulas"][t[1]], impl["cond"][t[1]], want)
        elif t[0] == "tpo":
            layers, back = r.split("|")
            wl = [sorted(L.split(",")) for L in layers.split(";")] if layers else []
            if impl["tpo"] != wl:
                fail("ranks2tpo", None, impl["tpo"], wl)
            if impl["back"][t[1]] != parse_assoc(back):
                fail("tpo2ranks", case["numberings"][t[1]], impl["back"][t[1]], parse_assoc(back))
    # laws checked directly on the implementation's round trip (independent of the driver)
    worlds = lean_order_worlds(case["n"])
    ranks = dict(zip(worlds, case["ranks"]))
    for fv, back in zip(case["numberings"], impl["back"]):
        if fv == case["numberings"][0]:  # i-th distinct rank: exact
            if back != ranks:
                fail("tpo round trip (layers numbered by their ranks)", fv, back, ranks)
        if all(x < y for x, y in zip(fv, fv[1:])):
            for u in worlds:
                for v in worlds:
                    if (ranks[u] < ranks[v]) != (back[u] < back[v]) or (ranks[u] == ranks[v]) != (back[u] == back[v]):
                        fail("tpo round trip preserves the order", fv, back, ranks)
                        break
                else:
                    continue
                break
    return fails


def recheck(case):
    if "ops" in case:
        base_case = {k: case[k] for k in ("n", "kind", "base", "ops")}
        impl = impl_lazy(base_case)
        resp = core.driver_batch(lazy_lines(base_case, impl)) if "err" not in impl else []
        fs = compare_lazy(base_case, impl, resp)
        return fs[0] if fs else None
    impl = impl_eval(case)
    lines, tags = driver_lines(case)
    resp = core.driver_batch(lines)
    fs = compare(case, impl, resp, tags)
    want = case.get("op")
    for f in fs:
        if want is None or f["case"].get("op") == want:
            return f
    return None


def gen_case(rng, n=None, max_rank=6):
    n = n or rng.choice([1, 2, 3, 3, 4, 4, 5, 5, 6])
    style = rng.random()
    N = 2 ** n
    if style < 0.12:
        ranks = [rng.choice([0, 1, 2, 9, 10, 11, 12, 20, 100]) for _ in range(N)]     # ranks of mixed digit length
    elif style < 0.7:
        ranks = [rng.randint(0, max_rank) for _ in range(N)]
    elif style < 0.85:
        ranks = [rng.choice([0, 0, 0, 7]) for _ in range(N)]
    else:
        ranks = [rng.choice([2, 9]) for _ in range(N)]
    formulas = [core.gen_formula(rng, n, rng.choice([1, 2, 3]), 0.1) for _ in range(5)]
    formulas.append(("&", ("a", 0), ("!", ("a", 0))))
    if n >= 6:
        # long chains (tree height >= 5), and a pair that differs only in the innermost literals
        ch = core.deep_chain(rng, rng.sample(range(n), 6), op=rng.choice(["&", "|"]), pos=0.6)[0]
        formulas[0], formulas[1] = ch, core.flip_innermost(ch, rng.choice([1, 2]))
    conds = [core.gen_cond(rng, n, 2, 0.08) for _ in range(5)]
    drops, margf = [], {}
    if n >= 2:
        for _ in range(2):
            k = rng.randint(1, n - 1)
            drop = sorted(rng.sample(range(n), k))
            if drop in drops:
                continue
            drops.append(drop)
            rest = [i for i in range(n) if i not in drop]
            fs = []
            for _j in range(3):
                f = core.gen_formula(rng, len(rest), 2, 0.05)
                # formula over the remaining atoms, written with the original atom indices
                def lift(g):
                    if g[0] == "a":
                        return ("a", rest[g[1]])
                    if g[0] in ("T", "F"):
                        return g
                    return (g[0],) + tuple(lift(x) for x in g[1:])
                fs.append(lift(f))
            margf[json.dumps(drop)] = fs
    distinct = sorted(set(ranks))
    m = len(distinct)
    incr = sorted(rng.sample(range(0, 3 * m + 3), m))
    arbitrary = [rng.randint(0, 5) for _ in range(m)]
    xformulas = None
    if n <= 5 and rng.random() < 0.3:
        zx = ("a", n)
        f0 = core.gen_formula(rng, n, 2, 0.0)
        xformulas = [("&", f0, zx), ("|", f0, ("!", zx)), ("&", ("!", zx), core.gen_formula(rng, n + 1, 2, 0.0))]
    with_bb = None
    if n >= 2 and rng.random() < 0.25:
        with_bb = rng.sample(range(n), rng.randint(1, n))
        if with_bb == list(range(n)):
            with_bb = with_bb[::-1]
    return {"n": n, "ranks": ranks, "formulas": formulas, "conds": conds, "drops": drops, "marg_formulas": margf, "with_bb": with_bb, "xformulas": xformulas,
            "numberings": [distinct, incr, arbitrary]}


def impl_lazy(case):
    """a lazily evaluated ranking object asked a sequence of operations; reference ranking = a fresh, fully computed object"""
    from inference.conditional import Conditional
    from inference.preocf import PreOCF
    from props import answers

    n = case["n"]
    names = core.names_for(n)
    out = {}
    try:
        with warnings.catch_warnings():
            warnings.simplefilter("ignore")
            mk = (lambda: PreOCF.init_system_z(core.make_bb(names, answers.keyed(case["base"])))) if case["kind"] == "z" else \
                 (lambda: PreOCF.init_random_min_c_rep(core.make_bb(names, answers.keyed(case["base"]))))
            ref = mk()
            full = dict(ref.compute_all_ranks())
            if case["kind"] == "c":
                imp = ref.save_impacts()
                from inference.preocf import RandomMinCRepPreOCF
                if case.get("perturb"):
                    # an impact vector that need not solve the base (the ranking is then not a model of its own base): the laws of
                    # formula rank / acceptance hold for it all the same; the reference is a second, fully computed object
                    imp = [max(0, int(x) - 1) if i % 2 == 0 else 0 for i, x in enumerate(imp)]
                    ref = RandomMinCRepPreOCF.init_with_impacts_list(core.make_bb(names, answers.keyed(case["base"])), list(imp))
                    full = dict(ref.compute_all_ranks())
                o = RandomMinCRepPreOCF.init_with_impacts_list(core.make_bb(names, answers.keyed(case["base"])), list(imp))
            else:
                o = mk()
            out["ranks"] = [full[w] for w in lean_order_worlds(n)]
            seq = []
            for op in case["ops"]:
                if op[0] == "frank":
                    seq.append(o.formula_rank(core.f_pysmt(op[1], names)))
                elif op[0] == "accept":
                    seq.append(bool(o.conditional_acceptance(Conditional(core.f_pysmt(op[1][0], names), core.f_pysmt(op[1][1], names), "c"))))
                else:
                    seq.append(o.rank_world(op[1]))
            out["seq"] = seq
    except Exception as e:  # noqa: BLE001
        out["err"] = f"{type(e).__name__}: {e}"[:300]
    return out


def lazy_lines(case, impl):
    n = case["n"]
    rk = " ".join(str(r) for r in impl["ranks"])
    lines = []
    for op in case["ops"]:
        if op[0] == "frank":
            lines.append(f"frank {n} {rk} {core.f_prefix(op[1])}")
        elif op[0] == "accept":
            lines.append(f"accept {n} {rk} {core.cond_prefix(0, (op[1][0], op[1][1]))}")
    return lines


def compare_lazy(case, impl, resp):
    fails = []
    if "err" in impl:
        fails.append({"case": case, "impl": impl["err"], "spec": "results", "signature": "lazy object: operation raised " + impl["err"].split(":")[0],
                      "what": "operation raised"})
        return fails
    worlds = lean_order_worlds(case["n"])
    it = iter(resp)
    for i, (op, got) in enumerate(zip(case["ops"], impl["seq"])):
        if op[0] == "frank":
            r = next(it)
            want = None if r == "none" else int(r)
        elif op[0] == "accept":
            want = next(it) == "1"
        else:
            want = impl["ranks"][worlds.index(op[1])]
        if got != want:
            name = {"frank": "formula_rank", "accept": "conditional_acceptance", "rank": "rank_world"}[op[0]]
            fails.append({"case": dict(case, failing_op=i, ranking=dict(zip(worlds, impl["ranks"]))), "impl": got, "spec": want,
                          "signature": f"lazy {case['kind']}-object: {name} differs from the law on the object's full ranking",
                          "what": f"{name} wrong on a partially computed object", "theorem": "InfOCF.C18_formulaRank_min"})
            break
    return fails


def gen_lazy_cases(ctx, count):
    from props import answers

    rng = ctx.rng
    out = []
    for c in answers.gen_cases(ctx, count, (2, 5), (1, 6), [False], q_per=6, consts=0.05, ties=0.2, deep=0.4, outside_sig=0.0):
        n = c["sig"]
        worlds = lean_order_worlds(n)
        ops = []
        pool = [(q[1], q[2]) for q in c["queries"]] + [(b, a) for _, b, a in c["base"]]
        for _ in range(rng.randint(3, 8)):
            t = rng.random()
            if t < 0.45:
                f = rng.choice(pool)[rng.randint(0, 1)] if rng.random() < 0.6 else core.gen_formula(rng, n, 2, 0.03)
                ops.append(["frank", f])
            elif t < 0.85:
                b, a = rng.choice(pool)
                ops.append(["accept", [b, a]])
            else:
                ops.append(["rank", rng.choice(worlds)])
        kind = "z" if rng.random() < 0.6 else "c"
        case = {"n": n, "kind": kind, "base": c["base"], "ops": ops}
        if kind == "c" and rng.random() < 0.4:
            case["perturb"] = True
            # the base's own conditionals are asked too
            for _, b, a in c["base"][:3]:
                ops.append(["accept", [b, a]])
        out.append(case)
    return out


def run(ctx):
    from check import pmap
    from props import answers

    quick = ctx.tier == "quick"
    rng = ctx.rng
    cases = [c for c in answers.load_corpus("C18")]
    for _ in range(250 if quick else 5000):
        cases.append(gen_case(rng))
    if not quick:
        import itertools

        for n in (1, 2):
            for ranks in itertools.product(range(3), repeat=2 ** n):
                c = gen_case(rng, n=n)
                c["ranks"] = list(ranks)
                distinct = sorted(set(ranks))
                c["numberings"] = [distinct, list(range(len(distinct))), [1] * len(distinct)]
                cases.append(c)
        ctx.exhaustive = False
        ctx.notes.append("rankings over 1-2 atoms with ranks <= 2 enumerated completely (formulas still sampled)")
    impls = pmap(impl_eval, cases, ctx.procs)
    lines, index = [], []
    per = []
    for i, c in enumerate(cases):
        ls, tags = driver_lines(c)
        per.append((len(lines), len(ls), tags))
        lines += ls
    resp = core.driver_batch(lines)
    for c, impl, (off, ln, tags) in zip(cases, impls, per):
        ctx.evaluations += ln
        ctx.bump(f"atoms={c['n']}")
        ctx.bump(f"distinct_ranks={min(len(set(c['ranks'])), 5)}")
        if len(set(c["ranks"])) > 1:
            for f in c["formulas"]:
                if core.f_depth(f) >= 1:
                    ctx.nontrivial.add(hash(json.dumps([c["ranks"], f])))
            for d in c["drops"]:
                ctx.nontrivial.add(hash(json.dumps([c["ranks"], "marg", d])))
        ctx.sample({"ranks": dict(zip(lean_order_worlds(c["n"]), c["ranks"])), "formula": core.f_text(c["formulas"][0], core.names_for(c["n"])),
                    "formula_rank": impl.get("frank", [None])[0], "drop": c["drops"][:1], "tpo": impl.get("tpo")})
        ctx.failures.extend(compare(c, impl, resp[off:off + ln], tags))
    # lazily evaluated objects
    lazy = gen_lazy_cases(ctx, 120 if quick else 2500)
    limpl = pmap(impl_lazy, lazy, ctx.procs)
    lines, per = [], []
    for c, impl in zip(lazy, limpl):
        ls = lazy_lines(c, impl) if "err" not in impl else []
        per.append((len(lines), len(ls)))
        lines += ls
    resp = core.driver_batch(lines) if lines else []
    for c, impl, (off, ln) in zip(lazy, limpl, per):
        ctx.evaluations += len(c["ops"])
        ctx.bump(f"lazy:kind={c['kind']}")
        if "ranks" in impl:
            ctx.bump(f"lazy:distinct_ranks={min(len(set(impl['ranks'])), 5)}")
            if len(set(impl["ranks"])) > 1:
                ctx.nontrivial.add(hash(json.dumps([c["base"], c["ops"], c["kind"]])))
        for f in compare_lazy(c, impl, resp[off:off + ln]):
            ctx.fail(f, lambda f: core.generic_shrink(f, recheck, fields=("ops", "base"), budget=30))
