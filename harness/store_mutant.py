#!/usr/bin/env python3
"""store_mutant.py <worktree-name> <seeded-id> <property> <checks,comma> <needs text>  -- copies patch+demo from /tmp/wt/<name>, removes the worktree"""
import json, os, subprocess, sys

wt, sid, prop, checks, needs = sys.argv[1:6]
d = f"/verif/seeded/{sid}"
os.makedirs(d, exist_ok=True)
open(f"{d}/patch.diff", "w").write(subprocess.run(["git", "-C", f"/tmp/wt/{wt}", "diff"], capture_output=True, text=True).stdout)
subprocess.run(["cp", f"/tmp/wt/{wt}/demo_{prop}.py", d], check=True)
json.dump({"property": prop, "demo": f"demo_{prop}.py", "checks": checks.split(","), "source": f"sub-agent ({wt})", "needs": needs,
           "ran": "demo on clean tree and with patch; full test suite by the sub-agent (82 passed, 2 skipped); harness/seeded_run.py"},
          open(f"{d}/meta.json", "w"), indent=1)
subprocess.run(["git", "-C", "/repo", "worktree", "remove", "--force", f"/tmp/wt/{wt}"], check=True)
print("stored", sid, os.path.getsize(f"{d}/patch.diff"), "bytes")
