"""Shared machinery of the correspondence harness.

Everything random derives from VERIF_SEED. The implementation under test is imported from
/repo's working tree (VERIF_REPO overrides, for scratch worktrees used while testing the
machinery itself).
"""
from __future__ import annotations

import hashlib
import json
import os
import random
import zlib
import subprocess
import sys
import time
import warnings

VERIF = os.path.dirname(os.path.dirname(os.path.abspath(__file__)))
REPO = os.environ.get("VERIF_REPO", "/repo")
os.environ.setdefault("INFOCF_LOGLEVEL", "ERROR")
os.environ["INFOCF_VERIF"] = "1"
if REPO not in sys.path:
    sys.path.insert(0, REPO)
warnings.filterwarnings("ignore")

LEAN_DIR = os.path.join(VERIF, "lean")
DRIVER = os.path.join(LEAN_DIR, ".lake", "build", "bin", "driver")
EVIDENCE_DIR = os.environ.get("VERIF_EVIDENCE_DIR") or os.path.join(VERIF, "evidence")  # scratch runs (seeded_run --scratch) write elsewhere
REPLAY_DIR = os.path.join(VERIF, "replays")

ALLOWED_AXIOMS = {"propext", "Classical.choice", "Quot.sound"}

TRUSTED_BASE = [
    "Lean 4.33.0 kernel; axioms of every property theorem ⊆ {propext, Classical.choice, Quot.sound} (checked by Audit on every run)",
    "Lean compiler/runtime for the native driver that evaluates model and spec",
    "this Python harness: generators, canonicalisation, line protocol, shrinker",
    "modelled not verified: pysmt/z3 SAT answers, z3 tseitin-cnf, pysat RC2, z3 Optimize, ANTLR runtime, pickle/json, multiprocessing, pandas",
]


def seed() -> int:
    try:
        return int(os.environ.get("VERIF_SEED", "0"))
    except ValueError:
        return 0


# --------------------------------------------------------------------------------------
# formulas as plain tuples:  ('T',) ('F',) ('a', i) ('!', f) ('&', f, g) ('|', f, g)
# --------------------------------------------------------------------------------------

def f_prefix(f) -> str:
    t = f[0]
    if t == "T" or t == "F":
        return t
    if t == "a":
        return f"a{f[1]}"
    if t == "!":
        return "! " + f_prefix(f[1])
    return f"{t} {f_prefix(f[1])} {f_prefix(f[2])}"


def f_eval(f, w) -> bool:
    t = f[0]
    if t == "T":
        return True
    if t == "F":
        return False
    if t == "a":
        return w[f[1]]
    if t == "!":
        return not f_eval(f[1], w)
    if t == "&":
        return f_eval(f[1], w) and f_eval(f[2], w)
    return f_eval(f[1], w) or f_eval(f[2], w)


def f_atoms(f, acc=None):
    if acc is None:
        acc = set()
    if f[0] == "a":
        acc.add(f[1])
    elif f[0] in "!&|":
        for g in f[1:]:
            f_atoms(g, acc)
    return acc


def f_depth(f) -> int:
    if f[0] in ("T", "F", "a"):
        return 0
    return 1 + max(f_depth(g) for g in f[1:])


def fact_arg(f, names, form):
    """a fact as the API accepts it: a pysmt formula or a string in the project syntax"""
    if form == "pysmt":
        return f_pysmt(f, names)
    return f_text(f, names, minimal=(form == "textmin"))


def f_text(f, names, minimal=False) -> str:
    """concrete syntax of the repository's grammar, fully parenthesised where needed; `minimal` drops the parentheses the
    precedence (! over , over ;) makes redundant"""
    t = f[0]
    if t == "T":
        return "Top"
    if t == "F":
        return "Bottom"
    if t == "a":
        return names[f[1]]
    if t == "!":
        g = f[1]
        s = f_text(g, names, minimal)
        return "!" + (s if g[0] in ("a", "T", "F", "!") else "(" + s + ")")
    sep = "," if t == "&" else ";"
    parts = []
    for i, g in enumerate(f[1:]):
        s = f_text(g, names, minimal)
        # minimal: ',' binds tighter than ';' (no parentheses for a conjunction inside a disjunction); both operators are
        # parsed left-associatively, so only a *left* operand of the same kind may go without parentheses
        if g[0] in ("&", "|") and not (minimal and ((t == "|" and g[0] == "&") or (g[0] == t and i == 0))):
            s = "(" + s + ")"
        parts.append(s)
    return sep.join(parts)


def f_pysmt(f, names, _parent=None):
    from pysmt.shortcuts import FALSE, TRUE, And, Not, Or, Symbol

    t = f[0]
    if t == "T":
        return TRUE()
    if t == "F":
        return FALSE()
    if t == "a":
        return Symbol(names[f[1]])
    if t == "!":
        return Not(f_pysmt(f[1], names))
    # a programmatically built formula may use n-ary connectives (the parser only builds binary ones): about half of the maximal
    # same-operator chains of 3-4 members (decided by a process-independent checksum of the formula) are flattened into one n-ary
    # node; longer chains stay nested, their depth is what some inputs are about
    if _parent != t and (f[1][0] == t or f[2][0] == t) and zlib.crc32(repr(f).encode()) % 2 == 0:
        flat = []
        stack = [f[2], f[1]]
        while stack:
            x = stack.pop()
            if x[0] == t:
                stack += [x[2], x[1]]
            else:
                flat.append(x)
        if len(flat) <= 4:
            sub = [f_pysmt(x, names) for x in flat]
            return And(*sub) if t == "&" else Or(*sub)
    l, r = f_pysmt(f[1], names, t), f_pysmt(f[2], names, t)
    return And(l, r) if t == "&" else Or(l, r)


NAME_STYLES = [
    None,                                                                                   # a, b, c, ...
    ["a", "a1", "ab", "a10", "b", "a_b", "b1", "a-1", "ba", "b-a", "a2", "b_", "aa"],        # names sharing prefixes
    ["Top1", "not", "signature1", "x", "and", "Bottom_", "or", "conditional", "T", "F", "in", "eta_1", "True"],   # keyword-like names
    ["h1", "h2", "h3", "h0", "x1", "k1", "e1", "s1", "x2", "h10", "v1", "c1", "y0"],          # letter + small index (names an
                                                                                            # implementation might also form from keys)
]


# which style a case with n atoms gets (the structured generators with several correction sets per layer work over 5-6 atoms)
STYLE_OF_N = {1: 0, 2: 1, 3: 3, 4: 2, 5: 3, 6: 0, 7: 1, 8: 2, 9: 3}


def names_for(n: int):
    """atom names of a case with n atoms; the style depends on n only, so that every place (and every process) that names the
    atoms of a case uses the same names: plain letters, names sharing prefixes, names that look like keywords, or a letter followed by a small index"""
    style = NAME_STYLES[STYLE_OF_N.get(n, n % 4)] if os.environ.get("VERIF_PLAIN_NAMES") != "1" else None
    if style is None or n > len(style):
        base = "abcdefghijklmnopqrstuvwxyz"
        return [base[i] if i < 26 else f"x{i}" for i in range(n)]
    return style[:n]


def cond_prefix(key, c) -> str:
    return f"C {key} {f_prefix(c[0])} {f_prefix(c[1])}"


def f_from_pysmt(fn, names):
    """pysmt formula (as the parser builds it) -> formula tuple over atom indices"""
    if fn.is_true():
        return ("T",)
    if fn.is_false():
        return ("F",)
    if fn.is_symbol():
        return ("a", names.index(fn.symbol_name()))
    if fn.is_not():
        return ("!", f_from_pysmt(fn.arg(0), names))
    if fn.is_and() or fn.is_or():
        op = "&" if fn.is_and() else "|"
        args = [f_from_pysmt(a, names) for a in fn.args()]
        f = args[0]
        for g in args[1:]:
            f = (op, f, g)
        return f
    raise ValueError("unsupported node " + str(fn.node_type()))


def cond_text(c, names) -> str:
    return "(" + f_text(c[0], names) + "|" + f_text(c[1], names) + ")"


def conds_line(keyed) -> str:
    return f"{len(keyed)} " + " ".join(cond_prefix(k, c) for k, c in keyed)


# --------------------------------------------------------------------------------------
# generators
# --------------------------------------------------------------------------------------

def gen_formula(rng: random.Random, n: int, depth: int, consts: float = 0.05):
    if depth <= 0 or rng.random() < 0.3:
        r = rng.random()
        if r < consts:
            return ("T",) if rng.random() < 0.5 else ("F",)
        a = ("a", rng.randrange(n))
        return ("!", a) if rng.random() < 0.4 else a
    r = rng.random()
    if r < 0.2:
        return ("!", gen_formula(rng, n, depth - 1, consts))
    op = "&" if r < 0.6 else "|"
    return (op, gen_formula(rng, n, depth - 1, consts), gen_formula(rng, n, depth - 1, consts))


def gen_cond(rng, n, depth=2, consts=0.05):
    return (gen_formula(rng, n, depth, consts), gen_formula(rng, n, depth, consts))


def gen_base(rng: random.Random, n: int, k: int, depth: int = 2, consts: float = 0.05, dup: float = 0.08):
    """list of conditionals (cons, ante); penguin-style chains and duplicates mixed in"""
    conds = []
    style = rng.random()
    while len(conds) < k:
        if conds and rng.random() < dup:
            conds.append(rng.choice(conds))
            continue
        if style < 0.35 and n >= 2:
            # layered exceptions: (x | a), (!x | a & b), ...
            a, b = rng.sample(range(n), 2)
            x = ("a", rng.randrange(n))
            cons = x if rng.random() < 0.5 else ("!", x)
            ante = ("a", a) if rng.random() < 0.5 else ("&", ("a", a), ("a", b))
            if rng.random() < 0.2:
                ante = ("|", ante, gen_formula(rng, n, 1, consts))
            conds.append((cons, ante))
        else:
            conds.append(gen_cond(rng, n, depth, consts))
    return conds


def gen_tie_case(rng: random.Random, n: int):
    """defaults-with-exceptions structure producing several incomparable minimal falsification sets
    per layer and multi-layer ties: (x_i|g), (z_i|x_i), (!x_i|p) ...; returns (conds, queries)"""
    atoms = list(range(n))
    rng.shuffle(atoms)
    p = ("a", atoms[0])
    k = rng.randint(2, max(2, min(3, (n - 1) // 2 if n >= 5 else 2)))
    xs = [("a", a) for a in atoms[1:1 + k]]
    zs = [("a", a) for a in atoms[1 + k:1 + 2 * k]]
    def lit(a):
        return a if rng.random() < 0.8 else ("!", a)
    conds = []
    for x in xs:
        guard = ("T",) if rng.random() < 0.6 else (lit(rng.choice(xs + zs)) if rng.random() < 0.5 else ("|", p, ("!", p)))
        conds.append((x, guard))
    for i, x in enumerate(xs):
        if i < len(zs) and rng.random() < 0.8:
            conds.append((lit(zs[i]), x))
        if rng.random() < 0.75:
            conds.append((("!", x), p if rng.random() < 0.8 else ("&", p, lit(rng.choice(xs)))))
    if rng.random() < 0.3 and zs:
        conds.append((lit(rng.choice(zs)), p))
    if rng.random() < 0.3:
        conds.append(gen_cond(rng, n, 1, 0.0))
    rng.shuffle(conds)
    queries = []
    pool = xs + zs
    for _ in range(6):
        r = rng.random()
        a1, a2 = rng.sample(xs, 2)
        if r < 0.4:
            ante = ("&", p, ("|", a1, a2))
        elif r < 0.55:
            ante = ("&", p, a1)
        elif r < 0.7:
            ante = ("|", a1, a2) if rng.random() < 0.5 else ("!", ("&", a1, a2))
        elif r < 0.8:
            ante = p
        else:
            ante = gen_formula(rng, n, 2, 0.0)
        cons = lit(rng.choice(pool)) if rng.random() < 0.7 else gen_formula(rng, n, 1, 0.0)
        queries.append((cons, ante))
    return conds, queries


def deep_chain(rng: random.Random, atoms, op="&", pos=0.7):
    """left-nested chain (((l1 op l2) op l3) ... ) over the given atoms, as the parser builds `l1,l2,l3,...`: tree height
    len(atoms) - 1, so with >= 6 atoms the innermost literals sit below depth 5"""
    lits = [("a", a) if rng.random() < pos else ("!", ("a", a)) for a in atoms]
    f = lits[0]
    for l in lits[1:]:
        f = (op, f, l)
    return f, lits


def flip_innermost(f, k=1):
    """the same chain with its k innermost literals negated"""
    if f[0] in ("&", "|") and f[1][0] in ("&", "|"):
        return (f[0], flip_innermost(f[1], k), f[2])
    if f[0] in ("&", "|"):
        a, b = f[1], f[2]
        na = a[1] if a[0] == "!" else ("!", a)
        nb = b[1] if b[0] == "!" else ("!", b)
        return (f[0], na, nb if k >= 2 else b)
    return f[1] if f[0] == "!" else ("!", f)


def gen_deep_pairs(rng: random.Random, n: int, pairs=2, conds=()):
    """pairs of queries whose antecedents are long conjunction chains that differ only in the innermost literal(s); the
    innermost atoms are antecedent atoms of the base and the consequent is a consequent literal of the base where possible,
    so that the two members of a pair tend to get different answers"""
    ante_atoms = [a[1] for _, a in conds if a[0] == "a"]
    cons_lits = [b for b, _ in conds if b[0] == "a" or (b[0] == "!" and b[1][0] == "a")]
    out = []
    for _ in range(pairs):
        atoms = list(range(n))
        rng.shuffle(atoms)
        if cons_lits and rng.random() < 0.8:
            x = rng.choice(cons_lits)
            x = x if rng.random() < 0.7 else (x[1] if x[0] == "!" else ("!", x))
        else:
            x = ("a", atoms[-1]) if rng.random() < 0.7 else ("!", ("a", atoms[-1]))
        xa = x[1][1] if x[0] == "!" else x[1]
        inner = [a for a in dict.fromkeys(rng.sample(ante_atoms, min(2, len(ante_atoms)))) if a != xa]
        rest = [a for a in atoms if a not in inner and a != xa]
        order = inner + rest
        while len(order) < 6 and rest:
            # six literals at least (tree height >= 5 below the outermost connective): atoms may repeat at the outer positions
            order.append(rng.choice(rest))
        chain, _ = deep_chain(rng, order[:max(6, len(order) - rng.randint(0, 1))], pos=0.8)
        out.append((x, chain))
        out.append((x, flip_innermost(chain, rng.choice([1, 1, 2]))))
    return out


def gen_conj_case(rng: random.Random, n: int):
    """conditionals with conjunctive consequents next to simple ones on the same guard, (x,y|g), (z|g): one conditional
    contributes several soft clauses, so MaxSAT cost and number of falsified conditionals differ; returns (conds, queries)"""
    atoms = list(range(n))
    rng.shuffle(atoms)
    x, y, z = [("a", a) for a in atoms[:3]]
    g = ("a", atoms[3]) if n >= 4 and rng.random() < 0.6 else ("T",)

    def lit(a):
        return a if rng.random() < 0.85 else ("!", a)
    x, y, z = lit(x), lit(y), lit(z)
    conds = [(("&", x, y), g), (z, g)]
    if n >= 5 and rng.random() < 0.5:
        e = ("a", atoms[4])
        t = ("a", atoms[3]) if g == ("T",) else g
        conds += [(e, t) if g == ("T",) else (e, ("T",)), (("!", e), g if g != ("T",) else x)]
    if rng.random() < 0.3:
        conds.append(gen_cond(rng, n, 1, 0.0))
    rng.shuffle(conds)

    def andg(f):
        return f if g == ("T",) else ("&", g, f)
    nx = ("!", x)
    queries = []
    for _ in range(6):
        r = rng.random()
        if r < 0.35:
            queries.append((("|", y, z), andg(("&", nx, ("!", ("&", y, z))))))
        elif r < 0.5:
            queries.append((rng.choice([y, z, ("!", y), ("!", z)]), andg(("&", nx, ("!", ("&", y, z))))))
        elif r < 0.65:
            queries.append((rng.choice([y, z, ("|", y, z)]), andg(("|", nx, ("!", z)))))
        elif r < 0.8:
            queries.append((rng.choice([x, y, z]), andg(("!", ("&", x, ("&", y, z))))))
        else:
            queries.append(gen_cond(rng, n, 2, 0.0))
    return conds, queries


def gen_cost_case(rng: random.Random, n: int):
    """one 'wide' conditional (w1,..,wk | g) with k = 2..3 conjuncts (k soft clauses) next to 2-3 simple conditionals (s_i | g) over other
    atoms, optionally an exception layer; queries are built from worlds given by a descriptor (how many conjuncts of the wide conditional
    are false, which simple conditionals are falsified): antecedent = disjunction of 2-4 such complete worlds, consequent = exactly a
    subset of them.  Templates put sets of different size and different clause cost on one side (size/cost inversion: {wide} costs k
    clauses, {s1,s2} costs 2), or a set and its superset at equal clause cost ({wide} by two conjuncts vs {wide,s1} by one), so that any
    confusion between number of violated clauses, number of falsified conditionals and set inclusion changes an answer;
    n >= 5; returns (conds, queries)"""
    atoms = list(range(n))
    rng.shuffle(atoms)
    g = ("a", atoms[0])
    k = 3 if (n >= 6 and rng.random() < 0.65) else 2
    fm = lambda x, pos: x if pos else ("!", x)                         # noqa: E731
    wide_lits = [(("a", a), rng.random() < 0.8) for a in atoms[1:1 + k]]
    others = [("a", a) for a in atoms[1 + k:]]
    simples = [(x, rng.random() < 0.75) for x in others[:rng.choice([2, 2, 3])]]
    if rng.random() < 0.35:
        # a conditional subsumed by the wide one, (w1 | g): the two share a clause of their material implications
        simples.insert(rng.randrange(len(simples) + 1), wide_lits[rng.randrange(k)])
    wide = fm(*wide_lits[0])
    for x, pos in wide_lits[1:]:
        wide = ("&", wide, fm(x, pos))
    gpos = rng.random() < 0.75
    guard = fm(g, gpos) if rng.random() < 0.85 else ("T",)
    conds = [(wide, guard)] + [(fm(x, pos), guard) for x, pos in simples]
    free = [x for x in others if x not in [y for y, _ in simples]]
    if free and rng.random() < 0.35:
        # an upper layer: an exception to the first simple conditional
        e = free[0]
        conds.append((fm(simples[0][0], not simples[0][1]), ("&", guard, e) if guard != ("T",) else e))
        if guard != ("T",):
            conds.append((guard, e))
    rng.shuffle(conds)

    def world_fm(w):
        f = None
        for i, b in enumerate(w):
            lit = ("a", i) if b else ("!", ("a", i))
            f = lit if f is None else ("&", f, lit)
        return f

    def world(c, S):
        """complete world: guard true, c conjuncts of the wide conditional false, the simple conditionals with index in S falsified"""
        w = [rng.random() < 0.5 for _ in range(n)]
        w[g[1]] = gpos
        for x in free:
            w[x[1]] = False            # exceptions off
        bad = set(rng.sample(range(k), c))
        for j, (x, pos) in enumerate(wide_lits):
            w[x[1]] = (not pos) if j in bad else pos
        for j, (x, pos) in enumerate(simples):
            w[x[1]] = (not pos) if j in S else pos
        return tuple(w)

    m = len(simples)
    queries = []
    for _ in range(6):
        r = rng.random()
        two = rng.sample(range(m), 2)
        one = {rng.randrange(m)}
        if r < 0.25:
            # size/cost inversion on one side, a size-2 set on the other
            A = [world(k, set()), world(0, set(two))]
            B = [rng.choice([world(rng.randint(1, k), one), world(0, set(rng.sample(range(m), 2)))])]
        elif r < 0.5:
            # a set and its superset at equal clause cost on one side, the superset also on the other
            s1 = one
            A = [world(2 if k >= 2 else 1, set()), world(1, s1)]
            B = [world(rng.randint(1, k), s1)]
        elif r < 0.65:
            A = [world(rng.randint(0, k), set(rng.sample(range(m), rng.randint(0, m)))) for _ in range(2)]
            B = [world(rng.randint(0, k), set(rng.sample(range(m), rng.randint(0, m)))) for _ in range(rng.choice([1, 2]))]
        else:
            A = [world(rng.randint(0, k), set(rng.sample(range(m), rng.randint(0, m))))]
            B = [world(rng.randint(0, k), set(rng.sample(range(m), rng.randint(0, m)))) for _ in range(rng.choice([1, 2, 3]))]
        if rng.random() < 0.4:
            A, B = B, A
        A = list(dict.fromkeys(A))
        B = [w for w in dict.fromkeys(B) if w not in A]
        ws = A + B
        ante = world_fm(ws[0])
        for w in ws[1:]:
            ante = ("|", ante, world_fm(w))
        cons = world_fm(A[0])
        for w in A[1:]:
            cons = ("|", cons, world_fm(w))
        queries.append((cons, ante))
    return conds, queries


def gen_infchain_case(rng: random.Random, n: int):
    """extended mode: an infinity layer made of a chain -- a conditional that forbids x1 ((Bottom|x1), (!x1|x1), ...) and links
    (x1|x2), (x2|x3) that make x2, x3 infeasible only THROUGH the other members -- listed in any order (also back to front), next to
    ordinary conditionals over the other atoms; queries whose antecedent touches the chain only at its far end; n >= 3;
    returns (conds, queries)"""
    atoms = list(range(n))
    rng.shuffle(atoms)
    m = 2 if n < 5 or rng.random() < 0.5 else 3
    xs = [("a", a) for a in atoms[:m]]
    others = [("a", a) for a in atoms[m:]]
    x1 = xs[0]
    start = rng.choice([(("F",), x1), (("!", x1), x1), (("F",), x1), (("&", x1, ("!", x1)), x1)])
    chain = [start]
    for i in range(1, m):
        link = (xs[i - 1], xs[i]) if rng.random() < 0.8 else (("&", xs[i - 1], others[0]) if others else xs[i - 1], xs[i])
        chain.append(link)
    fin = []
    if others:
        for _ in range(rng.randint(0, 3)):
            c = gen_cond(rng, n, 1, 0.0)
            fin.append(c)
        if len(others) >= 2 and rng.random() < 0.6:
            fin += [(others[1], others[0]), (("!", others[1]), ("&", others[0], others[-1]))] if len(others) >= 3 else [(others[1], others[0])]
    r = rng.random()
    if r < 0.45:
        conds = list(reversed(chain)) + fin if rng.random() < 0.5 else fin + list(reversed(chain))
        if rng.random() < 0.5:
            conds = list(reversed(conds))
    else:
        conds = chain + fin
        rng.shuffle(conds)
    far = xs[-1]
    o = (others + [far])
    queries = []
    for _ in range(6):
        r = rng.random()
        y = rng.choice(o)
        if r < 0.3:
            queries.append((rng.choice([y, ("!", y)]), far))
        elif r < 0.45:
            queries.append((("!", far), rng.choice([far, ("T",)])))
        elif r < 0.6:
            queries.append((rng.choice([y, ("!", y)]), ("&", far, rng.choice(o))))
        elif r < 0.75:
            queries.append((rng.choice([y, ("!", y), far]), ("|", far, rng.choice(o))))
        elif r < 0.85:
            queries.append((rng.choice([y, ("!", y)]), rng.choice(xs)))
        else:
            queries.append(gen_cond(rng, n, 2, 0.0))
    return conds, queries


def gen_subsumed_case(rng: random.Random, n: int):
    """a conditional subsumed by another on the same guard ((b|a) next to (b,c|a), or (c|a) next to (c|a,b)): every world falsifying
    the weaker one falsifies the stronger one too, so one of them may carry impact 0 in a c-representation and the two share clauses of
    their material implications; queries compare two complete worlds (or small sets of worlds) under the guard; n >= 3;
    returns (conds, queries)"""
    atoms = list(range(n))
    rng.shuffle(atoms)
    a, b, c = [("a", x) for x in atoms[:3]]
    lit = lambda x: x if rng.random() < 0.8 else ("!", x)      # noqa: E731
    lb, lc = lit(b), lit(c)
    guard = a if rng.random() < 0.8 else ("T",)
    r = rng.random()
    if r < 0.5:
        conds = [(lb, guard), (("&", lb, lc), guard)]
    elif r < 0.8:
        conds = [(lc, guard), (lc, ("&", guard, lb) if guard != ("T",) else lb)]
    else:
        conds = [(lb, guard), (("&", lb, lc), guard), (lc, guard)]
    if n >= 4 and rng.random() < 0.5:
        d = ("a", atoms[3])
        conds.append(rng.choice([(d, lc), (lit(d), guard), (("!", lb), ("&", guard, d) if guard != ("T",) else d)]))
    if rng.random() < 0.25:
        conds.append(gen_cond(rng, n, 1, 0.0))
    rng.shuffle(conds)

    def world_fm(w):
        f = None
        for i, bit in enumerate(w):
            x = ("a", i) if bit else ("!", ("a", i))
            f = x if f is None else ("&", f, x)
        return f

    W = [w for w in all_worlds(n) if guard == ("T",) or f_eval(guard, w)]
    queries = []
    for _ in range(6):
        r = rng.random()
        if r < 0.55 and len(W) >= 2:
            w1, w2 = rng.sample(W, 2)
            queries.append((world_fm(w1), ("|", world_fm(w1), world_fm(w2))))
        elif r < 0.8 and len(W) >= 3:
            ws = rng.sample(W, 3)
            queries.append((("|", world_fm(ws[0]), world_fm(ws[1])), ("|", ("|", world_fm(ws[0]), world_fm(ws[1])), world_fm(ws[2]))))
        elif r < 0.9:
            x, y = rng.sample([b, c] + ([("a", atoms[3])] if n >= 4 else []), 2)
            g2 = ("&", guard, ("|", ("&", x, ("!", y)), ("&", ("!", x), y))) if guard != ("T",) else ("|", ("&", x, ("!", y)), ("&", ("!", x), y))
            queries.append((rng.choice([x, y, ("!", x)]), g2))
        else:
            queries.append(gen_cond(rng, n, 2, 0.0))
    return conds, queries


def gen_flat_case(rng: random.Random, n: int):
    """independent defaults in one flat layer, (l_i|Top) or (l_i|guard): worlds violating different defaults have
    incomparable falsification sets, so one layer has several minimal correction sets; returns (conds, queries)"""
    atoms = list(range(n))
    rng.shuffle(atoms)
    k = rng.randint(3, max(3, min(n, 4))) if n >= 3 else n
    lits = [("a", a) if rng.random() < 0.8 else ("!", ("a", a)) for a in atoms[:k]]
    guard = ("T",)
    if k < n and rng.random() < 0.3:
        guard = ("a", atoms[k])
    conds = [(l, guard) for l in lits]
    if rng.random() < 0.25:
        conds.append(gen_cond(rng, n, 1, 0.0))
    rng.shuffle(conds)

    def neg(l):
        return l[1] if l[0] == "!" else ("!", l)

    queries = []
    for _ in range(6):
        i, j = rng.sample(range(k), 2)
        rest = [l for t, l in enumerate(lits) if t not in (i, j)] or lits
        x = rng.choice(rest)
        x = x if rng.random() < 0.7 else neg(x)
        r = rng.random()
        if r < 0.45:
            ante = ("|", neg(lits[i]), neg(lits[j]))
        elif r < 0.65:
            ante = ("!", ("&", lits[i], lits[j]))
        elif r < 0.8:
            ante = neg(lits[i])
        else:
            ante = gen_formula(rng, n, 2, 0.0)
        if guard != ("T",) and rng.random() < 0.7:
            ante = ("&", guard, ante)
        queries.append((x, ante))
    return conds, queries


def gen_chain_case(rng: random.Random, n: int):
    """exception chain s_m < ... < s_1 < c with alternating property f: (f|c), (!f|s_1), (c|s_1), (f|s_2), (s_1|s_2) ...
    gives m + 1 tolerance layers (m = n - 2); returns (conds, queries)"""
    atoms = list(range(n))
    rng.shuffle(atoms)
    c, f = ("a", atoms[0]), ("a", atoms[1])
    subs = [("a", a) for a in atoms[2:]]
    if len(subs) > 3:
        subs = subs[:rng.randint(2, 3)] if rng.random() < 0.7 else subs
    pos = rng.random() < 0.8
    conds = [(f if pos else ("!", f), c)]
    prev = c
    for i, s in enumerate(subs):
        sign = pos if i % 2 else not pos
        conds.append((f if sign else ("!", f), s))
        conds.append((prev, s))
        prev = s
    if rng.random() < 0.3:
        conds.append(gen_cond(rng, n, 1, 0.0))
    rng.shuffle(conds)
    lits = [c, f] + subs
    queries = []
    for _ in range(6):
        r = rng.random()
        x = rng.choice(lits)
        x = x if rng.random() < 0.6 else ("!", x)
        if r < 0.25:
            queries.append((x, ("T",)))
        elif r < 0.6:
            queries.append((x, rng.choice(subs[-2:] if subs else [c])))
        elif r < 0.8:
            a1, a2 = rng.sample(lits, 2)
            queries.append((x, ("&", a1, a2) if rng.random() < 0.6 else ("|", a1, a2)))
        else:
            queries.append(gen_cond(rng, n, 2, 0.0))
    return conds, queries


# --------------------------------------------------------------------------------------
# brute-force helpers used only to *classify* inputs for the evidence (never a verdict)
# --------------------------------------------------------------------------------------

def all_worlds(n):
    return [[bool((i >> (n - 1 - j)) & 1) for j in range(n)] for i in range(2 ** n)]


def c_ver(c, w):
    return f_eval(c[1], w) and f_eval(c[0], w)


def c_fal(c, w):
    return f_eval(c[1], w) and not f_eval(c[0], w)


def py_partition(conds, W, weakly=False):
    rest = list(range(len(conds)))
    part = []
    while rest:
        ok = [i for i in rest if any(c_ver(conds[i], w) and not any(c_fal(conds[j], w) for j in rest) for w in W)]
        if not ok:
            if weakly:
                if not any(not any(c_fal(conds[j], w) for j in rest) for w in W):
                    return None
                part.append(rest)
                return part
            return None
        part.append(ok)
        rest = [i for i in rest if i not in ok]
    if weakly:
        part.append([])
    return part


# --------------------------------------------------------------------------------------
# implementation side
# --------------------------------------------------------------------------------------

def make_bb(names, keyed, name="kb", sig=None, alias=False):
    """BeliefBase with the given keys (programmatic construction, as in the BeliefBase docstring)"""
    from inference.belief_base import BeliefBase
    from inference.conditional import Conditional

    d = {}
    seen = {}
    for k, c in keyed:
        sig_ = json.dumps([c[0], c[1]])
        if alias and sig_ in seen and zlib.crc32(sig_.encode()) % 2 == 0:
            # a conditional listed twice may be the very same Conditional object under two keys (a base assembled from a pool)
            d[k] = seen[sig_]
            continue
        cond = Conditional(f_pysmt(c[0], names), f_pysmt(c[1], names), cond_text(c, names))
        cond.index = k
        d[k] = cond
        seen[sig_] = cond
    return BeliefBase(list(names if sig is None else names[:sig]), d, name)


def make_queries(names, keyed):
    from inference.conditional import Conditional
    from inference.queries import Queries

    d = {}
    for k, c in keyed:
        d[k] = Conditional(f_pysmt(c[0], names), f_pysmt(c[1], names), cond_text(c, names))
    return Queries(d)


def impl_answers(names, keyed_base, keyed_queries, system, weakly=False, pmaxsat="rc2", sig=None, **inf_kw):
    """returns ('ok', [bool...]) or ('err', class-name, message)"""
    from inference.inference_manager import InferenceManager

    try:
        bb = make_bb(names, keyed_base, sig=sig, alias=True)     # answers do not depend on object identity; partitions of OBJECTS would
        qs = make_queries(names, keyed_queries)
        with warnings.catch_warnings():
            warnings.simplefilter("ignore")
            m = InferenceManager(bb, system, pmaxsat_solver=pmaxsat, weakly=weakly)
            if inf_kw.pop("_own", False):
                # a query that is one of the base's conditionals is asked with the base's OWN Conditional object (as Queries(bb) does)
                own = {json.dumps([c[0], c[1]]): k for k, c in keyed_base}
                for k, c in keyed_queries:
                    bk = own.get(json.dumps([c[0], c[1]]))
                    if bk is not None:
                        qs.conditionals[k] = bb.conditionals[bk]
            if inf_kw.pop("_shared", False) and keyed_queries:
                # the very same Queries object (and its Conditional objects) has already been used: by another operator on a
                # copy of the base, and as the conditionals of a belief base that went through the consistency test
                from inference.belief_base import BeliefBase as _BB
                from inference.consistency_sat import consistency as _cons

                try:
                    other = "system-z" if system != "system-z" else "p-entailment"
                    InferenceManager(make_bb(names, keyed_base, sig=sig), other, weakly=weakly).inference(qs)
                    _cons(_BB(list(names), dict(qs.conditionals), "shared"), weakly=True)
                except Exception:  # noqa: BLE001  (what the earlier use does is not the concern of this call)
                    pass
            if inf_kw.pop("_warmup", False) and keyed_queries:
                # an earlier call on the same manager (its first query alone) must not change what the batch gets
                m.inference(make_queries(names, keyed_queries[:1]))
            df = m.inference(qs, **inf_kw)
        return ("ok", [bool(x) for x in df["result"]])
    except AssertionError as e:  # preprocess_belief_base refuses via assert
        msg = str(e)
        if "empty" in msg:
            return ("err", "empty", msg)
        if "inconsistent" in msg:
            return ("err", "inconsistent", msg)
        return ("err", "AssertionError", msg)
    except Exception as e:  # noqa: BLE001
        return ("err", type(e).__name__, str(e)[:200])


# --------------------------------------------------------------------------------------
# Lean side
# --------------------------------------------------------------------------------------

class DriverError(Exception):
    pass


def ensure_built(clean: bool = False):
    """lake build (no-op when built). Returns (ok, log)."""
    if clean:
        subprocess.run(["lake", "clean"], cwd=LEAN_DIR, capture_output=True, text=True)
    p = subprocess.run(["lake", "build", "InfOCFModel", "driver"], cwd=LEAN_DIR, capture_output=True, text=True)
    return p.returncode == 0 and os.path.exists(DRIVER), (p.stdout + p.stderr)[-4000:]


def driver_batch(lines):
    """run the native driver on request lines; returns list of response lines"""
    if not lines:
        return []
    p = subprocess.run([DRIVER], input="\n".join(lines) + "\n", capture_output=True, text=True)
    out = p.stdout.split("\n")
    if out and out[-1] == "":
        out.pop()
    if len(out) != len(lines):
        raise DriverError(f"driver returned {len(out)} lines for {len(lines)} requests; rc={p.returncode}; stderr={p.stderr[-500:]}")
    for i, o in enumerate(out):
        if o.startswith("ERROR") or o.startswith("MISMATCH"):
            raise DriverError(f"driver: {o} on request: {lines[i]}")
    return out


# --------------------------------------------------------------------------------------
# audit of the proofs
# --------------------------------------------------------------------------------------

FORBIDDEN = ["sorry", "admit", "native_decide", "bv_decide", "implemented_by", "unsafe ", "maxHeartbeats 0"]


def _strip_comments(src: str) -> str:
    out = []
    i = 0
    depth = 0
    n = len(src)
    while i < n:
        if src.startswith("/-", i):
            depth += 1
            i += 2
            continue
        if depth and src.startswith("-/", i):
            depth -= 1
            i += 2
            continue
        if depth:
            i += 1
            continue
        if src.startswith("--", i):
            j = src.find("\n", i)
            i = n if j < 0 else j
            continue
        out.append(src[i])
        i += 1
    return "".join(out)


def grep_forbidden():
    hits = []
    for root, _, files in os.walk(LEAN_DIR):
        if ".lake" in root:
            continue
        for fn in files:
            if not fn.endswith(".lean"):
                continue
            p = os.path.join(root, fn)
            src = _strip_comments(open(p, encoding="utf-8").read())
            for ln, line in enumerate(src.split("\n"), 1):
                for w in FORBIDDEN:
                    if w in line:
                        hits.append(f"{os.path.relpath(p, VERIF)}:{ln}: {w.strip()}")
                if line.startswith("axiom "):
                    hits.append(f"{os.path.relpath(p, VERIF)}:{ln}: axiom")
    return hits


def audit(theorems):
    """#print axioms for the given fully-qualified theorem names.
    returns dict name -> (ok, axioms or error text)"""
    if not theorems:
        return {}
    src = "import InfOCFModel\n" + "\n".join(f"#print axioms {t}" for t in theorems) + "\n"
    tmp = os.path.join(LEAN_DIR, ".lake", f"audit_{os.getpid()}.lean")
    with open(tmp, "w") as fh:
        fh.write(src)
    try:
        p = subprocess.run(["lake", "env", "lean", tmp], cwd=LEAN_DIR, capture_output=True, text=True)
    finally:
        try:
            os.remove(tmp)
        except OSError:
            pass
    text = p.stdout + p.stderr
    res = {}
    for t in theorems:
        short = t
        ok = False
        info = "not found in audit output"
        marker1 = f"'{short}' depends on axioms: ["
        marker2 = f"'{short}' does not depend on any axioms"
        if marker2 in text:
            ok, info = True, []
        elif marker1 in text:
            seg = text.split(marker1, 1)[1].split("]", 1)[0]
            axs = [a.strip() for a in seg.replace("\n", " ").split(",") if a.strip()]
            ok = set(axs) <= ALLOWED_AXIOMS
            info = axs
        else:
            # error text mentioning the theorem
            for line in text.split("\n"):
                if short in line:
                    info = line.strip()[:300]
                    break
        res[t] = (ok, info)
    return res


# --------------------------------------------------------------------------------------
# reporting
# --------------------------------------------------------------------------------------

def write_replay(prop, payload) -> str:
    os.makedirs(REPLAY_DIR, exist_ok=True)
    blob = json.dumps(payload, sort_keys=True, default=str)
    h = hashlib.sha1(blob.encode()).hexdigest()[:12]
    path = os.path.join(REPLAY_DIR, f"{prop}-{h}.json")
    with open(path, "w") as fh:
        json.dump(payload, fh, indent=1, sort_keys=True, default=str)
    return path


def write_evidence(prop, tier, coverage, wall_s, violations, assumptions):
    os.makedirs(EVIDENCE_DIR, exist_ok=True)
    ev = {
        "property_id": prop,
        "tier": tier,
        "seed": seed(),
        "level": "proof",
        "coverage": coverage,
        "assumptions": assumptions,
        "wall_s": round(wall_s, 2),
        "violations": violations,
    }
    with open(os.path.join(EVIDENCE_DIR, f"{prop}.json"), "w") as fh:
        json.dump(ev, fh, indent=1, default=str)


def load_known_findings():
    p = os.path.join(VERIF, "KNOWN_FINDINGS.json")
    if not os.path.exists(p):
        return []
    return json.load(open(p))["findings"]


class Timer:
    def __init__(self):
        self.t0 = time.time()

    def s(self):
        return time.time() - self.t0


# --------------------------------------------------------------------------------------
# generic shrinker: drop elements of list-valued fields while the same failure persists
# --------------------------------------------------------------------------------------

def generic_shrink(fail, recheck, fields=("base", "queries", "ops", "facts", "revs", "conds", "formulas"), budget=40, keep=None):
    """`recheck(case)` returns a failure dict (with "signature") or None; candidates that make recheck raise are skipped.
    `keep(field, case)` may name a minimum length per field (default 1 for "base", 0 otherwise)."""
    sig = fail.get("signature")
    best = fail
    progress = True
    while progress and budget > 0:
        progress = False
        case = best["case"]
        for fld in fields:
            seq = case.get(fld)
            if not isinstance(seq, list) or not seq:
                continue
            lo = keep(fld, case) if keep else (1 if fld == "base" else 0)
            if len(seq) <= lo:
                continue
            for i in range(len(seq) - 1, -1, -1):
                if budget <= 0:
                    break
                budget -= 1
                cand = dict(case)
                cand[fld] = seq[:i] + seq[i + 1:]
                try:
                    f = recheck({k: v for k, v in cand.items()})
                except Exception:  # noqa: BLE001
                    f = None
                if f and f.get("signature") == sig:
                    best, progress = f, True
                    break
            if progress:
                break
    return best
