import InfOCFModel.Basic
namespace InfOCF

inductive Tok where
  | id (n : Nat) | top | bot | not | comma | semi | lpar | rpar
deriving DecidableEq, Repr

/-- stratified grammar: level 0 = negation/atoms/parentheses, 1 = conjunctions (left assoc), 2 = disjunctions -/
inductive D : Nat → List Tok → Fm → Prop
  | atom (n : Nat) : D 0 [.id n] (.atom n)
  | top : D 0 [.top] .top
  | bot : D 0 [.bot] .bot
  | neg {ts f} : D 0 ts f → D 0 (.not :: ts) (.neg f)
  | paren {ts f} : D 2 ts f → D 0 (.lpar :: (ts ++ [.rpar])) f
  | up1 {ts f} : D 0 ts f → D 1 ts f
  | up2 {ts f} : D 1 ts f → D 2 ts f
  | conj {ts1 ts2 f1 f2} : D 1 ts1 f1 → D 0 ts2 f2 → D 1 (ts1 ++ .comma :: ts2) (.and f1 f2)
  | disj {ts1 ts2 f1 f2} : D 2 ts1 f1 → D 1 ts2 f2 → D 2 (ts1 ++ .semi :: ts2) (.or f1 f2)

mutual
def parse : Nat → Nat → List Tok → Option (Fm × List Tok)
  | 0, _, _ => none
  | fuel+1, 0, ts =>
    match ts with
    | .id n :: r => some (.atom n, r)
    | .top :: r => some (.top, r)
    | .bot :: r => some (.bot, r)
    | .not :: r =>
      match parse fuel 0 r with
      | some (f, r') => some (.neg f, r')
      | none => none
    | .lpar :: r =>
      match parse fuel 2 r with
      | some (f, .rpar :: r') => some (f, r')
      | _ => none
    | _ => none
  | fuel+1, lvl+1, ts =>
    match parse fuel lvl ts with
    | some (f, r) => loop fuel (lvl+1) f r
    | none => none
def loop : Nat → Nat → Fm → List Tok → Option (Fm × List Tok)
  | 0, _, _, _ => none
  | fuel+1, lvl, f, ts =>
    if lvl = 1 then
      match ts with
      | .comma :: r =>
        match parse fuel 0 r with
        | some (g, r') => loop fuel 1 (.and f g) r'
        | none => none
      | _ => some (f, ts)
    else
      match ts with
      | .semi :: r =>
        match parse fuel 1 r with
        | some (g, r') => loop fuel 2 (.or f g) r'
        | none => none
      | _ => some (f, ts)
end

def parseFm (ts : List Tok) : Option Fm :=
  match parse (3 * ts.length + 3) 2 ts with
  | some (f, []) => some f
  | _ => none

#eval parseFm [.id 0, .comma, .id 1, .semi, .not, .id 2, .comma, .id 3]
#eval parseFm [.not, .lpar, .id 0, .semi, .id 1, .rpar, .comma, .id 2]
#eval parseFm [.id 0, .id 1]

/-! ### soundness -/
theorem sound : ∀ (fuel : Nat),
    (∀ lvl ts f r, lvl ≤ 2 → parse fuel lvl ts = some (f, r) → ∃ pre, ts = pre ++ r ∧ D lvl pre f) ∧
    (∀ lvl f0 ts f r, (lvl = 1 ∨ lvl = 2) → loop fuel lvl f0 ts = some (f, r) →
        ∀ pre0, D lvl pre0 f0 → ∃ pre, ts = pre ++ r ∧ D lvl (pre0 ++ pre) f) := by
  intro fuel
  induction fuel with
  | zero =>
    constructor
    · intro lvl ts f r _ h; simp [parse] at h
    · intro lvl f0 ts f r _ h; simp [loop] at h
  | succ n ih =>
    obtain ⟨ihp, ihl⟩ := ih
    constructor
    · intro lvl ts f r hl h
      cases lvl with
      | zero =>
        cases ts with
        | nil => simp [parse] at h
        | cons t rest =>
          cases t <;> simp only [parse] at h
          case id k => simp at h; obtain ⟨rfl, rfl⟩ := h; exact ⟨[.id k], rfl, D.atom k⟩
          case top => simp at h; obtain ⟨rfl, rfl⟩ := h; exact ⟨[.top], rfl, D.top⟩
          case bot => simp at h; obtain ⟨rfl, rfl⟩ := h; exact ⟨[.bot], rfl, D.bot⟩
          case not =>
            split at h
            · rename_i g r' hp
              simp at h; obtain ⟨rfl, rfl⟩ := h
              obtain ⟨pre, rfl, hd⟩ := ihp 0 rest g r' (by omega) hp
              exact ⟨.not :: pre, rfl, D.neg hd⟩
            · simp at h
          case lpar =>
            split at h
            · rename_i g r' hp
              simp at h; obtain ⟨rfl, rfl⟩ := h
              obtain ⟨pre, hpre, hd⟩ := ihp 2 rest g (.rpar :: r') (by omega) hp
              refine ⟨.lpar :: (pre ++ [.rpar]), ?_, D.paren hd⟩
              simp [hpre]
            · simp at h
          all_goals simp at h
      | succ l =>
        simp only [parse] at h
        split at h
        · rename_i g r' hp
          obtain ⟨pre0, rfl, hd0⟩ := ihp l ts g r' (by omega) hp
          have hl' : l + 1 = 1 ∨ l + 1 = 2 := by omega
          have hup : D (l+1) pre0 g := by
            rcases hl' with h1 | h2
            · have : l = 0 := by omega
              subst this; exact D.up1 hd0
            · have : l = 1 := by omega
              subst this; exact D.up2 hd0
          obtain ⟨pre, rfl, hd⟩ := ihl (l+1) g r' f r hl' h pre0 hup
          exact ⟨pre0 ++ pre, by simp, hd⟩
        · simp at h
    · intro lvl f0 ts f r hl h pre0 hd0
      simp only [loop] at h
      rcases hl with rfl | rfl
      · simp only [if_true] at h
        split at h
        · rename_i rest
          split at h
          · rename_i g r' hp
            obtain ⟨pre1, rfl, hd1⟩ := ihp 0 rest g r' (by omega) hp
            obtain ⟨pre2, rfl, hd2⟩ := ihl 1 (.and f0 g) r' f r (Or.inl rfl) h (pre0 ++ .comma :: pre1) (D.conj hd0 hd1)
            exact ⟨.comma :: pre1 ++ pre2, by simp, by simpa using hd2⟩
          · simp at h
        · simp at h; obtain ⟨rfl, rfl⟩ := h
          exact ⟨[], by simp, by simpa using hd0⟩
      · simp only [show (2 : Nat) ≠ 1 by omega, if_false] at h
        split at h
        · rename_i rest
          split at h
          · rename_i g r' hp
            obtain ⟨pre1, rfl, hd1⟩ := ihp 1 rest g r' (by omega) hp
            obtain ⟨pre2, rfl, hd2⟩ := ihl 2 (.or f0 g) r' f r (Or.inr rfl) h (pre0 ++ .semi :: pre1) (D.disj hd0 hd1)
            exact ⟨.semi :: pre1 ++ pre2, by simp, by simpa using hd2⟩
          · simp at h
        · simp at h; obtain ⟨rfl, rfl⟩ := h
          exact ⟨[], by simp, by simpa using hd0⟩

theorem parseFm_sound (ts : List Tok) (f : Fm) (h : parseFm ts = some f) : D 2 ts f := by
  unfold parseFm at h
  split at h
  · rename_i g hp
    simp at h; subst h
    obtain ⟨pre, hpre, hd⟩ := (sound _).1 2 ts g [] (by omega) hp
    simp at hpre; subst hpre; exact hd
  · simp at h

end InfOCF

namespace InfOCF

def notComma : List Tok → Prop
  | .comma :: _ => False
  | _ => True

/-- completeness statement, by level (continuation-passing with explicit fuel bounds) -/
def K : Nat → List Tok → Fm → Prop
  | 0, pre, f => ∀ r fuel, 3 * pre.length ≤ fuel → parse fuel 0 (pre ++ r) = some (f, r)
  | 1, pre, f => ∀ r x n, (∀ fuel, n ≤ fuel → loop fuel 1 f r = some x) →
      ∀ fuel, n + 3 * pre.length + 1 ≤ fuel → parse fuel 1 (pre ++ r) = some x
  | 2, pre, f => ∀ r x n, notComma r → (∀ fuel, n ≤ fuel → loop fuel 2 f r = some x) →
      ∀ fuel, n + 3 * pre.length + 2 ≤ fuel → parse fuel 2 (pre ++ r) = some x
  | _, _, _ => True

theorem loop1_stop (f : Fm) (r : List Tok) (h : notComma r) : ∀ fuel, 1 ≤ fuel → loop fuel 1 f r = some (f, r) := by
  intro fuel hf
  cases fuel with
  | zero => omega
  | succ k =>
    simp only [loop, if_true]
    cases r with
    | nil => rfl
    | cons t rest => cases t <;> simp_all [notComma]

theorem loop2_stop (f : Fm) (r : List Tok) (h : ∀ rest, r ≠ .semi :: rest) :
    ∀ fuel, 1 ≤ fuel → loop fuel 2 f r = some (f, r) := by
  intro fuel hf
  cases fuel with
  | zero => omega
  | succ k =>
    simp only [loop, show (2 : Nat) ≠ 1 by omega, if_false]

theorem complete_aux : ∀ lvl pre f, D lvl pre f → K lvl pre f := by
  intro lvl pre f h
  induction h with
  | atom n =>
    intro r fuel hf
    cases fuel with
    | zero => simp at hf
    | succ k => simp [parse]
  | top =>
    intro r fuel hf
    cases fuel with
    | zero => simp at hf
    | succ k => simp [parse]
  | bot =>
    intro r fuel hf
    cases fuel with
    | zero => simp at hf
    | succ k => simp [parse]
  | @neg ts f _ ih =>
    intro r fuel hf
    cases fuel with
    | zero => simp at hf
    | succ k =>
      have := ih r k (by simp only [List.length_cons] at hf; omega)
      simp [parse, this]
  | @paren ts f _ ih =>
    intro r fuel hf
    cases fuel with
    | zero => simp at hf
    | succ k =>
      simp only [List.length_cons, List.length_append, List.length_nil] at hf
      have hstop := loop2_stop f (.rpar :: r) (by intro rest h; cases h)
      have := ih (.rpar :: r) (f, .rpar :: r) 1 (by simp [notComma]) hstop k (by omega)
      simp only [List.cons_append, List.append_assoc, List.nil_append, parse]
      rw [this]
  | @up1 ts f _ ih =>
    intro r x n hcont fuel hf
    cases fuel with
    | zero => omega
    | succ k =>
      have h0 := ih r k (by omega)
      simp only [parse, h0]
      exact hcont k (by omega)
  | @up2 ts f _ ih =>
    intro r x n hnc hcont fuel hf
    cases fuel with
    | zero => omega
    | succ k =>
      have hn : 1 ≤ n := by
        cases n with
        | zero => have := hcont 0 (Nat.le_refl _); simp [loop] at this
        | succ m => omega
      have h1 := ih r (f, r) 1 (loop1_stop f r hnc) k (by omega)
      simp only [parse, h1]
      exact hcont k (by omega)
  | @conj ts1 ts2 f1 f2 _ _ ih1 ih2 =>
    intro r x n hcont fuel hf
    simp only [List.length_append, List.length_cons] at hf
    have hcont' : ∀ fuel, n + 3 * ts2.length + 1 ≤ fuel → loop fuel 1 f1 (.comma :: (ts2 ++ r)) = some x := by
      intro fuel hfu
      cases fuel with
      | zero => omega
      | succ k =>
        have h0 := ih2 r k (by omega)
        simp only [loop, if_true, h0]
        exact hcont k (by omega)
    have := ih1 (.comma :: (ts2 ++ r)) x (n + 3 * ts2.length + 1) hcont' fuel (by omega)
    simpa [List.append_assoc] using this
  | @disj ts1 ts2 f1 f2 _ _ ih1 ih2 =>
    intro r x n hnc hcont fuel hf
    simp only [List.length_append, List.length_cons] at hf
    have hn : 1 ≤ n := by
      cases n with
      | zero => have := hcont 0 (Nat.le_refl _); simp [loop] at this
      | succ m => omega
    have hcont' : ∀ fuel, n + 3 * ts2.length + 3 ≤ fuel → loop fuel 2 f1 (.semi :: (ts2 ++ r)) = some x := by
      intro fuel hfu
      cases fuel with
      | zero => omega
      | succ k =>
        have h1 := ih2 r (f2, r) 1 (loop1_stop f2 r hnc) k (by omega)
        simp only [loop, show (2 : Nat) ≠ 1 by omega, if_false, h1]
        exact hcont k (by omega)
    have := ih1 (.semi :: (ts2 ++ r)) x (n + 3 * ts2.length + 3) (by simp [notComma]) hcont' fuel (by omega)
    simpa [List.append_assoc] using this

theorem parseFm_complete (ts : List Tok) (f : Fm) (h : D 2 ts f) : parseFm ts = some f := by
  have hK := complete_aux 2 ts f h
  have := hK [] (f, []) 1 (by simp [notComma]) (loop2_stop f [] (by intro rest h; cases h))
    (3 * ts.length + 3) (by omega)
  simp only [List.append_nil] at this
  simp [parseFm, this]

/-- the parser decides the grammar; in particular the reading is unique -/
theorem parseFm_iff (ts : List Tok) (f : Fm) : parseFm ts = some f ↔ D 2 ts f :=
  ⟨parseFm_sound ts f, parseFm_complete ts f⟩

theorem D_unique (ts : List Tok) (f g : Fm) (hf : D 2 ts f) (hg : D 2 ts g) : f = g := by
  have a := parseFm_complete ts f hf
  have b := parseFm_complete ts g hg
  rw [a] at b; exact Option.some.inj b

/-- a printer with minimal parentheses for each precedence level -/
def pp : Nat → Fm → List Tok
  | _, .top => [.top]
  | _, .bot => [.bot]
  | _, .atom n => [.id n]
  | _, .neg a => .not :: pp 0 a
  | lvl, .and a b =>
    if lvl = 0 then .lpar :: (pp 1 a ++ .comma :: pp 0 b) ++ [.rpar]
    else pp 1 a ++ .comma :: pp 0 b
  | lvl, .or a b =>
    if lvl ≤ 1 then .lpar :: (pp 2 a ++ .semi :: pp 1 b) ++ [.rpar]
    else pp 2 a ++ .semi :: pp 1 b


end InfOCF
