import InfOCFModel.Ops
import InfOCFModel.Run
/-! Model of `consistency_diagnostics` and of fact augmentation. -/
namespace InfOCF

structure Diag where
  facts : Option Bool
  bb : Option Bool
  bbw : Option Bool
  comb : Option Bool
  infinc : Option Bool
deriving Repr, DecidableEq

/-- `(Bottom | ¬φ)` -/
def factCond (k : Nat) (φ : Fm) : Cond := ⟨.bot, .neg φ, k⟩

def maxKey (D : List Cond) : Nat := D.foldl (fun m c => max m c.key) 0

/-- `augment_belief_base_with_facts`: keys continue after the largest existing key -/
def augment (D : List Cond) (facts : List Fm) : List Cond :=
  D ++ facts.zipIdx.map fun p => factCond (maxKey D + 1 + p.2) p.1

def lastSize (P : List (List Cond)) : Nat := (P.getLastD []).length

def factsSat (Ω : List World) (facts : List Fm) : Bool := Ω.any fun w => facts.all (·.eval w)

/-- what the code computes (at most two partition runs; `consistent` read off the extended run) -/
def diagCode (ext usesFacts : Bool) (Ω : List World) (D : List Cond) (facts : List Fm) : Diag :=
  let f := if usesFacts then some (factsSat Ω facts) else none
  let baseE := if ext then partE Ω D else none
  let bb := if ext then (match baseE with | none => some false | some P => some (lastSize P == 0))
            else some (partS Ω D).isSome
  let bbw := if ext then some baseE.isSome else none
  let comb := if usesFacts then some (partFor ext Ω (augment D facts)).isSome else none
  let infinc :=
    if usesFacts && ext then
      match partE Ω (augment D facts), baseE with
      | some Pc, some Pb => some (decide (lastSize Pc > lastSize Pb))
      | _, _ => none
    else none
  ⟨f, bb, bbw, comb, infinc⟩

/-- the flags by their definitions -/
def diagSpec (ext usesFacts : Bool) (Ω : List World) (D : List Cond) (facts : List Fm) : Diag :=
  ⟨if usesFacts then some (factsSat Ω facts) else none,
   some (partS Ω D).isSome,
   if ext then some (partE Ω D).isSome else none,
   if usesFacts then some (partFor ext Ω (augment D facts)).isSome else none,
   if usesFacts && ext then
     match partE Ω (augment D facts), partE Ω D with
     | some Pc, some Pb => some (decide (lastSize Pc > lastSize Pb))
     | _, _ => none
   else none⟩

end InfOCF
