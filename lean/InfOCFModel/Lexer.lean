import InfOCFModel.Parser
/-!
# Lexer and file-level grammar of `parser/CKB.g4`, as `parser/Wrappers.py` drives them

`lex` follows the ANTLR lexer (maximal munch for identifiers, keywords win over `ID` on equal length,
`WS`/`COMMENT`/`BLOCKCOMMENT` skipped, any other character is an error). The file-level functions
follow the grammar rules `ckbs`, `signature`, `myid`, `conditionals`, `condition` and require end of
input; formulas are parsed by `parse` (`Parser.lean`), for which soundness, completeness and
uniqueness with respect to the stratified grammar "`!` tighter than `,` tighter than `;`" are proved.
-/
namespace InfOCF

inductive LTok where
  | id (s : String) | kwSignature | kwConditionals
  | comma | semi | not | lpar | rpar | bar | lbrace | rbrace | newline
deriving DecidableEq, Repr

def isIdStart (c : Char) : Bool := c.isAlpha
def isIdChar (c : Char) : Bool := c.isAlphanum || c == '_' || c == '-'

/-- skip a `//` comment: everything up to (not including) the next `\r` or `\n` -/
def skipLine : List Char → List Char
  | [] => []
  | c :: cs => if c == '\r' || c == '\n' then c :: cs else skipLine cs

/-- skip a `/* … */` comment body; `none` if it is not terminated -/
def skipBlock : List Char → Option (List Char)
  | [] => none
  | '*' :: '/' :: cs => some cs
  | _ :: cs => skipBlock cs

def takeId : List Char → List Char × List Char
  | [] => ([], [])
  | c :: cs => if isIdChar c then let (a, b) := takeId cs; (c :: a, b) else ([], c :: cs)

def lexFuel : Nat → List Char → Option (List LTok)
  | 0, [] => some []
  | 0, _ => none
  | _ + 1, [] => some []
  | fuel + 1, c :: cs =>
    if c == ' ' || c == '\t' then lexFuel fuel cs
    else if c == '\r' then
      match cs with
      | '\n' :: cs' => (lexFuel fuel cs').map (LTok.newline :: ·)
      | _ => (lexFuel fuel cs).map (LTok.newline :: ·)
    else if c == '\n' then (lexFuel fuel cs).map (LTok.newline :: ·)
    else if c == '/' then
      match cs with
      | '/' :: cs' => lexFuel fuel (skipLine cs')
      | '*' :: cs' =>
        match skipBlock cs' with
        | some rest => if rest.length ≤ cs'.length then lexFuel fuel rest else none
        | none => none
      | _ => none
    else if c == ',' then (lexFuel fuel cs).map (LTok.comma :: ·)
    else if c == ';' then (lexFuel fuel cs).map (LTok.semi :: ·)
    else if c == '!' then (lexFuel fuel cs).map (LTok.not :: ·)
    else if c == '(' then (lexFuel fuel cs).map (LTok.lpar :: ·)
    else if c == ')' then (lexFuel fuel cs).map (LTok.rpar :: ·)
    else if c == '|' then (lexFuel fuel cs).map (LTok.bar :: ·)
    else if c == '{' then (lexFuel fuel cs).map (LTok.lbrace :: ·)
    else if c == '}' then (lexFuel fuel cs).map (LTok.rbrace :: ·)
    else if isIdStart c then
      let (a, rest) := takeId cs
      let s := String.ofList (c :: a)
      let t := if s == "signature" then LTok.kwSignature else if s == "conditionals" then LTok.kwConditionals else LTok.id s
      (lexFuel fuel rest).map (t :: ·)
    else none

def lex (s : String) : Option (List LTok) := lexFuel (s.length + 1) s.toList

/-! ### formulas with named atoms -/

inductive PF where
  | top | bot | var (s : String) | neg (a : PF) | and (a b : PF) | or (a b : PF)
deriving DecidableEq, Repr, Inhabited

def PF.ofFm (names : List String) : Fm → PF
  | .top => .top
  | .bot => .bot
  | .atom i => .var (names.getD i "")
  | .neg a => .neg (PF.ofFm names a)
  | .and a b => .and (PF.ofFm names a) (PF.ofFm names b)
  | .or a b => .or (PF.ofFm names a) (PF.ofFm names b)

def PF.show : PF → String
  | .top => "T"
  | .bot => "F"
  | .var s => "v:" ++ s
  | .neg a => "! " ++ a.show
  | .and a b => "& " ++ a.show ++ " " ++ b.show
  | .or a b => "| " ++ a.show ++ " " ++ b.show

/-- names occurring as identifiers, first occurrence first -/
def idNames (ts : List LTok) : List String :=
  (ts.filterMap fun t => match t with | .id s => some s | _ => none).eraseDups

/-- formula vocabulary of a token; `Top`/`Bottom` are the constants -/
def toFmTok (names : List String) : LTok → Option Tok
  | .id s => if s == "Top" then some .top else if s == "Bottom" then some .bot else some (.id (names.idxOf s))
  | .comma => some .comma
  | .semi => some .semi
  | .not => some .not
  | .lpar => some .lpar
  | .rpar => some .rpar
  | _ => none

/-- `parse_formula`: lex, parse the `formula` rule, require end of input -/
def parseFormulaText (s : String) : Option PF :=
  match lex s with
  | none => none
  | some ts =>
    let names := idNames ts
    match ts.mapM (toFmTok names) with
    | none => none
    | some fts => (parseFm fts).map (PF.ofFm names)

/-! ### file level -/

def skipNL : List LTok → List LTok
  | .newline :: r => skipNL r
  | r => r

/-- split the longest prefix of formula-vocabulary tokens that `parse` consumes at level 2 -/
def parseFmPrefix (names : List String) (ts : List LTok) : Option (PF × List LTok) :=
  -- the formula ends at the first token outside the formula vocabulary at parenthesis depth 0
  let rec split : List LTok → Nat → List LTok → Option (List LTok × List LTok)
    | [], _, _ => none
    | t :: r, depth, acc =>
      match t with
      | .lpar => split r (depth + 1) (t :: acc)
      | .rpar => if depth = 0 then some (acc.reverse, t :: r) else split r (depth - 1) (t :: acc)
      | .bar => if depth = 0 then some (acc.reverse, t :: r) else none
      | .id _ | .comma | .semi | .not => split r depth (t :: acc)
      | _ => none
  match split ts 0 [] with
  | none => none
  | some (pre, rest) =>
    match pre.mapM (toFmTok names) with
    | none => none
    | some fts => (parseFm fts).map fun f => (PF.ofFm names f, rest)

/-- rule `condition` -/
def parseConditions (names : List String) : Nat → List LTok → Option (List (PF × PF) × List LTok)
  | 0, _ => none
  | fuel + 1, ts =>
    match ts with
    | .lpar :: r =>
      match parseFmPrefix names r with
      | some (b, .bar :: r1) =>
        match parseFmPrefix names r1 with
        | some (a, .rpar :: r2) =>
          match r2 with
          | .comma :: r3 =>
            match parseConditions names fuel (skipNL r3) with
            | some (cs, r4) => some ((b, a) :: cs, r4)
            | none => none
          | _ => some ([(b, a)], skipNL r2)
        | _ => none
      | _ => none
    | _ => none

/-- rule `conditionals` (one block): name and conditionals -/
def parseBlock (names : List String) (ts : List LTok) : Option ((String × List (PF × PF)) × List LTok) :=
  match skipNL ts with
  | .kwConditionals :: .newline :: r =>
    match skipNL r with
    | .id name :: r1 =>
      match skipNL r1 with
      | .lbrace :: r2 =>
        match skipNL r2 with
        | .rbrace :: r3 => some ((name, []), skipNL r3)
        | r3 =>
          match parseConditions names (r3.length + 1) r3 with
          | some (cs, .rbrace :: r4) => some ((name, cs), skipNL r4)
          | _ => none
      | _ => none
    | _ => none
  | _ => none

def parseBlocks (names : List String) : Nat → List LTok → Option (List (String × List (PF × PF)))
  | 0, _ => none
  | fuel + 1, ts =>
    match parseBlock names ts with
    | none => none
    | some (b, []) => some [b]
    | some (b, r) => (parseBlocks names fuel r).map (b :: ·)

/-- rule `myid` -/
def parseIds : Nat → List LTok → Option (List String × List LTok)
  | 0, _ => none
  | fuel + 1, ts =>
    match ts with
    | .id s :: .comma :: r => (parseIds fuel r).map fun p => (s :: p.1, p.2)
    | .id s :: .newline :: r => some ([s], r)
    | _ => none

structure ParsedBase where
  signature : List String
  name : String
  conds : List (PF × PF)
deriving Repr

/-- `parse_belief_base` on a string: rule `ckbs`, end of input required, visitor checks on the signature,
first block returned -/
def parseBaseToks (names : List String) (ts : List LTok) : Option ParsedBase :=
  match skipNL ts with
  | .kwSignature :: .newline :: r =>
    match parseIds (r.length + 1) (skipNL r) with
    | none => none
    | some (sig, r1) =>
      match parseBlocks names (r1.length + 1) r1 with
      | some (b :: _) =>
        if sig.eraseDups.length != sig.length || sig.contains "Top" || sig.contains "Bottom" then none
        else some ⟨sig, b.1, b.2⟩
      | _ => none
  | _ => none

def parseBaseText (s : String) : Option ParsedBase :=
  match lex s with
  | none => none
  | some ts => parseBaseToks (idNames ts) ts

/-- `parse_queries` on a string: a text containing "conditionals" is a full file, otherwise it is wrapped
in the dummy base of `parseQuery` -/
def parseQueriesText (s : String) : Option ParsedBase :=
  if (s.splitOn "conditionals").length > 1 then parseBaseText s
  else
    -- `parseQuery` returns the (possibly empty) dictionary; an empty one leaves `queries` unassigned → error
    match parseBaseText ("signature \n a,b,c,d,e,f \n conditionals \n Querydummy \n { \n " ++ s ++ "\n }") with
    | some b => if b.conds.isEmpty then none else some b
    | none => none

/-! ### printing (used by `Props/C10text.lean` and by the driver's `ftext` request) -/

def tokChars : LTok → List Char
  | .id s => s.toList
  | .comma => [',']
  | .semi => [';']
  | .not => ['!']
  | .lpar => ['(']
  | .rpar => [')']
  | .bar => ['|']
  | .lbrace => ['{']
  | .rbrace => ['}']
  | .newline => ['\n']
  | .kwSignature => ['s', 'i', 'g', 'n', 'a', 't', 'u', 'r', 'e']
  | .kwConditionals => ['c', 'o', 'n', 'd', 'i', 't', 'i', 'o', 'n', 'a', 'l', 's']

/-- every token followed by one blank -/
def unlexChars : List LTok → List Char
  | [] => []
  | t :: r => tokChars t ++ ' ' :: unlexChars r

/-- concrete token of a grammar token, atoms written with their names -/
def tokL (names : List String) : Tok → LTok
  | .id n => .id (names.getD n "")
  | .top => .id "Top"
  | .bot => .id "Bottom"
  | .not => .not
  | .comma => .comma
  | .semi => .semi
  | .lpar => .lpar
  | .rpar => .rpar

/-- the text of a formula: minimal parentheses, one blank after every token -/
def text (names : List String) (f : Fm) : String := String.ofList (unlexChars ((pp 2 f).map (tokL names)))


/-- tokens of a formula with named atoms -/
def fmToks (names : List String) (f : Fm) : List LTok := (pp 2 f).map (tokL names)

/-- tokens of one conditional `( B | A )` -/
def condToks (names : List String) (c : Fm × Fm) : List LTok :=
  .lpar :: (fmToks names c.1 ++ .bar :: (fmToks names c.2 ++ [.rpar]))

/-- conditionals separated by `,` and a line break -/
def condsToks (names : List String) : List (Fm × Fm) → List LTok
  | [] => []
  | [c] => condToks names c
  | c :: r => condToks names c ++ .comma :: .newline :: condsToks names r

/-- the signature line: identifiers separated by commas -/
def idsToks : List String → List LTok
  | [] => []
  | [s] => [.id s]
  | s :: r => .id s :: .comma :: idsToks r

/-- tokens of a belief-base file with one block -/
def baseToks (sig : List String) (name : String) (cs : List (Fm × Fm)) : List LTok :=
  .kwSignature :: .newline :: (idsToks sig ++ .newline :: .kwConditionals :: .newline :: .id name :: .lbrace :: .newline ::
    (condsToks sig cs ++ [.rbrace, .newline]))

/-- the text of the file -/
def baseText (sig : List String) (name : String) (cs : List (Fm × Fm)) : String :=
  String.ofList (unlexChars (baseToks sig name cs))


end InfOCF
