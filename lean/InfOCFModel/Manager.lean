import InfOCFModel.Ops
/-!
# The manager as a state machine (`InferenceManager.inference`, `Inference.inference`)

State carried between calls in `epistemic_state`: the preprocessing flag with the cached partition,
the query slot of the CNF dictionaries (overwritten by every query) and the size of the id pool
(grows with every query). A new operator instance is created per call; preprocessing is skipped
when the flag is set. Results are collected in a dictionary and the table is rebuilt from it.
-/
namespace InfOCF

abbrev Body := Cond → List (List Cond) → List World → Bool

structure QEntry where
  key : Nat
  text : String
  q : Cond
deriving Repr, DecidableEq

structure Row where
  key : Nat
  text : String
  result : Out
deriving Repr, DecidableEq

structure MState where
  pre : Option (Option (List (List Cond)))  -- `none`: not preprocessed; `some r`: cached partition (or refusal)
  slot : Option Cond                        -- query slot of the CNF dictionaries
  pool : Nat                                -- number of ids handed out so far
deriving Repr

def MState.init : MState := ⟨none, none, 0⟩

/-- the wrapper with the partition supplied from the cache instead of being recomputed -/
def wrapWith (weakly : Bool) (Ω : List World) (D : List Cond) (cached : Option (List (List Cond))) (q : Cond)
    (body : List (List Cond) → List World → Bool) : Out :=
  match D with
  | [] => .refuseEmpty
  | _ =>
    match cached with
    | none => .refuseIncons
    | some P =>
      if trivialQ Ω q then .val true
      else .val (body (finLayers weakly P) (feasible Ω (infLayer weakly P)))

theorem wrapWith_fresh (weakly : Bool) (Ω : List World) (D : List Cond) (q : Cond) (body) :
    wrapWith weakly Ω D (partFor weakly Ω D) q body = wrap weakly Ω D q body := by
  cases D with
  | nil => rfl
  | cons a t =>
    simp only [wrapWith, wrap]
    cases partFor weakly Ω (a :: t) <;> rfl

/-- preprocessing: done once, skipped afterwards -/
def MState.preprocess (weakly : Bool) (Ω : List World) (D : List Cond) (s : MState) : MState :=
  match s.pre with
  | some _ => s
  | none => { s with pre := some (partFor weakly Ω D) }

/-- one query against the (preprocessed) state: answer and the state it leaves behind -/
def askOne (weakly : Bool) (Ω : List World) (D : List Cond)
    (body : Body) (s : MState) (q : Cond) : MState × Out :=
  let cached := match s.pre with | some r => r | none => none
  ({ s with slot := some q, pool := s.pool + 1 }, wrapWith weakly Ω D cached q (body q))

/-- sequential evaluation: results dictionary keyed by the query key (later writes win) -/
def evalSeq (weakly : Bool) (Ω : List World) (D : List Cond) (body : Body) :
    MState → List QEntry → MState × List (Nat × Out)
  | s, [] => (s, [])
  | s, e :: rest =>
    let (s1, r) := askOne weakly Ω D body s e.q
    let (s2, rs) := evalSeq weakly Ω D body s1 rest
    (s2, (e.key, r) :: rs)

/-- parallel evaluation: every worker starts from a copy of the state; the manager's state is not
changed by the workers -/
def evalPar (weakly : Bool) (Ω : List World) (D : List Cond) (body : Body) (s : MState) (batch : List QEntry) :
    MState × List (Nat × Out) :=
  (s, batch.map fun e => (e.key, (askOne weakly Ω D body s e.q).2))

def dictGet (d : List (Nat × Out)) (k : Nat) : Option Out := (d.find? (·.1 == k)).map (·.2)

/-- last write wins, as in a Python dict -/
def dictOf (l : List (Nat × Out)) : List (Nat × Out) := l.reverse

/-- the table: one row per submitted query, looked up by key -/
def tableOf (results : List (Nat × Out)) (batch : List QEntry) : List Row :=
  batch.map fun e => ⟨e.key, e.text, (dictGet (dictOf results) e.key).getD .refuseEmpty⟩

/-- one `InferenceManager.inference` call -/
def call (weakly : Bool) (Ω : List World) (D : List Cond) (body : Body) (s : MState) (batch : List QEntry) (parallel : Bool) :
    MState × List Row :=
  let s0 := s.preprocess weakly Ω D
  let (s1, res) := if parallel then evalPar weakly Ω D body s0 batch else evalSeq weakly Ω D body s0 batch
  (s1, tableOf res batch)

def runCalls (weakly : Bool) (Ω : List World) (D : List Cond) (body : Body) :
    MState → List (List QEntry × Bool) → List (List Row)
  | _, [] => []
  | s, (b, par) :: rest =>
    let r := call weakly Ω D body s b par
    r.2 :: runCalls weakly Ω D body r.1 rest

/-! the plumbing before the repair: results keyed by the query *text* -/
def dictGetS (d : List (String × (Nat × Out))) (k : String) : Option (Nat × Out) := (d.find? (·.1 == k)).map (·.2)

def tableOfText (results : List (String × (Nat × Out))) (batch : List QEntry) : List Row :=
  batch.map fun e =>
    let r := (dictGetS results.reverse e.text).getD (0, .refuseEmpty)
    ⟨r.1, e.text, r.2⟩

end InfOCF
