import InfOCFModel.Rank
/-!
# Persistence of ranking objects (`save_ocf`, `load_ocf`, impacts export/import)

The byte-level encoding (pickle / json) and the file system are parameters: `ser` / `deser` with the
assumption that decoding an encoded state gives that state back, and a write that may fail after any
number of bytes.
-/
namespace InfOCF

structure PObj where
  signature : Nat
  P : List (List Cond)            -- partition (System Z objects)
  impacts : List Int              -- impact vector (c-representation objects)
  cache : List (World × Nat)      -- ranks computed so far
  metadata : List (String × String)
  solver : Option Nat             -- the non-picklable members (`_optimizer`, `_csp`): attached or not
deriving Repr, DecidableEq

/-- `save_ocf`: detach the solver members, serialise, write (may fail after `k` bytes), and restore the
members in the `finally` block; returns the in-memory object afterwards and what reached the file -/
def saveOcf (ser : PObj → List Nat) (failAfter : Option Nat) (o : PObj) : PObj × Option (List Nat) :=
  let backup := o.solver
  let detached := { o with solver := none }
  let bytes := ser detached
  let written := match failAfter with
    | some k => if k < bytes.length then none else some bytes
    | none => some bytes
  ({ detached with solver := backup }, written)

/-- `load_ocf` -/
def loadOcf (deser : List Nat → Option PObj) (file : List Nat) : Option PObj :=
  (deser file).map fun o => { o with solver := none }

/-- exported impact record -/
structure ImpactFile where
  impacts : List Int
  count : Nat
deriving Repr, DecidableEq

def exportImpacts (o : PObj) (nConds : Nat) : ImpactFile := ⟨o.impacts, nConds⟩

/-- `import_impacts`: the recorded size must match the number of conditionals -/
def importImpacts (f : ImpactFile) (nConds : Nat) (o : PObj) : Option PObj :=
  if f.count = nConds then some { o with impacts := f.impacts } else none

/-- `load_impacts` (list): length must match, all values non-negative -/
def loadImpactsList (l : List Int) (nConds : Nat) (o : PObj) : Option PObj :=
  if l.length = nConds ∧ l.all (fun x => decide (0 ≤ x)) then some { o with impacts := l } else none

end InfOCF
