import InfOCFModel.Basic
import InfOCFModel.W
namespace InfOCF

/-! Generic preferential entailment over a strict partial order on a finite world list, on formulas. -/

structure SPO where
  lt : World → World → Bool
  irrefl : ∀ w, lt w w = false
  trans : ∀ a b c, lt a b = true → lt b c = true → lt a c = true

/-- A |~ B : every world of A∧¬B has a strictly preferred world of A∧B -/
def Ent (Ω : List World) (o : SPO) (A B : Fm) : Prop :=
  ∀ w' ∈ Ω, A.eval w' = true → B.eval w' = false →
    ∃ w ∈ Ω, A.eval w = true ∧ B.eval w = true ∧ o.lt w w' = true

def IsMin (Ω : List World) (o : SPO) (A : Fm) (m : World) : Prop :=
  m ∈ Ω ∧ A.eval m = true ∧ ∀ x ∈ Ω, A.eval x = true → o.lt x m = false

/-- smoothness: below every A-world there is a minimal A-world -/
theorem exists_min_below (Ω : List World) (o : SPO) (A : Fm) :
    ∀ w ∈ Ω, A.eval w = true → ∃ m, IsMin Ω o A m ∧ (m = w ∨ o.lt m w = true) := by
  suffices h : ∀ n, ∀ w ∈ Ω, A.eval w = true →
      (Ω.filter fun x => A.eval x && o.lt x w).length ≤ n → ∃ m, IsMin Ω o A m ∧ (m = w ∨ o.lt m w = true) by
    intro w hw hA; exact h _ w hw hA (Nat.le_refl _)
  intro n
  induction n with
  | zero =>
    intro w hw hA hlen
    refine ⟨w, ⟨hw, hA, ?_⟩, Or.inl rfl⟩
    intro x hx hAx
    have : Ω.filter (fun x => A.eval x && o.lt x w) = [] := List.eq_nil_of_length_eq_zero (Nat.le_zero.mp hlen)
    rw [List.filter_eq_nil_iff] at this
    have := this x hx
    simpa [hAx] using this
  | succ n ih =>
    intro w hw hA hlen
    by_cases hmin : ∀ x ∈ Ω, A.eval x = true → o.lt x w = false
    · exact ⟨w, ⟨hw, hA, hmin⟩, Or.inl rfl⟩
    · obtain ⟨x, h⟩ := Classical.not_forall.mp hmin
      obtain ⟨hx, h⟩ := Classical.not_imp.mp h
      obtain ⟨hAx, hlt⟩ := Classical.not_imp.mp h
      have hlt : o.lt x w = true := by simpa using hlt
      have hless : (Ω.filter fun y => A.eval y && o.lt y x).length < (Ω.filter fun y => A.eval y && o.lt y w).length := by
        apply filter_len_lt
        · intro y _ hy
          simp only [Bool.and_eq_true] at hy ⊢
          exact ⟨hy.1, o.trans y x w hy.2 hlt⟩
        · exact ⟨x, hx, by simp [hAx, hlt], by simp [o.irrefl]⟩
      obtain ⟨m, hm, hmx⟩ := ih x hx hAx (by omega)
      refine ⟨m, hm, Or.inr ?_⟩
      rcases hmx with rfl | hmx
      · exact hlt
      · exact o.trans m x w hmx hlt

/-- the minimal-model characterisation -/
theorem ent_iff_min (Ω : List World) (o : SPO) (A B : Fm) :
    Ent Ω o A B ↔ ∀ m, IsMin Ω o A m → B.eval m = true := by
  constructor
  · intro h m ⟨hm, hA, hmin⟩
    cases hB : B.eval m with
    | true => rfl
    | false =>
      obtain ⟨w, hw, hAw, _, hlt⟩ := h m hm hA hB
      rw [hmin w hw hAw] at hlt; cases hlt
  · intro h w' hw' hA hB
    obtain ⟨m, hm, hmw⟩ := exists_min_below Ω o A w' hw' hA
    have hBm := h m hm
    rcases hmw with rfl | hlt
    · rw [hBm] at hB; cases hB
    · exact ⟨m, hm.1, hm.2.1, hBm, hlt⟩

theorem REF (Ω o) (A : Fm) : Ent Ω o A A := by
  intro w' _ hA hnA; rw [hA] at hnA; cases hnA

theorem LLE (Ω o) (A A' B : Fm) (heq : ∀ w, A.eval w = A'.eval w) (h : Ent Ω o A B) : Ent Ω o A' B := by
  intro w' hw' hA hB
  obtain ⟨w, hw, h1, h2, h3⟩ := h w' hw' (by rw [heq]; exact hA) hB
  exact ⟨w, hw, by rw [← heq]; exact h1, h2, h3⟩

theorem RW (Ω o) (A B C : Fm) (himp : ∀ w, B.eval w = true → C.eval w = true) (h : Ent Ω o A B) :
    Ent Ω o A C := by
  rw [ent_iff_min] at h ⊢
  intro m hm; exact himp m (h m hm)

theorem AND (Ω o) (A B C : Fm) (h1 : Ent Ω o A B) (h2 : Ent Ω o A C) : Ent Ω o A (.and B C) := by
  rw [ent_iff_min] at h1 h2 ⊢
  intro m hm; simp [Fm.eval, h1 m hm, h2 m hm]

theorem OR (Ω o) (A B C : Fm) (h1 : Ent Ω o A C) (h2 : Ent Ω o B C) : Ent Ω o (.or A B) C := by
  rw [ent_iff_min] at h1 h2 ⊢
  intro m ⟨hm, hAB, hmin⟩
  simp only [Fm.eval, Bool.or_eq_true] at hAB
  rcases hAB with hA | hB
  · exact h1 m ⟨hm, hA, fun x hx hAx => hmin x hx (by simp [Fm.eval, hAx])⟩
  · exact h2 m ⟨hm, hB, fun x hx hBx => hmin x hx (by simp [Fm.eval, hBx])⟩

theorem CUT (Ω o) (A B C : Fm) (h1 : Ent Ω o A B) (h2 : Ent Ω o (.and A B) C) : Ent Ω o A C := by
  rw [ent_iff_min] at h1 h2 ⊢
  intro m ⟨hm, hA, hmin⟩
  have hB := h1 m ⟨hm, hA, hmin⟩
  apply h2 m
  refine ⟨hm, by simp [Fm.eval, hA, hB], ?_⟩
  intro x hx hABx
  simp only [Fm.eval, Bool.and_eq_true] at hABx
  exact hmin x hx hABx.1

theorem CM (Ω o) (A B C : Fm) (h1 : Ent Ω o A B) (h2 : Ent Ω o A C) : Ent Ω o (.and A B) C := by
  rw [ent_iff_min] at h1 h2 ⊢
  intro m ⟨hm, hAB, hmin⟩
  simp only [Fm.eval, Bool.and_eq_true] at hAB
  apply h2 m
  refine ⟨hm, hAB.1, ?_⟩
  intro x hx hAx
  cases hlt : o.lt x m with
  | false => rfl
  | true =>
    exfalso
    obtain ⟨m0, hm0, hm0x⟩ := exists_min_below Ω o A x hx hAx
    have hB0 := h1 m0 hm0
    have hlt0 : o.lt m0 m = true := by
      rcases hm0x with rfl | h'
      · exact hlt
      · exact o.trans _ _ _ h' hlt
    have := hmin m0 hm0.1 (by simp [Fm.eval, hm0.2.1, hB0])
    rw [this] at hlt0; cases hlt0

/-- rational monotony for orders induced by a rank into a linear order (here ℕ; vectors analogous) -/
theorem RM_rank (Ω : List World) (r : World → Nat) (A B C : Fm)
    (o : SPO) (ho : ∀ a b, o.lt a b = decide (r a < r b))
    (h1 : Ent Ω o A C) (h2 : ¬ Ent Ω o A (.neg B)) : Ent Ω o (.and A B) C := by
  rw [ent_iff_min] at h1 ⊢
  rw [ent_iff_min] at h2
  obtain ⟨m0, h⟩ := Classical.not_forall.mp h2
  obtain ⟨hm0, hB0⟩ := Classical.not_imp.mp h
  have hB0 : B.eval m0 = true := by simpa [Fm.eval] using hB0
  intro m ⟨hm, hAB, hmin⟩
  simp only [Fm.eval, Bool.and_eq_true] at hAB
  apply h1 m
  refine ⟨hm, hAB.1, ?_⟩
  intro x hx hAx
  -- r m ≤ r m0 (m minimal in A∧B, m0 ∈ A∧B) and r m0 ≤ r x (m0 minimal in A)
  have a := hmin m0 hm0.1 (by simp [Fm.eval, hm0.2.1, hB0])
  have b := hm0.2.2 x hx hAx
  rw [ho] at a b ⊢
  simp only [decide_eq_false_iff_not, Nat.not_lt] at a b ⊢
  omega

end InfOCF
