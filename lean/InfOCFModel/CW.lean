import InfOCFModel.Basic
import InfOCFModel.Tol
import InfOCFModel.Ocf
import InfOCFModel.W
namespace InfOCF

/-! c-inference ⊆ System W: for a falsifying world `w'` that no verifying world W-precedes we build a
    c-representation in which `w'` is at least as plausible as every verifying world. Layers top-first. -/

/-- impact of conditional `c` of layer `L`, given the total `T` of all impacts in lower layers -/
def impW (w' : World) (T : Nat) (L : List Cond) (c : Cond) : Nat :=
  if c.fal w' then T + 1 else T + L.length * (T + 1) + 1

def sumL (l : List Nat) : Nat := l.foldr (· + ·) 0

/-- total of all impacts of a top-first layer list -/
def totalW (w' : World) : List (List Cond) → Nat
  | [] => 0
  | L :: lower => totalW w' lower + sumL (L.map (impW w' (totalW w' lower) L))

/-- the ranking: sum of impacts of falsified conditionals -/
def kapW (w' : World) : List (List Cond) → World → Nat
  | [], _ => 0
  | L :: lower, w => sumL ((fset L w).map (impW w' (totalW w' lower) L)) + kapW w' lower w

theorem sumL_filter_le (f : Cond → Nat) (p : Cond → Bool) (L : List Cond) :
    sumL ((L.filter p).map f) ≤ sumL (L.map f) := by
  induction L with
  | nil => simp [sumL]
  | cons x xs ih => cases hp : p x <;> simp_all [List.filter_cons, sumL] <;> omega

theorem sumL_mem_le (f : Cond → Nat) (L : List Cond) (c : Cond) (h : c ∈ L) : f c ≤ sumL (L.map f) := by
  induction L with
  | nil => simp at h
  | cons x xs ih =>
    rcases List.mem_cons.mp h with rfl | h'
    · simp [sumL]
    · have := ih h'; simp [sumL] at this ⊢; omega

theorem sumL_le_const (f : Cond → Nat) (k : Nat) (L : List Cond) (h : ∀ c ∈ L, f c ≤ k) :
    sumL (L.map f) ≤ L.length * k := by
  induction L with
  | nil => simp [sumL]
  | cons x xs ih =>
    have h1 := h x (by simp)
    have h2 := ih (fun c hc => h c (List.mem_cons_of_mem _ hc))
    simp only [List.map_cons, sumL, List.foldr_cons, List.length_cons] at h2 ⊢
    rw [Nat.add_mul]; omega

theorem kapW_le_total (w' : World) : ∀ (P : List (List Cond)) (w : World), kapW w' P w ≤ totalW w' P := by
  intro P; induction P with
  | nil => intro w; simp [kapW, totalW]
  | cons L lower ih =>
    intro w
    have := ih w
    have := sumL_filter_le (impW w' (totalW w' lower) L) (·.fal w) L
    simp only [kapW, totalW, fset]; omega

/-- (B) separation: a world that does not W-precede `w'` is ranked at least as high as `w'` -/
theorem kapW_sep (w' : World) : ∀ (P : List (List Cond)) (w : World),
    wless P w w' = false → kapW w' P w' ≤ kapW w' P w := by
  intro P
  induction P with
  | nil => intro w _; simp [kapW]
  | cons L lower ih =>
    intro w h
    simp only [wless] at h
    simp only [kapW]
    split at h
    · rename_i he
      have := ih w h
      rw [he]; omega
    · -- w falsifies some c ∈ L that w' does not
      have : ∃ c ∈ fset L w, c ∉ fset L w' := by
        apply Classical.byContradiction
        intro hc
        have : subsetL (fset L w) (fset L w') = true := by
          apply subsetL_iff.mpr
          intro x hx
          apply Classical.byContradiction
          intro hnx
          exact hc ⟨x, hx, hnx⟩
        rw [this] at h; cases h
      obtain ⟨c, hcw, hcw'⟩ := this
      have hcL : c ∈ L := (List.mem_filter.mp hcw).1
      have hcf : c.fal w' = false := by
        cases hf : c.fal w' with
        | false => rfl
        | true => exact absurd (by simp [fset, List.mem_filter, hcL, hf]) hcw'
      -- cost of w at this layer ≥ the big impact
      have hbig : totalW w' lower + L.length * (totalW w' lower + 1) + 1
          ≤ sumL ((fset L w).map (impW w' (totalW w' lower) L)) := by
        have := sumL_mem_le (impW w' (totalW w' lower) L) (fset L w) c hcw
        simp only [impW, hcf] at this
        simpa using this
      -- cost of w' at this layer ≤ |L| * small impact
      have hsmall : sumL ((fset L w').map (impW w' (totalW w' lower) L)) ≤ L.length * (totalW w' lower + 1) := by
        have h1 := sumL_le_const (impW w' (totalW w' lower) L) (totalW w' lower + 1) (fset L w')
          (by intro d hd
              have : d.fal w' = true := (List.mem_filter.mp hd).2
              simp [impW, this])
        have h2 : (fset L w').length ≤ L.length := List.length_filter_le _ _
        have h3 : (fset L w').length * (totalW w' lower + 1) ≤ L.length * (totalW w' lower + 1) :=
          Nat.mul_le_mul_right _ h2
        omega
      have := kapW_le_total w' lower w'
      omega

/-- a world falsifying nothing in the upper layers pays nothing there -/
theorem kapW_append_nofal (w' : World) : ∀ (up rest : List (List Cond)) (u : World),
    (∀ d ∈ up.flatten, d.fal u = false) → kapW w' (up ++ rest) u = kapW w' rest u := by
  intro up
  induction up with
  | nil => intro rest u _; rfl
  | cons L up' ih =>
    intro rest u h
    have hL : fset L u = [] := by
      simp only [fset, List.filter_eq_nil_iff]
      intro x hx; simp [h x (by simp [hx])]
    have := ih rest u (fun d hd => h d (by simp [hd]))
    simp [kapW, hL, sumL, this]

theorem kapW_append_ge (w' : World) : ∀ (up rest : List (List Cond)) (x : World),
    kapW w' rest x ≤ kapW w' (up ++ rest) x := by
  intro up
  induction up with
  | nil => intro rest x; exact Nat.le_refl _
  | cons L up' ih => intro rest x; have := ih rest x; simp only [List.cons_append, kapW]; omega

/-- (A) every conditional of the partition is accepted; `up`/`lower` split the top-first list -/
theorem kapW_accepts (Ω : List World) (w' : World) (up : List (List Cond)) (L : List Cond)
    (lower : List (List Cond)) (c : Cond) (hc : c ∈ L)
    (htol : Tol Ω (L ++ up.flatten) c) :
    Accepts Ω (kapW w' (up ++ L :: lower)) c := by
  obtain ⟨u, hu, hver, hnf⟩ := htol
  refine ⟨u, hu, hver, ?_⟩
  intro x _ hfx
  have h1 : kapW w' (up ++ L :: lower) u = kapW w' lower u := by
    rw [kapW_append_nofal w' up _ u (fun d hd => hnf d (by simp [hd]))]
    have hL : fset L u = [] := by
      simp only [fset, List.filter_eq_nil_iff]
      intro y hy; simp [hnf y (by simp [hy])]
    simp [kapW, hL, sumL]
  have h2 := kapW_le_total w' lower u
  have h3 : totalW w' lower + 1 ≤ kapW w' (L :: lower) x := by
    have hcx : c ∈ fset L x := by simp [fset, List.mem_filter, hc, hfx]
    have := sumL_mem_le (impW w' (totalW w' lower) L) (fset L x) c hcx
    have hge : totalW w' lower + 1 ≤ impW w' (totalW w' lower) L c := by
      unfold impW; split <;> omega
    simp only [kapW]; omega
  have h4 := kapW_append_ge w' up (L :: lower) x
  omega

end InfOCF
