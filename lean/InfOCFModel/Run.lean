import InfOCFModel.Basic
import InfOCFModel.Tol
import InfOCFModel.W
import InfOCFModel.Ext
/-!
# The greedy layer run, declaratively

`GreedyRun Ω cs fin rem`: starting from the conditionals `cs`, repeatedly splitting off the
(non-empty) layer of *all* remaining conditionals tolerated by the remaining ones produces the
layers `fin` and leaves the remainder `rem`. Both `tolPart` (strict) and `tolPartExt` (extended)
are characterised through it, independent of fuel.
-/
namespace InfOCF

def GreedyRun (Ω : List World) : List Cond → List (List Cond) → List Cond → Prop
  | cs, [], rem => rem = cs
  | cs, L :: rest, rem =>
    L ≠ [] ∧ L = cs.filter (tolerated Ω cs) ∧
      GreedyRun Ω (cs.filter fun c => !(tolerated Ω cs c)) rest rem

/-- no member of `S` is tolerated by `S` -/
def NoneTol (Ω : List World) (S : List Cond) : Prop := S.filter (tolerated Ω S) = []

theorem NoneTol_nil (Ω : List World) : NoneTol Ω [] := rfl

theorem filter_not_len_lt {α} (p : α → Bool) (l : List α) (h : l.filter p ≠ []) :
    (l.filter fun x => !(p x)).length < l.length := by
  have : ∃ x ∈ l, p x = true := by
    cases hf : l.filter p with
    | nil => exact absurd hf h
    | cons a t =>
      have : a ∈ l.filter p := by rw [hf]; simp
      exact ⟨a, (List.mem_filter.mp this).1, (List.mem_filter.mp this).2⟩
  obtain ⟨x, hx, hpx⟩ := this
  have h1 := filter_len_lt (fun x => !(p x)) (fun _ => true) l (by simp) ⟨x, hx, rfl, by simp [hpx]⟩
  have h2 : l.filter (fun _ => true) = l := List.filter_eq_self.mpr (by simp)
  rw [h2] at h1
  exact h1

/-- the run is deterministic once the remainder is required to be stuck-or-empty -/
theorem GreedyRun_det (Ω : List World) : ∀ (fin fin' : List (List Cond)) (cs rem rem' : List Cond),
    GreedyRun Ω cs fin rem → GreedyRun Ω cs fin' rem' → NoneTol Ω rem → NoneTol Ω rem' →
    fin = fin' ∧ rem = rem' := by
  intro fin
  induction fin with
  | nil =>
    intro fin' cs rem rem' h h' hn _
    simp only [GreedyRun] at h
    subst h
    cases fin' with
    | nil => simp only [GreedyRun] at h'; exact ⟨rfl, h'.symm⟩
    | cons L rest =>
      obtain ⟨hne, hL, _⟩ := h'
      exact absurd (hL.trans hn) hne
  | cons L rest ih =>
    intro fin' cs rem rem' h h' _ hn'
    obtain ⟨hne, hL, hrun⟩ := h
    cases fin' with
    | nil =>
      simp only [GreedyRun] at h'
      subst h'
      exact absurd (hL.trans hn') hne
    | cons L' rest' =>
      obtain ⟨_, hL', hrun'⟩ := h'
      obtain ⟨h1, h2⟩ := ih rest' _ rem rem' hrun hrun' ‹_› hn'
      exact ⟨by rw [hL, hL', h1], h2⟩

theorem tolPart_iff_run (Ω : List World) : ∀ (fuel : Nat) (cs : List Cond) (P : List (List Cond)),
    cs.length ≤ fuel → (tolPart Ω fuel cs = some P ↔ GreedyRun Ω cs P []) := by
  intro fuel
  induction fuel with
  | zero =>
    intro cs P hl
    have : cs = [] := List.eq_nil_of_length_eq_zero (by omega)
    subst this
    cases P with
    | nil => simp [tolPart, GreedyRun]
    | cons L rest =>
      simp only [tolPart, Option.some.injEq, GreedyRun, List.filter_nil]
      constructor
      · intro h; cases h
      · rintro ⟨hne, hL, _⟩; exact absurd hL hne
  | succ fuel ih =>
    intro cs P hl
    cases cs with
    | nil =>
      cases P with
      | nil => simp [tolPart, GreedyRun]
      | cons L rest =>
        simp only [tolPart, Option.some.injEq, GreedyRun, List.filter_nil]
        constructor
        · intro h; cases h
        · rintro ⟨hne, hL, _⟩; exact absurd hL hne
    | cons a t =>
      simp only [tolPart]
      split
      · rename_i hR
        have hR' : (a :: t).filter (tolerated Ω (a :: t)) = [] := List.isEmpty_iff.mp hR
        constructor
        · intro h; cases h
        · intro h
          cases P with
          | nil => simp [GreedyRun] at h
          | cons L rest =>
            obtain ⟨hne, hL, _⟩ := h
            exact absurd (hL.trans hR') hne
      · rename_i hR
        have hR' : (a :: t).filter (tolerated Ω (a :: t)) ≠ [] := by
          intro h; exact hR (List.isEmpty_iff.mpr h)
        have hlen := filter_not_len_lt (tolerated Ω (a :: t)) (a :: t) hR'
        have hC : ((a :: t).filter fun c => !(tolerated Ω (a :: t) c)).length ≤ fuel := by
          simp only [List.length_cons] at hl hlen; omega
        cases P with
        | nil =>
          simp only [GreedyRun]
          constructor
          · intro h
            cases hp : tolPart Ω fuel ((a :: t).filter fun c => !(tolerated Ω (a :: t) c)) <;> simp [hp] at h
          · intro h; cases h
        | cons L rest =>
          simp only [GreedyRun]
          constructor
          · intro h
            cases hp : tolPart Ω fuel ((a :: t).filter fun c => !(tolerated Ω (a :: t) c)) with
            | none => simp [hp] at h
            | some P' =>
              simp only [hp, Option.map_some, Option.some.injEq, List.cons.injEq] at h
              obtain ⟨h1, h2⟩ := h
              subst h1; subst h2
              exact ⟨hR', rfl, (ih _ _ hC).mp hp⟩
          · rintro ⟨_, hL, hrun⟩
            rw [(ih _ _ hC).mpr hrun, hL]; rfl

theorem tolPartExt_iff_run (Ω : List World) : ∀ (fuel : Nat) (cs : List Cond) (P : List (List Cond)),
    cs.length ≤ fuel → (tolPartExt Ω fuel cs = some P ↔
      ∃ fin rem, P = fin ++ [rem] ∧ GreedyRun Ω cs fin rem ∧ NoneTol Ω rem ∧
        (rem = [] ∨ ∃ w ∈ Ω, nofal rem w = true)) := by
  intro fuel
  induction fuel with
  | zero =>
    intro cs P hl
    have : cs = [] := List.eq_nil_of_length_eq_zero (by omega)
    subst this
    simp only [tolPartExt, Option.some.injEq]
    constructor
    · intro h; subst h; exact ⟨[], [], rfl, rfl, rfl, Or.inl rfl⟩
    · rintro ⟨fin, rem, rfl, hrun, _, _⟩
      cases fin with
      | nil => simp only [GreedyRun] at hrun; subst hrun; rfl
      | cons L rest => obtain ⟨hne, hL, _⟩ := hrun; exact absurd hL hne
  | succ fuel ih =>
    intro cs P hl
    cases cs with
    | nil =>
      simp only [tolPartExt, Option.some.injEq]
      constructor
      · intro h; subst h; exact ⟨[], [], rfl, rfl, rfl, Or.inl rfl⟩
      · rintro ⟨fin, rem, rfl, hrun, _, _⟩
        cases fin with
        | nil => simp only [GreedyRun] at hrun; subst hrun; rfl
        | cons L rest => obtain ⟨hne, hL, _⟩ := hrun; exact absurd hL hne
    | cons a t =>
      simp only [tolPartExt]
      split
      · rename_i hR
        have hR' : (a :: t).filter (tolerated Ω (a :: t)) = [] := List.isEmpty_iff.mp hR
        split
        · rename_i hsat
          simp only [Option.some.injEq]
          constructor
          · intro h; subst h
            refine ⟨[], a :: t, rfl, rfl, hR', Or.inr ?_⟩
            simpa [List.any_eq_true] using hsat
          · rintro ⟨fin, rem, rfl, hrun, _, _⟩
            cases fin with
            | nil => simp only [GreedyRun] at hrun; subst hrun; rfl
            | cons L rest => obtain ⟨hne, hL, _⟩ := hrun; exact absurd (hL.trans hR') hne
        · rename_i hsat
          constructor
          · intro h; cases h
          · rintro ⟨fin, rem, rfl, hrun, _, hw⟩
            cases fin with
            | nil =>
              simp only [GreedyRun] at hrun; subst hrun
              rcases hw with h | ⟨w, hw, hnf⟩
              · cases h
              · exact absurd (List.any_eq_true.mpr ⟨w, hw, hnf⟩) hsat
            | cons L rest => obtain ⟨hne, hL, _⟩ := hrun; exact absurd (hL.trans hR') hne
      · rename_i hR
        have hR' : (a :: t).filter (tolerated Ω (a :: t)) ≠ [] := by
          intro h; exact hR (List.isEmpty_iff.mpr h)
        have hlen := filter_not_len_lt (tolerated Ω (a :: t)) (a :: t) hR'
        have hC : ((a :: t).filter fun c => !(tolerated Ω (a :: t) c)).length ≤ fuel := by
          simp only [List.length_cons] at hl hlen; omega
        constructor
        · intro h
          cases hp : tolPartExt Ω fuel ((a :: t).filter fun c => !(tolerated Ω (a :: t) c)) with
          | none => simp [hp] at h
          | some P' =>
            simp only [hp, Option.map_some, Option.some.injEq] at h
            subst h
            obtain ⟨fin, rem, rfl, hrun, hn, hw⟩ := (ih _ _ hC).mp hp
            exact ⟨_ :: fin, rem, rfl, ⟨hR', rfl, hrun⟩, hn, hw⟩
        · rintro ⟨fin, rem, rfl, hrun, hn, hw⟩
          cases fin with
          | nil =>
            simp only [GreedyRun] at hrun; subst hrun
            exact absurd hn hR'
          | cons L rest =>
            obtain ⟨_, hL, hrun'⟩ := hrun
            rw [(ih _ _ hC).mpr ⟨rest, rem, rfl, hrun', hn, hw⟩, hL]; rfl

/-- the run always reaches a stuck-or-empty remainder (existence, any base) -/
theorem GreedyRun_exists (Ω : List World) : ∀ (n : Nat) (cs : List Cond), cs.length ≤ n →
    ∃ fin rem, GreedyRun Ω cs fin rem ∧ NoneTol Ω rem := by
  intro n
  induction n with
  | zero =>
    intro cs hl
    have : cs = [] := List.eq_nil_of_length_eq_zero (by omega)
    subst this
    exact ⟨[], [], rfl, rfl⟩
  | succ n ih =>
    intro cs hl
    by_cases hR : cs.filter (tolerated Ω cs) = []
    · exact ⟨[], cs, rfl, hR⟩
    · have hlen := filter_not_len_lt (tolerated Ω cs) cs hR
      obtain ⟨fin, rem, hrun, hn⟩ := ih (cs.filter fun c => !(tolerated Ω cs c)) (by omega)
      exact ⟨_ :: fin, rem, ⟨hR, rfl, hrun⟩, hn⟩

/-- members are preserved: every conditional ends in exactly the layers or the remainder -/
theorem GreedyRun_mem (Ω : List World) : ∀ (fin : List (List Cond)) (cs rem : List Cond),
    GreedyRun Ω cs fin rem → ∀ c, c ∈ cs ↔ (c ∈ fin.flatten ∨ c ∈ rem) := by
  intro fin
  induction fin with
  | nil => intro cs rem h c; simp only [GreedyRun] at h; subst h; simp
  | cons L rest ih =>
    intro cs rem h c
    obtain ⟨_, hL, hrun⟩ := h
    have := ih _ rem hrun c
    simp only [List.flatten_cons, List.mem_append]
    rw [hL]
    simp only [List.mem_filter] at this ⊢
    constructor
    · intro hc
      by_cases ht : tolerated Ω cs c = true
      · exact Or.inl (Or.inl ⟨hc, ht⟩)
      · rcases this.mp ⟨hc, by simpa using ht⟩ with h | h
        · exact Or.inl (Or.inr h)
        · exact Or.inr h
    · rintro ((⟨hc, _⟩ | h) | h)
      · exact hc
      · exact (this.mpr (Or.inl h)).1
      · exact (this.mpr (Or.inr h)).1

/-- a conditional that can never be verified (e.g. `(⊥|¬φ)` for a fact φ) always ends in the remainder -/
theorem GreedyRun_unverifiable (Ω : List World) : ∀ (fin : List (List Cond)) (cs rem : List Cond),
    GreedyRun Ω cs fin rem → ∀ c ∈ cs, (∀ w ∈ Ω, c.ver w = false) → c ∈ rem := by
  intro fin
  induction fin with
  | nil => intro cs rem h c hc _; simp only [GreedyRun] at h; subst h; exact hc
  | cons L rest ih =>
    intro cs rem h c hc hv
    obtain ⟨_, _, hrun⟩ := h
    apply ih _ rem hrun c _ hv
    simp only [List.mem_filter, Bool.not_eq_true']
    refine ⟨hc, ?_⟩
    simp only [tolerated, List.any_eq_false]
    intro w hw
    simp [hv w hw]

end InfOCF
