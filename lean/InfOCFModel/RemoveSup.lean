import InfOCFModel.Cnf
/-!
# `remove_supersets` keeps exactly the inclusion-minimal sets, each once
Sets are duplicate-free lists (`fset L w` of a duplicate-free layer).
-/
namespace InfOCF

theorem nodup_subset_length {a b : List Cond} (ha : a.Nodup) (h : ∀ x ∈ a, x ∈ b) : a.length ≤ b.length := by
  induction a generalizing b with
  | nil => simp
  | cons x t ih =>
    have hx : x ∈ b := h x (by simp)
    obtain ⟨hxt, ht⟩ := List.nodup_cons.mp ha
    have hsub : ∀ y ∈ t, y ∈ b.erase x := by
      intro y hy
      have hne : y ≠ x := by intro e; subst e; exact hxt hy
      exact (List.mem_erase_of_ne hne).mpr (h y (by simp [hy]))
    have := ih ht hsub
    rw [List.length_erase_of_mem hx] at this
    have hpos : 0 < b.length := List.length_pos_of_mem hx
    simp only [List.length_cons]; omega

/-- a duplicate-free subset that is not shorter is the whole set -/
theorem nodup_subset_full {a b : List Cond} (ha : a.Nodup) (h : ∀ x ∈ a, x ∈ b) (hl : b.length ≤ a.length) :
    ∀ x ∈ b, x ∈ a := by
  intro x hx
  apply Classical.byContradiction
  intro hxa
  have hsub : ∀ y ∈ a, y ∈ b.erase x := by
    intro y hy
    have hne : y ≠ x := by intro e; subst e; exact hxa hy
    exact (List.mem_erase_of_ne hne).mpr (h y hy)
  have := nodup_subset_length ha hsub
  rw [List.length_erase_of_mem hx] at this
  have hpos : 0 < b.length := List.length_pos_of_mem hx
  omega

def Anti (l : List (List Cond)) : Prop :=
  l.Pairwise fun a b => subsetL a b = false ∧ subsetL b a = false

theorem anti_eq_of_subset {l : List (List Cond)} (h : Anti l) {a b : List Cond} (ha : a ∈ l) (hb : b ∈ l)
    (hab : subsetL a b = true) : a = b := by
  induction l with
  | nil => simp at ha
  | cons x t ih =>
    obtain ⟨hx, ht⟩ := List.pairwise_cons.mp h
    rcases List.mem_cons.mp ha with rfl | ha'
    · rcases List.mem_cons.mp hb with rfl | hb'
      · rfl
      · rw [(hx b hb').1] at hab; cases hab
    · rcases List.mem_cons.mp hb with rfl | hb'
      · rw [(hx a ha').2] at hab; cases hab
      · exact ih ht ha' hb'

def LenSorted : List (List Cond) → Prop
  | [] => True
  | a :: rest => (∀ b ∈ rest, a.length ≤ b.length) ∧ LenSorted rest

theorem mem_insertByLen (a : List Cond) (l : List (List Cond)) (s : List Cond) :
    s ∈ insertByLen a l ↔ s = a ∨ s ∈ l := by
  induction l with
  | nil => simp [insertByLen]
  | cons b rest ih =>
    simp only [insertByLen]
    split
    · simp
    · simp only [List.mem_cons, ih]
      constructor
      · rintro (h | h | h)
        · exact Or.inr (Or.inl h)
        · exact Or.inl h
        · exact Or.inr (Or.inr h)
      · rintro (h | h | h)
        · exact Or.inr (Or.inl h)
        · exact Or.inl h
        · exact Or.inr (Or.inr h)

theorem insertByLen_sorted (a : List Cond) (l : List (List Cond)) (h : LenSorted l) : LenSorted (insertByLen a l) := by
  induction l with
  | nil => simp [insertByLen, LenSorted]
  | cons b rest ih =>
    obtain ⟨hb, hrest⟩ := h
    simp only [insertByLen]
    split
    · rename_i hle
      refine ⟨?_, hb, hrest⟩
      intro c hc
      rcases List.mem_cons.mp hc with rfl | hc'
      · exact hle
      · exact Nat.le_trans hle (hb c hc')
    · rename_i hle
      refine ⟨?_, ih hrest⟩
      intro c hc
      rcases (mem_insertByLen a rest c).mp hc with rfl | hc'
      · omega
      · exact hb c hc'

theorem mem_sortByLen (X : List (List Cond)) (s : List Cond) : s ∈ sortByLen X ↔ s ∈ X := by
  induction X with
  | nil => simp [sortByLen]
  | cons a rest ih => simp only [sortByLen, mem_insertByLen, ih, List.mem_cons]

theorem sortByLen_sorted (X : List (List Cond)) : LenSorted (sortByLen X) := by
  induction X with
  | nil => trivial
  | cons a rest ih => exact insertByLen_sorted a _ ih

/-- invariant of the filtering pass -/
theorem removeSupersetsAux_spec : ∀ (rest kept : List (List Cond)),
    (∀ s ∈ kept ++ rest, s.Nodup) → Anti kept → LenSorted rest →
    (∀ k ∈ kept, ∀ r ∈ rest, k.length ≤ r.length) →
    let res := removeSupersetsAux kept rest
    (∀ s ∈ res, s ∈ kept ∨ s ∈ rest) ∧
    (∀ a, (a ∈ kept ∨ a ∈ rest) → ∃ b ∈ res, subsetL b a = true) ∧
    Anti res := by
  intro rest
  induction rest with
  | nil =>
    intro kept _ hanti _ _
    simp only [removeSupersetsAux]
    refine ⟨fun s hs => Or.inl hs, ?_, hanti⟩
    rintro a (ha | ha)
    · exact ⟨a, ha, subsetL_refl a⟩
    · simp at ha
  | cons a rest ih =>
    intro kept hnd hanti hsorted hlen
    obtain ⟨ha_le, hsorted'⟩ := hsorted
    simp only [removeSupersetsAux]
    split
    · rename_i hany
      have := ih kept (fun s hs => hnd s (by
          rcases List.mem_append.mp hs with h | h
          · exact List.mem_append.mpr (Or.inl h)
          · exact List.mem_append.mpr (Or.inr (List.mem_cons_of_mem _ h)))) hanti hsorted'
        (fun k hk r hr => hlen k hk r (List.mem_cons_of_mem _ hr))
      obtain ⟨h1, h2, h3⟩ := this
      refine ⟨fun s hs => ?_, ?_, h3⟩
      · rcases h1 s hs with h | h
        · exact Or.inl h
        · exact Or.inr (List.mem_cons_of_mem _ h)
      · rintro x (hx | hx)
        · exact h2 x (Or.inl hx)
        · rcases List.mem_cons.mp hx with rfl | hx'
          · obtain ⟨b, hb, hba⟩ := List.any_eq_true.mp hany
            obtain ⟨c, hc, hcb⟩ := h2 b (Or.inl hb)
            exact ⟨c, hc, subsetL_trans hcb hba⟩
          · exact h2 x (Or.inr hx')
    · rename_i hany
      have hnone : ∀ b ∈ kept, subsetL b a = false := by
        intro b hb
        cases h : subsetL b a with
        | false => rfl
        | true => exact absurd (List.any_eq_true.mpr ⟨b, hb, h⟩) hany
      have ha_nd : a.Nodup := hnd a (by simp)
      have hanti' : Anti (kept ++ [a]) := by
        unfold Anti
        rw [List.pairwise_append]
        refine ⟨hanti, by simp, ?_⟩
        intro k hk b hb
        simp only [List.mem_singleton] at hb
        subst hb
        refine ⟨hnone k hk, ?_⟩
        cases h : subsetL b k with
        | false => rfl
        | true =>
          -- b ⊆ k and |k| ≤ |b| with b duplicate-free ⇒ k ⊆ b, contradicting `hnone`
          have hkb := nodup_subset_full ha_nd (subsetL_iff.mp h) (hlen k hk b (by simp))
          have h1 := hnone k hk
          rw [subsetL_iff.mpr hkb] at h1
          cases h1
      have := ih (kept ++ [a]) (fun s hs => hnd s (by
          rcases List.mem_append.mp hs with h | h
          · rcases List.mem_append.mp h with h' | h'
            · exact List.mem_append.mpr (Or.inl h')
            · simp only [List.mem_singleton] at h'; subst h'; simp
          · exact List.mem_append.mpr (Or.inr (List.mem_cons_of_mem _ h)))) hanti' hsorted'
        (fun k hk r hr => by
          rcases List.mem_append.mp hk with h | h
          · exact hlen k h r (List.mem_cons_of_mem _ hr)
          · simp only [List.mem_singleton] at h; subst h; exact ha_le r hr)
      obtain ⟨h1, h2, h3⟩ := this
      refine ⟨fun s hs => ?_, ?_, h3⟩
      · rcases h1 s hs with h | h
        · rcases List.mem_append.mp h with h' | h'
          · exact Or.inl h'
          · simp only [List.mem_singleton] at h'; subst h'; exact Or.inr (by simp)
        · exact Or.inr (List.mem_cons_of_mem _ h)
      · rintro x (hx | hx)
        · exact h2 x (Or.inl (List.mem_append.mpr (Or.inl hx)))
        · rcases List.mem_cons.mp hx with rfl | hx'
          · exact h2 x (Or.inl (List.mem_append.mpr (Or.inr (by simp))))
          · exact h2 x (Or.inr hx')

/-- **`remove_supersets`**: the result is a sub-collection of the input, contains a subset of every
input set, and is an antichain (so every inclusion-minimal input set survives exactly once) -/
theorem removeSupersets_spec (X : List (List Cond)) (hnd : ∀ s ∈ X, s.Nodup) :
    (∀ s ∈ removeSupersets X, s ∈ X) ∧
    (∀ a ∈ X, ∃ b ∈ removeSupersets X, subsetL b a = true) ∧
    Anti (removeSupersets X) := by
  have := removeSupersetsAux_spec (sortByLen X) [] (by
      intro s hs; simp only [List.nil_append] at hs; exact hnd s ((mem_sortByLen X s).mp hs))
    (by simp [Anti]) (sortByLen_sorted X) (by simp)
  obtain ⟨h1, h2, h3⟩ := this
  refine ⟨fun s hs => ?_, fun a ha => ?_, h3⟩
  · rcases h1 s hs with h | h
    · simp at h
    · exact (mem_sortByLen X s).mp h
  · exact h2 a (Or.inr ((mem_sortByLen X a).mpr ha))

end InfOCF
