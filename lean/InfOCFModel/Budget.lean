import InfOCFModel.Manager
/-!
# Time budgets: observation points, fault schedules, wrappers

An operator run is a program whose only interaction with time is (a) polling the deadline
(`if deadline.expired(): raise TimeoutError`, `OptimizerRC2.minimal_correction_subsets`) and (b) asking
the z3 optimizer (`Optimize.check()`), which under an exhausted budget answers `unknown`.
A fault schedule says at which poll the deadline is seen expired and at which check the solver gives up.
-/
namespace InfOCF

inductive Prog (α : Type) where
  | ret (a : α)
  | poll (next : Prog α)
  | solve (verdict : Bool) (onSat onUnsat : Prog α)   -- `verdict`: what the solver answers when it is given the time

inductive Res (α : Type) where
  | val (a : α)
  | timeout
  | crash (msg : String)
deriving Repr, DecidableEq

structure Schedule where
  expiredAt : Nat → Bool     -- i-th deadline poll reports expiry
  unknownAt : Nat → Bool     -- j-th solver check reports `unknown`

def Schedule.none : Schedule := ⟨fun _ => false, fun _ => false⟩

/-- the code after the repair: `unknown` raises `TimeoutError` -/
def Prog.run {α} (σ : Schedule) : Prog α → Nat → Nat → Res α
  | .ret a, _, _ => .val a
  | .poll next, i, j => if σ.expiredAt i then .timeout else next.run σ (i + 1) j
  | .solve v s u, i, j =>
    if σ.unknownAt j then .timeout
    else if v then s.run σ i (j + 1) else u.run σ i (j + 1)

/-- the z3 back-ends before the repair: every verdict other than `unsat` was treated as `sat` and the
model was read, which raises `Z3Exception('model is not available')` on `unknown` -/
def Prog.runOld {α} (σ : Schedule) : Prog α → Nat → Nat → Res α
  | .ret a, _, _ => .val a
  | .poll next, i, j => if σ.expiredAt i then .timeout else next.runOld σ (i + 1) j
  | .solve v s u, i, j =>
    if σ.unknownAt j then .crash "Z3Exception: model is not available"
    else if v then s.runOld σ i (j + 1) else u.runOld σ i (j + 1)

/-- `single_inference` / `_multi_inference_worker`: `TimeoutError` becomes `(False, timed_out=True)` -/
structure BRow where
  result : Bool
  inferenceTimedOut : Bool
  preprocessingTimedOut : Bool
deriving Repr, DecidableEq

def rowOfRes : Res Bool → Option BRow     -- `none`: an exception escapes the call
  | .val b => some ⟨b, false, false⟩
  | .timeout => some ⟨false, true, false⟩
  | .crash _ => none

def BRow.flagged (r : BRow) : Bool := r.inferenceTimedOut || r.preprocessingTimedOut

/-! budget arithmetic of `InferenceManager.inference` (seconds in, milliseconds for the elapsed preprocessing time) -/

def effPre (total pre : Nat) : Nat :=
  if total ≠ 0 ∧ pre ≠ 0 then min total pre else if total ≠ 0 then total else pre

/-- per-query budget in milliseconds (may be negative: then the deadline is expired from the start) -/
def effInfMs (total inf : Nat) (preTimeMs : Int) : Int :=
  if total ≠ 0 ∧ inf ≠ 0 then min ((total : Int) * 1000 - preTimeMs) ((inf : Int) * 1000)
  else if total ≠ 0 then (total : Int) * 1000 - preTimeMs else (inf : Int) * 1000

/-- state of the manager with the time-out flag -/
structure BState where
  pre : Option (Option (List (List Cond)))
  preTimedOut : Bool
deriving Repr

/-- preprocessing step of a call (run only when not done yet) -/
def preStep (prePartition : Option (List (List Cond))) (preProg : Prog Unit) (σpre : Schedule) (s : BState) : BState :=
  match s.pre with
  | some _ => s
  | none =>
    match preProg.run σpre 0 0 with
    | .val _ => { s with pre := some prePartition }
    | .timeout => { s with preTimedOut := true }
    | .crash _ => s

/-- rows of the queries, each run under its own fresh deadline (own schedule); `none`: an exception escapes -/
def queryRows : List (Prog Bool × Schedule) → Option (List BRow)
  | [] => some []
  | q :: rest =>
    match rowOfRes (q.1.run q.2 0 0), queryRows rest with
    | some r, some rs => some (r :: rs)
    | _, _ => none

/-- one call -/
def bcall (prePartition : Option (List (List Cond))) (preProg : Prog Unit) (σpre : Schedule)
    (queries : List (Prog Bool × Schedule)) (s : BState) : BState × Option (List BRow) :=
  let s1 := preStep prePartition preProg σpre s
  if s1.preTimedOut then (s1, some (queries.map fun _ => ⟨false, false, true⟩))
  else (s1, queryRows queries)

end InfOCF
