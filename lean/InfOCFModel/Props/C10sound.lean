import InfOCFModel.Lexer
import InfOCFModel.Parser
/-!
# C10, file level: every accepted `condition` list is a derivation of the documented grammar

`C10_conditions_sound`: whenever the model of rule `condition` (`parseConditions`) accepts a token list, the consumed
tokens have the documented shape `( B | A )`, `( B | A ) , NEWLINE* …` — consequent before the bar, antecedent after it,
conditionals in file order — and each side is a derivation of the stratified formula grammar `D 2` ("¬ tighter than `,`
tighter than `;`", `Props/C10.lean`) of exactly the tokens between the delimiters. Together with `C10_conditions_order` /
`C10_base_roundtrip` (printed files are read back) this is the "accepted ⇒ documented meaning" half at file level; the
formula level has both halves (`C10_parse_iff`).
-/
namespace InfOCF

/-- `toks` is a formula text of the documented grammar denoting `pf` -/
def DFm (names : List String) (toks : List LTok) (pf : PF) : Prop :=
  ∃ fts f, toks.mapM (toFmTok names) = some fts ∧ D 2 fts f ∧ pf = PF.ofFm names f

/-- the documented shape of rule `condition`: `consumed` is the token list read, `cs` the conditionals in file order -/
inductive DConds (names : List String) : List LTok → List (PF × PF) → Prop
  | last {tb ta : List LTok} {b a : PF} : DFm names tb b → DFm names ta a →
      DConds names (.lpar :: (tb ++ .bar :: (ta ++ [.rpar]))) [(b, a)]
  | more {tb ta nl rest : List LTok} {b a : PF} {cs : List (PF × PF)} : DFm names tb b → DFm names ta a →
      (∀ t ∈ nl, t = .newline) → DConds names rest cs →
      DConds names (.lpar :: (tb ++ .bar :: (ta ++ .rpar :: .comma :: (nl ++ rest)))) ((b, a) :: cs)

theorem split_spec : ∀ (ts : List LTok) (depth : Nat) (acc pre rest : List LTok),
    parseFmPrefix.split ts depth acc = some (pre, rest) → acc.reverse ++ ts = pre ++ rest := by
  intro ts
  induction ts with
  | nil => intro depth acc pre rest h; simp [parseFmPrefix.split] at h
  | cons t r ih =>
    intro depth acc pre rest h
    cases t with
    | lpar =>
      simp only [parseFmPrefix.split] at h
      have := ih _ _ _ _ h
      simpa using this
    | rpar =>
      simp only [parseFmPrefix.split] at h
      split at h
      · simp only [Option.some.injEq, Prod.mk.injEq] at h
        obtain ⟨rfl, rfl⟩ := h
        rfl
      · have := ih _ _ _ _ h
        simpa using this
    | bar =>
      simp only [parseFmPrefix.split] at h
      split at h
      · simp only [Option.some.injEq, Prod.mk.injEq] at h
        obtain ⟨rfl, rfl⟩ := h
        rfl
      · cases h
    | id s =>
      simp only [parseFmPrefix.split] at h
      have := ih _ _ _ _ h
      simpa using this
    | comma =>
      simp only [parseFmPrefix.split] at h
      have := ih _ _ _ _ h
      simpa using this
    | semi =>
      simp only [parseFmPrefix.split] at h
      have := ih _ _ _ _ h
      simpa using this
    | not =>
      simp only [parseFmPrefix.split] at h
      have := ih _ _ _ _ h
      simpa using this
    | kwSignature => simp [parseFmPrefix.split] at h
    | kwConditionals => simp [parseFmPrefix.split] at h
    | lbrace => simp [parseFmPrefix.split] at h
    | rbrace => simp [parseFmPrefix.split] at h
    | newline => simp [parseFmPrefix.split] at h

/-- an accepted formula prefix: the tokens split into the formula's tokens and the rest, and the formula's tokens derive it -/
theorem parseFmPrefix_sound (names : List String) (ts : List LTok) (pf : PF) (rest : List LTok)
    (h : parseFmPrefix names ts = some (pf, rest)) : ∃ pre, ts = pre ++ rest ∧ DFm names pre pf := by
  unfold parseFmPrefix at h
  split at h
  · cases h
  · rename_i pre rest' hs
    split at h
    · cases h
    · rename_i fts hm
      cases hp : parseFm fts with
      | none => rw [hp] at h; simp at h
      | some f =>
        rw [hp] at h
        simp only [Option.map_some, Option.some.injEq, Prod.mk.injEq] at h
        obtain ⟨rfl, rfl⟩ := h
        have hsp := split_spec ts 0 [] pre rest' hs
        simp only [List.reverse_nil, List.nil_append] at hsp
        exact ⟨pre, hsp, fts, f, hm, parseFm_sound fts f hp, rfl⟩

theorem skipNL_spec : ∀ (ts : List LTok), ∃ nl, (∀ t ∈ nl, t = LTok.newline) ∧ ts = nl ++ skipNL ts := by
  intro ts
  induction ts with
  | nil => exact ⟨[], by simp, by simp [skipNL]⟩
  | cons t r ih =>
    cases t with
    | newline =>
      obtain ⟨nl, hnl, he⟩ := ih
      refine ⟨.newline :: nl, ?_, ?_⟩
      · intro x hx
        rcases List.mem_cons.mp hx with rfl | hx
        · rfl
        · exact hnl x hx
      · simp only [skipNL, List.cons_append]
        rw [← he]
    | _ => exact ⟨[], by simp, by simp [skipNL]⟩

/-- **rule `condition`, soundness**: what `parseConditions` accepts has the documented shape; the remaining input is what
follows the consumed conditionals (after optional line ends) -/
theorem C10_conditions_sound (names : List String) : ∀ (fuel : Nat) (ts : List LTok) (cs : List (PF × PF)) (rest : List LTok),
    parseConditions names fuel ts = some (cs, rest) →
    ∃ consumed nl, DConds names consumed cs ∧ (∀ t ∈ nl, t = LTok.newline) ∧ ts = consumed ++ (nl ++ rest) := by
  intro fuel
  induction fuel with
  | zero => intro ts cs rest h; simp [parseConditions] at h
  | succ fuel ih =>
    intro ts cs rest h
    unfold parseConditions at h
    split at h
    · rename_i r
      split at h
      · rename_i b r1 hb
        split at h
        · rename_i a r2 ha
          obtain ⟨tb, htb, hdb⟩ := parseFmPrefix_sound names r b (.bar :: r1) hb
          obtain ⟨ta, hta, hda⟩ := parseFmPrefix_sound names r1 a (.rpar :: r2) ha
          split at h
          · rename_i r3
            cases hrec : parseConditions names fuel (skipNL r3) with
            | none => rw [hrec] at h; simp at h
            | some p =>
              obtain ⟨cs', r4⟩ := p
              rw [hrec] at h
              simp only [Option.some.injEq, Prod.mk.injEq] at h
              obtain ⟨rfl, rfl⟩ := h
              obtain ⟨consumed, nl, hd, hnl, he⟩ := ih _ _ _ hrec
              obtain ⟨nl0, hnl0, he0⟩ := skipNL_spec r3
              refine ⟨.lpar :: (tb ++ .bar :: (ta ++ .rpar :: .comma :: (nl0 ++ consumed))), nl,
                DConds.more hdb hda hnl0 hd, hnl, ?_⟩
              rw [htb, hta, he0, he]
              simp [List.append_assoc]
          · simp only [Option.some.injEq, Prod.mk.injEq] at h
            obtain ⟨rfl, rfl⟩ := h
            obtain ⟨nl0, hnl0, he0⟩ := skipNL_spec r2
            refine ⟨.lpar :: (tb ++ .bar :: (ta ++ [.rpar])), nl0, DConds.last hdb hda, hnl0, ?_⟩
            rw [htb, hta]
            conv => lhs; rw [he0]
            simp [List.append_assoc]
        · cases h
      · cases h
    · cases h

/-- the conditionals of an accepted list are exactly the `( B | A )` groups in file order: the number of conditionals equals
the number of groups, each with the consequent's tokens before and the antecedent's tokens after the bar -/
theorem DConds_length (names : List String) : ∀ (ts : List LTok) (cs : List (PF × PF)), DConds names ts cs → cs ≠ [] := by
  intro ts cs h
  cases h <;> simp

/-- a run of NEWLINE tokens -/
def NLs (nl : List LTok) : Prop := ∀ t ∈ nl, t = LTok.newline

/-- the documented shape of one `conditionals` block: keyword, line end, name, `{`, the conditionals (or none), `}`,
with optional line ends between the parts -/
inductive DBlock (names : List String) : List LTok → String → List (PF × PF) → Prop
  | empty {n0 n1 n2 n3 : List LTok} {name : String} : NLs n0 → NLs n1 → NLs n2 → NLs n3 →
      DBlock names (n0 ++ .kwConditionals :: .newline :: (n1 ++ .id name :: (n2 ++ .lbrace :: (n3 ++ [.rbrace])))) name []
  | conds {n0 n1 n2 n3 n4 consumed : List LTok} {name : String} {cs : List (PF × PF)} :
      NLs n0 → NLs n1 → NLs n2 → NLs n3 → NLs n4 → DConds names consumed cs →
      DBlock names (n0 ++ .kwConditionals :: .newline :: (n1 ++ .id name :: (n2 ++ .lbrace :: (n3 ++ (consumed ++ (n4 ++ [.rbrace])))))) name cs

/-- **rule `conditionals` (one block), soundness**: an accepted block has the documented shape, its name and its conditionals
in file order; the remaining input is what follows the closing brace (after optional line ends) -/
theorem C10_block_sound (names : List String) (ts : List LTok) (name : String) (cs : List (PF × PF)) (rest : List LTok)
    (h : parseBlock names ts = some ((name, cs), rest)) :
    ∃ consumed nl, DBlock names consumed name cs ∧ NLs nl ∧ ts = consumed ++ (nl ++ rest) := by
  unfold parseBlock at h
  obtain ⟨n0, hn0, e0⟩ := skipNL_spec ts
  split at h
  · rename_i r hs0
    obtain ⟨n1, hn1, e1⟩ := skipNL_spec r
    split at h
    · rename_i nm r1 hs1
      obtain ⟨n2, hn2, e2⟩ := skipNL_spec r1
      split at h
      · rename_i r2 hs2
        obtain ⟨n3, hn3, e3⟩ := skipNL_spec r2
        split at h
        · rename_i r3 hs3
          simp only [Option.some.injEq, Prod.mk.injEq] at h
          obtain ⟨⟨rfl, rfl⟩, rfl⟩ := h
          obtain ⟨n5, hn5, e5⟩ := skipNL_spec r3
          refine ⟨_, n5, DBlock.empty (name := nm) hn0 hn1 hn2 hn3, hn5, ?_⟩
          rw [e0, hs0, e1, hs1, e2, hs2, e3, hs3]
          conv => lhs; rw [e5]
          simp [List.append_assoc]
        · rename_i r3 hne
          cases hc : parseConditions names ((skipNL r2).length + 1) (skipNL r2) with
          | none => rw [hc] at h; simp at h
          | some p =>
            obtain ⟨cs', r4'⟩ := p
            rw [hc] at h
            cases r4' with
            | nil => simp at h
            | cons t r4 =>
              cases t <;> simp only [Option.some.injEq, Prod.mk.injEq, reduceCtorEq] at h
              obtain ⟨⟨rfl, rfl⟩, rfl⟩ := h
              obtain ⟨consumed, n4, hd, hn4, e4⟩ := C10_conditions_sound names _ _ _ _ hc
              obtain ⟨n5, hn5, e5⟩ := skipNL_spec r4
              refine ⟨_, n5, DBlock.conds (name := nm) hn0 hn1 hn2 hn3 hn4 hd, hn5, ?_⟩
              rw [e0, hs0, e1, hs1, e2, hs2, e3, e4]
              conv => lhs; rw [e5]
              simp [List.append_assoc]
      · cases h
    · cases h
  · cases h

/-- rule `myid`: identifiers separated by commas, closed by a line end -/
inductive DIds : List LTok → List String → Prop
  | last (s : String) : DIds [.id s, .newline] [s]
  | more (s : String) {ts : List LTok} {ss : List String} : DIds ts ss → DIds (.id s :: .comma :: ts) (s :: ss)

theorem parseIds_sound : ∀ (fuel : Nat) (ts : List LTok) (sig : List String) (rest : List LTok),
    parseIds fuel ts = some (sig, rest) → ∃ consumed, DIds consumed sig ∧ ts = consumed ++ rest := by
  intro fuel
  induction fuel with
  | zero => intro ts sig rest h; simp [parseIds] at h
  | succ fuel ih =>
    intro ts sig rest h
    unfold parseIds at h
    split at h
    · rename_i s r
      cases hr : parseIds fuel r with
      | none => rw [hr] at h; simp at h
      | some p =>
        rw [hr] at h
        simp only [Option.map_some, Option.some.injEq, Prod.mk.injEq] at h
        obtain ⟨rfl, rfl⟩ := h
        obtain ⟨consumed, hd, he⟩ := ih r p.1 p.2 hr
        exact ⟨.id s :: .comma :: consumed, DIds.more s hd, by rw [he]; rfl⟩
    · rename_i s r
      simp only [Option.some.injEq, Prod.mk.injEq] at h
      obtain ⟨rfl, rfl⟩ := h
      exact ⟨[.id s, .newline], DIds.last s, rfl⟩
    · cases h

/-- **a whole belief-base file, soundness**: an accepted file is `signature`, a line end, the declared atoms (distinct, not the
constants), then a first `conditionals` block of the documented shape whose name and conditionals (in file order) are the ones
returned; whatever follows the first block is further input (further blocks) -/
theorem C10_file_sound (names : List String) (ts : List LTok) (b : ParsedBase) (h : parseBaseToks names ts = some b) :
    ∃ n0 n1 idToks blockToks nl rest,
      NLs n0 ∧ NLs n1 ∧ DIds idToks b.signature ∧ DBlock names blockToks b.name b.conds ∧ NLs nl ∧
      ts = n0 ++ .kwSignature :: .newline :: (n1 ++ (idToks ++ (blockToks ++ (nl ++ rest)))) ∧
      b.signature.eraseDups.length = b.signature.length ∧ b.signature.contains "Top" = false ∧ b.signature.contains "Bottom" = false := by
  unfold parseBaseToks at h
  obtain ⟨n0, hn0, e0⟩ := skipNL_spec ts
  split at h
  · rename_i r hs0
    obtain ⟨n1, hn1, e1⟩ := skipNL_spec r
    split at h
    · cases h
    · rename_i sig r1 hids
      obtain ⟨idToks, hdi, ei⟩ := parseIds_sound _ _ _ _ hids
      split at h
      · rename_i blk more hblocks
        split at h
        · cases h
        · rename_i hchk
          simp only [Option.some.injEq] at h
          subst h
          -- the first block
          have hfirst : ∃ r', parseBlock names r1 = some (blk, r') := by
            unfold parseBlocks at hblocks
            cases hb : parseBlock names r1 with
            | none => rw [hb] at hblocks; simp at hblocks
            | some p =>
              obtain ⟨b0, r'⟩ := p
              rw [hb] at hblocks
              cases r' with
              | nil =>
                simp only [Option.some.injEq, List.cons.injEq] at hblocks
                exact ⟨[], by rw [hblocks.1]⟩
              | cons t r'' =>
                simp only [Option.map_eq_some_iff, List.cons.injEq] at hblocks
                obtain ⟨_, _, hb0, _⟩ := hblocks
                exact ⟨t :: r'', by rw [hb0]⟩
          obtain ⟨r', hb⟩ := hfirst
          obtain ⟨blockToks, nl, hdb, hnl, eb⟩ := C10_block_sound names r1 blk.1 blk.2 r' hb
          refine ⟨n0, n1, idToks, blockToks, nl, r', hn0, hn1, hdi, hdb, hnl, ?_, ?_⟩
          · rw [e0, hs0, e1, ei, eb]
          · simp only [Bool.or_eq_true, bne_iff_ne, ne_eq, not_or, Bool.not_eq_true, Decidable.not_not] at hchk
            exact ⟨hchk.1.1, hchk.1.2, hchk.2⟩
      · cases h
  · cases h

end InfOCF
