import InfOCFModel.Props.Common
/-!
# C03  System W answers equal the preferred-structure definition (both back-ends)

Both back-ends run the same recursion (`algWCode`); one optimizer call is the contract `famMin`
(the inclusion-minimal falsification sets of the layer over the worlds allowed by the hard
constraints). That the RC2 blocking loop and the z3 loop meet this contract is C15.
-/
namespace InfOCF

/-- the recursion as coded (tie at the lowest layer ⇒ False) equals the uniform recursion -/
theorem algWCode_eq_algW : ∀ (layers : List (List Cond)) (Hv Hf : List World), layers ≠ [] →
    algWCode layers Hv Hf = algW layers Hv Hf := by
  intro layers
  induction layers with
  | nil => intro _ _ h; exact absurd rfl h
  | cons L rest ih =>
    intro Hv Hf _
    simp only [algWCode, algW]
    cases hc : (famMin L Hf).all fun b => (famMin L Hv).any fun a => subsetL a b
    · simp
    · simp only [Bool.not_true, Bool.false_eq_true, ↓reduceIte, Bool.true_and]
      apply all_congr_mem
      intro x hx
      simp only [List.mem_filter] at hx
      cases rest with
      | nil =>
        simp only [algW, List.isEmpty_iff]
        obtain ⟨w, hw, hfs⟩ := famMin_real (List.contains_iff_mem.mp hx.2)
        have : w ∈ Hf.filter (fun w => fset L w == x) := by
          simp [List.mem_filter, hw, hfs]
        cases hfe : Hf.filter (fun w => fset L w == x) with
        | nil => rw [hfe] at this; simp at this
        | cons a t => simp
      | cons L' rest' => exact ih _ _ (by simp)

/-- `w <_w w'` in the property's words: going from the highest layer downwards the falsification
sets agree until a layer where `w`'s set is a proper subset of `w'`'s. -/
theorem C03_wless_spec (layers : List (List Cond)) (w w' : World) :
    wless layers w w' = true ↔
      ∃ pre L post, layers = pre ++ L :: post ∧ (∀ M ∈ pre, fset M w = fset M w') ∧
        fset L w ≠ fset L w' ∧ ∀ c ∈ fset L w, c ∈ fset L w' := by
  induction layers with
  | nil => simp [wless]
  | cons L rest ih =>
    simp only [wless]
    split
    · rename_i heq
      rw [ih]
      constructor
      · rintro ⟨pre, M, post, rfl, hpre, hne, hsub⟩
        exact ⟨L :: pre, M, post, rfl, by intro N hN; rcases List.mem_cons.mp hN with rfl | h; exact heq; exact hpre N h, hne, hsub⟩
      · rintro ⟨pre, M, post, hl, hpre, hne, hsub⟩
        cases pre with
        | nil =>
          simp only [List.nil_append, List.cons.injEq] at hl
          obtain ⟨rfl, _⟩ := hl
          exact absurd heq hne
        | cons N pre' =>
          simp only [List.cons_append, List.cons.injEq] at hl
          obtain ⟨rfl, rfl⟩ := hl
          exact ⟨pre', M, post, rfl, fun K hK => hpre K (List.mem_cons_of_mem _ hK), hne, hsub⟩
    · rename_i hne
      rw [subsetL_iff]
      constructor
      · intro hsub
        exact ⟨[], L, rest, rfl, by simp, hne, hsub⟩
      · rintro ⟨pre, M, post, hl, hpre, hne', hsub⟩
        cases pre with
        | nil =>
          simp only [List.nil_append, List.cons.injEq] at hl
          obtain ⟨rfl, _⟩ := hl
          exact hsub
        | cons N pre' =>
          simp only [List.cons_append, List.cons.injEq] at hl
          obtain ⟨rfl, _⟩ := hl
          exact absurd (hpre _ (by simp)) hne

/-- **C03 (main)**: on a non-empty strongly consistent base System W (either back-end) answers True
exactly when every world falsifying the query is `<_w`-dominated by a world verifying it. -/
theorem C03_main (Ω : List World) (D : List Cond) (q : Cond) (P : List (List Cond))
    (hD : D ≠ []) (hP : partS Ω D = some P) :
    ansW false Ω D q = .val (specW P.reverse (Ω.filter q.ver) (Ω.filter q.fal)) := by
  have hPF : partFor false Ω D = some P := by simpa [partFor] using hP
  rw [ansW, wrap_some hD hPF]
  simp only [finLayers, infLayer, Bool.false_eq_true, ↓reduceIte, feasible_nil]
  split
  · rename_i ht
    congr 1
    have := trivialQ_no_fal ht
    have hnil : Ω.filter q.fal = [] := by
      simp only [List.filter_eq_nil_iff]; intro w hw; simp [this w hw]
    simp [specW, hnil]
  · congr 1
    have hne := partS_nonempty hD hP
    simp only [bodyW, Bool.false_and, Bool.false_eq_true, ↓reduceIte]
    cases P with
    | nil => exact absurd rfl hne
    | cons L rest =>
      have hr : (L :: rest).reverse ≠ [] := by simp
      rw [algWCode_eq_algW _ _ _ hr, algW_eq_specW]

/-- the definition spelled out -/
theorem C03_spec_form (layersTop : List (List Cond)) (Ω : List World) (q : Cond) :
    specW layersTop (Ω.filter q.ver) (Ω.filter q.fal) = true ↔
      ∀ w' ∈ Ω, q.fal w' = true → ∃ w ∈ Ω, q.ver w = true ∧ wless layersTop w w' = true := by
  simp only [specW, List.all_eq_true, List.any_eq_true, List.mem_filter]
  constructor
  · intro h w' hw' hf
    obtain ⟨w, ⟨hw, hv⟩, hl⟩ := h w' ⟨hw', hf⟩
    exact ⟨w, hw, hv, hl⟩
  · rintro h w' ⟨hw', hf⟩
    obtain ⟨w, hw, hv, hl⟩ := h w' hw' hf
    exact ⟨w, ⟨hw, hv⟩, hl⟩

theorem C03_refuse (Ω : List World) (D : List Cond) (q : Cond) :
    (D = [] → ansW false Ω D q = .refuseEmpty) ∧
    (D ≠ [] → partS Ω D = none → ansW false Ω D q = .refuseIncons) := by
  constructor
  · rintro rfl; rfl
  · intro hD hP
    rw [ansW, wrap_none hD (by simpa [partFor] using hP)]

/-! non-vacuity: a base where System W and System Z differ (incomparable falsification sets) -/
section Example
-- atoms 0=a 1=b 2=c ; base (b|a), (c|a), (!b|a,c)?  — a two-layer base with a tie in the top layer
def exW_D : List Cond := [⟨.atom 1, .atom 0, 1⟩, ⟨.atom 2, .atom 0, 2⟩, ⟨.neg (.atom 0), .top, 3⟩]
example : ∃ P, partS (allWorlds 3) exW_D = some P ∧ P.length = 2 := by decide
-- (c | a ∧ ¬b): System W infers it, System Z does not
example : ansW false (allWorlds 3) exW_D ⟨.atom 2, .and (.atom 0) (.neg (.atom 1)), 0⟩ = .val true := by decide
example : ansZ false (allWorlds 3) exW_D ⟨.atom 2, .and (.atom 0) (.neg (.atom 1)), 0⟩ = .val false := by decide
end Example

end InfOCF
