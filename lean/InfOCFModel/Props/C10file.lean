import InfOCFModel.Props.C10text
/-!
# C10 at the level of the file grammar: conditionals are read in file order, consequent before the bar

`condToks names (b, a)` are the tokens `( B | A )` of one conditional, `condsToks` joins several with commas (and an
optional line break after each comma, as the shipped files have). `C10_conditions_order`: the model of the grammar
rule `condition` (`parseConditions`, as used by `parse_belief_base` / `parse_queries`) reads such a token list back as
exactly the list of (consequent, antecedent) pairs, in file order, and stops in front of the closing brace. Together
with `lex_unlex` (tokens ↔ characters) this is the file-order / consequent-before-bar clause of C10 for the model.
-/
namespace InfOCF

/-- depth bookkeeping of `parseFmPrefix.split` on formula-vocabulary tokens -/
def dep : Nat → List LTok → Option Nat
  | d, [] => some d
  | d, .lpar :: r => dep (d + 1) r
  | d, .rpar :: r => if d = 0 then none else dep (d - 1) r
  | d, .id _ :: r => dep d r
  | d, .comma :: r => dep d r
  | d, .semi :: r => dep d r
  | d, .not :: r => dep d r
  | _, _ => none

theorem dep_append : ∀ (a b : List LTok) (d : Nat), dep d (a ++ b) = (dep d a).bind fun d' => dep d' b := by
  intro a
  induction a with
  | nil => intro b d; simp [dep]
  | cons t r ih =>
    intro b d
    cases t <;> simp only [List.cons_append, dep, ih] <;> try rfl
    split <;> simp

/-- a run of balanced formula tokens is shifted onto the accumulator -/
theorem split_dep : ∀ (ts rest acc : List LTok) (d d' : Nat), dep d ts = some d' →
    parseFmPrefix.split (ts ++ rest) d acc = parseFmPrefix.split rest d' (ts.reverse ++ acc) := by
  intro ts
  induction ts with
  | nil => intro rest acc d d' h; simp only [dep, Option.some.injEq] at h; subst h; rfl
  | cons t r ih =>
    intro rest acc d d' h
    cases t with
    | lpar =>
      simp only [dep] at h
      simp only [List.cons_append, parseFmPrefix.split, ih rest (.lpar :: acc) (d + 1) d' h, List.reverse_cons, List.append_assoc,
        List.cons_append, List.nil_append]
    | rpar =>
      simp only [dep] at h
      split at h
      · cases h
      · rename_i hd
        simp only [List.cons_append, parseFmPrefix.split, hd, ↓reduceIte, ih rest (.rpar :: acc) (d - 1) d' h, List.reverse_cons,
          List.append_assoc, List.cons_append, List.nil_append]
    | id s =>
      simp only [dep] at h
      simp only [List.cons_append, parseFmPrefix.split, ih rest (.id s :: acc) d d' h, List.reverse_cons, List.append_assoc,
        List.cons_append, List.nil_append]
    | comma =>
      simp only [dep] at h
      simp only [List.cons_append, parseFmPrefix.split, ih rest (.comma :: acc) d d' h, List.reverse_cons, List.append_assoc,
        List.cons_append, List.nil_append]
    | semi =>
      simp only [dep] at h
      simp only [List.cons_append, parseFmPrefix.split, ih rest (.semi :: acc) d d' h, List.reverse_cons, List.append_assoc,
        List.cons_append, List.nil_append]
    | not =>
      simp only [dep] at h
      simp only [List.cons_append, parseFmPrefix.split, ih rest (.not :: acc) d d' h, List.reverse_cons, List.append_assoc,
        List.cons_append, List.nil_append]
    | kwSignature => simp [dep] at h
    | kwConditionals => simp [dep] at h
    | bar => simp [dep] at h
    | lbrace => simp [dep] at h
    | rbrace => simp [dep] at h
    | newline => simp [dep] at h

/-- printed formulas are balanced -/
theorem dep_pp (names : List String) : ∀ (f : Fm) (lvl d : Nat), dep d ((pp lvl f).map (tokL names)) = some d := by
  intro f
  induction f with
  | top => intro lvl d; simp [pp, tokL, dep]
  | bot => intro lvl d; simp [pp, tokL, dep]
  | atom i => intro lvl d; simp [pp, tokL, dep]
  | neg a ih => intro lvl d; simp only [pp, List.map_cons, tokL, dep]; exact ih 0 d
  | and a b iha ihb =>
    intro lvl d
    simp only [pp]
    split
    · simp only [List.cons_append, List.map_cons, List.map_append, tokL, dep, List.map_nil]
      rw [dep_append, dep_append, iha 1 (d + 1)]
      simp only [Option.bind_some, dep]
      rw [ihb 0 (d + 1)]
      simp
    · simp only [List.map_append, List.map_cons, tokL]
      rw [dep_append, iha 1 d]
      simp only [Option.bind_some, dep]
      exact ihb 0 d
  | or a b iha ihb =>
    intro lvl d
    simp only [pp]
    split
    · simp only [List.cons_append, List.map_cons, List.map_append, tokL, dep, List.map_nil]
      rw [dep_append, dep_append, iha 2 (d + 1)]
      simp only [Option.bind_some, dep]
      rw [ihb 1 (d + 1)]
      simp
    · simp only [List.map_append, List.map_cons, tokL]
      rw [dep_append, iha 2 d]
      simp only [Option.bind_some, dep]
      exact ihb 1 d

/-- atoms of `f` carry proper names that all occur in the file's name table `names'` -/
def NamedIn (names names' : List String) (f : Fm) : Prop :=
  ∀ n, f.mentions n = true → names.getD n "" ≠ "Top" ∧ names.getD n "" ≠ "Bottom" ∧ names.getD n "" ∈ names'

theorem mapM_fmToks (names names' : List String) (f : Fm) (h : NamedIn names names' f) :
    (fmToks names f).mapM (toFmTok names') = some (pp 2 (f.ren fun n => names'.idxOf (names.getD n ""))) := by
  unfold fmToks
  rw [← pp_ren]
  apply mapM_pointwise
  intro t ht
  cases t with
  | id n =>
    have := h n (pp_id_mentions f 2 n ht)
    have e1 : (names.getD n "" == "Top") = false := by simpa using this.1
    have e2 : (names.getD n "" == "Bottom") = false := by simpa using this.2.1
    simp only [tokL, toFmTok, tokRen, e1, e2, Bool.false_eq_true, ↓reduceIte]
  | top => simp [tokL, toFmTok, tokRen]
  | bot => simp [tokL, toFmTok, tokRen]
  | not => rfl
  | comma => rfl
  | semi => rfl
  | lpar => rfl
  | rpar => rfl

/-- the formula prefix in front of a bar (depth 0) or of the closing parenthesis of the conditional -/
theorem parseFmPrefix_fmToks (names names' : List String) (f : Fm) (h : NamedIn names names' f) (t : LTok) (r : List LTok)
    (ht : t = .bar ∨ t = .rpar) :
    parseFmPrefix names' (fmToks names f ++ t :: r) = some (PF.ofFm names f, t :: r) := by
  unfold parseFmPrefix
  have hs : parseFmPrefix.split (fmToks names f ++ t :: r) 0 [] = some (fmToks names f, t :: r) := by
    rw [split_dep (fmToks names f) (t :: r) [] 0 0 (dep_pp names f 2 0)]
    rcases ht with rfl | rfl <;> simp [parseFmPrefix.split]
  rw [hs]
  simp only
  rw [mapM_fmToks names names' f h]
  simp only
  rw [C10_print_parse]
  simp only [Option.map_some]
  rw [ofFm_ren names names' f (fun n hn => (h n hn).2.2)]

theorem skipNL_rbrace (r : List LTok) : skipNL (.rbrace :: r) = .rbrace :: r := rfl
theorem skipNL_lpar (r : List LTok) : skipNL (.lpar :: r) = .lpar :: r := rfl

/-- **C10 (file order, consequent before the bar)**: the `condition` rule reads a printed list of conditionals back as
exactly the list of (consequent, antecedent) pairs, in the order of the file -/
theorem C10_conditions_order (names names' : List String) : ∀ (cs : List (Fm × Fm)), cs ≠ [] →
    (∀ c ∈ cs, NamedIn names names' c.1 ∧ NamedIn names names' c.2) → ∀ (r : List LTok) (fuel : Nat), cs.length ≤ fuel →
    parseConditions names' fuel (condsToks names cs ++ .rbrace :: r) =
      some (cs.map fun c => (PF.ofFm names c.1, PF.ofFm names c.2), .rbrace :: r) := by
  intro cs
  induction cs with
  | nil => intro h; exact absurd rfl h
  | cons c rest ih =>
    intro _ hN r fuel hf
    obtain ⟨f1, rfl⟩ : ∃ f1, fuel = f1 + 1 := ⟨fuel - 1, by simp only [List.length_cons] at hf; omega⟩
    have hc := hN c (by simp)
    have step : ∀ tail, parseConditions names' (f1 + 1) (condToks names c ++ tail) =
        (match tail with
          | .comma :: r3 =>
            match parseConditions names' f1 (skipNL r3) with
            | some (cs', r4) => some ((PF.ofFm names c.1, PF.ofFm names c.2) :: cs', r4)
            | none => none
          | _ => some ([(PF.ofFm names c.1, PF.ofFm names c.2)], skipNL tail)) := by
      intro tail
      simp only [condToks, List.cons_append, List.append_assoc, parseConditions]
      rw [parseFmPrefix_fmToks names names' c.1 hc.1 .bar _ (Or.inl rfl)]
      simp only
      rw [parseFmPrefix_fmToks names names' c.2 hc.2 .rpar _ (Or.inr rfl)]
      simp only [List.nil_append]
      cases tail with
      | nil => rfl
      | cons t tl => cases t <;> rfl
    cases rest with
    | nil =>
      simp only [condsToks, List.map_cons, List.map_nil]
      rw [step]
      rfl
    | cons c2 rest2 =>
      have hrest : (c2 :: rest2) ≠ [] := by simp
      simp only [condsToks, List.append_assoc, List.cons_append]
      rw [step]
      simp only
      have hsk : skipNL (.newline :: (condsToks names (c2 :: rest2) ++ .rbrace :: r)) = condsToks names (c2 :: rest2) ++ .rbrace :: r := by
        simp only [skipNL]
        cases rest2 <;> simp [condsToks, condToks, skipNL]
      rw [hsk, ih hrest (fun d hd => hN d (by simp [hd])) r f1 (by simp only [List.length_cons] at hf ⊢; omega)]
      simp

end InfOCF
