import InfOCFModel.Props.C11
import InfOCFModel.Props.C15
/-!
# The z3 enumeration loop (`get_all_xi_i`) meets the optimizer contract without superset removal

The z3 back-ends add one soft constraint per conditional, so an optimum model falsifies a
*minimum-cardinality* set among the worlds not yet blocked. With such an oracle the blocking loop alone
returns exactly the inclusion-minimal falsification sets.
-/
namespace InfOCF

/-- an oracle whose answer is minimum-cardinality among the unblocked feasible worlds -/
structure OracleMin (L : List Cond) (H : List World) extends Oracle L H where
  optimal : ∀ b w, pick b = some w → ∀ w' ∈ H, blockedBy L b w' = false →
    (fset L w).length ≤ (fset L w').length

def LoopInv (L : List Cond) (H : List World) (acc : List (List Cond)) : Prop :=
  (∀ V ∈ acc, ∃ w ∈ H, fset L w = V) ∧
  (∀ V ∈ acc, ∀ w' ∈ H, blockedBy L acc w' = false → V.length ≤ (fset L w').length) ∧
  acc.Pairwise (fun a b => a.length ≤ b.length) ∧
  acc.Pairwise (fun a b => subsetL a b = false)

theorem blockedBy_of_append_false {L acc V w} (h : blockedBy L (acc ++ [V]) w = false) : blockedBy L acc w = false := by
  cases hb : blockedBy L acc w with
  | false => rfl
  | true => rw [blockedBy_mono hb] at h; cases h

theorem loopInv_step {L : List Cond} {H : List World} (o : OracleMin L H) (acc : List (List Cond)) (w : World)
    (hinv : LoopInv L H acc) (hp : o.pick acc = some w) : LoopInv L H (acc ++ [fset L w]) := by
  obtain ⟨hreal, hopt, hlen, hsub⟩ := hinv
  obtain ⟨hwH, hwb⟩ := o.sound acc w hp
  refine ⟨?_, ?_, ?_, ?_⟩
  · intro V hV
    rcases List.mem_append.mp hV with h | h
    · exact hreal V h
    · simp only [List.mem_singleton] at h; exact ⟨w, hwH, h.symm⟩
  · intro V hV w' hw' hb'
    have hb0 := blockedBy_of_append_false hb'
    rcases List.mem_append.mp hV with h | h
    · exact hopt V h w' hw' hb0
    · simp only [List.mem_singleton] at h; subst h
      exact o.optimal acc w hp w' hw' hb0
  · rw [List.pairwise_append]
    refine ⟨hlen, by simp, ?_⟩
    intro a ha b hb
    simp only [List.mem_singleton] at hb; subst hb
    exact hopt a ha w hwH hwb
  · rw [List.pairwise_append]
    refine ⟨hsub, by simp, ?_⟩
    intro a ha b hb
    simp only [List.mem_singleton] at hb; subst hb
    -- w is not blocked by acc: no earlier set is a subset of its falsification set
    simp only [blockedBy, List.any_eq_false] at hwb
    have := hwb a ha
    simpa using this

theorem enumLoop_inv {L : List Cond} {H : List World} (o : OracleMin L H) :
    ∀ (fuel : Nat) (acc : List (List Cond)), LoopInv L H acc → LoopInv L H (enumLoop o.toOracle fuel acc) := by
  intro fuel
  induction fuel with
  | zero => intro acc h; exact h
  | succ n ih =>
    intro acc hinv
    simp only [enumLoop]
    cases hp : o.pick acc with
    | none => exact hinv
    | some w =>
      have hstep := loopInv_step o acc w hinv hp
      by_cases hnil : fset L w = []
      · simp only [hnil, if_true]; rw [hnil] at hstep; exact hstep
      · simp only [hnil, if_false]; exact ih _ hstep

theorem pairwise_mem_cases {α} {R : α → α → Prop} : ∀ {l : List α}, l.Pairwise R → ∀ {a b : α}, a ∈ l → b ∈ l →
    a = b ∨ R a b ∨ R b a := by
  intro l
  induction l with
  | nil => intro _ a b ha; simp at ha
  | cons x t ih =>
    intro h a b ha hb
    obtain ⟨hx, ht⟩ := List.pairwise_cons.mp h
    rcases List.mem_cons.mp ha with rfl | ha'
    · rcases List.mem_cons.mp hb with rfl | hb'
      · exact Or.inl rfl
      · exact Or.inr (Or.inl (hx b hb'))
    · rcases List.mem_cons.mp hb with rfl | hb'
      · exact Or.inr (Or.inr (hx a ha'))
      · exact ih ht ha' hb'

/-- **the z3 loop is exact**: with a minimum-cardinality oracle the blocking loop (no superset removal) returns exactly
the inclusion-minimal falsification sets -/
theorem C03_z3enum {L : List Cond} {H : List World} (hL : L.Nodup) (o : OracleMin L H) (s : List Cond) :
    s ∈ enumLoop o.toOracle (unblockedCount L H [] + 1) [] ↔ s ∈ famMin L H := by
  have hspec := enumLoop_spec o.toOracle (unblockedCount L H [] + 1) [] (Nat.lt_succ_self _) (by simp)
  obtain ⟨hreal, hcov⟩ := hspec
  have hinv := enumLoop_inv o (unblockedCount L H [] + 1) [] ⟨by simp, by simp, by simp, by simp⟩
  obtain ⟨_, _, hlen, hsub⟩ := hinv
  have hmin : ∀ s ∈ enumLoop o.toOracle (unblockedCount L H [] + 1) [],
      ∀ t ∈ enumLoop o.toOracle (unblockedCount L H [] + 1) [], subsetL t s = true → t = s := by
    intro s hs t ht hts
    -- both orders lead to equality
    obtain ⟨ws, _, rfl⟩ := hreal s hs
    obtain ⟨wt, _, rfl⟩ := hreal t ht
    rcases pairwise_mem_cases (hlen.and hsub) ht hs with heq | h1 | h2
    · exact heq
    · rw [h1.2] at hts; cases hts
    · -- s was found before t, hence is not longer; a duplicate-free subset that is not shorter is the whole set
      have hfull := nodup_subset_full (fset_nodup hL wt) (subsetL_iff.mp hts) h2.1
      exact fset_antisymm hts (subsetL_iff.mpr hfull)
  rw [← minimal_of_enum _ hreal hcov s]
  constructor
  · intro hs; exact ⟨hs, hmin s hs⟩
  · intro h; exact h.1

end InfOCF
