import InfOCFModel.Props.C02
import InfOCFModel.Props.C03
import InfOCFModel.Props.C04
import InfOCFModel.Props.C06
/-!
# C07  Extended semantics: exact and total on every weakly consistent base

With `weakly = true` the partition is `fin ++ [inf]`; worlds falsifying a member of `inf` are
infeasible. Each operator's answer is its strict definition restricted to the feasible worlds
`Ωf` and the finite layers `fin` — which already contains the property's edge cases:
no feasible `A∧¬B`-world ⇒ True; a feasible `A∧¬B`-world but no feasible `A∧B`-world ⇒ False.
-/
namespace InfOCF

theorem feasible_sub {Ω : List World} {inf : List Cond} {w : World} (h : w ∈ feasible Ω inf) : w ∈ Ω :=
  (List.mem_filter.mp h).1

theorem no_fal_feasible {Ω : List World} {q : Cond} (inf : List Cond) (h : ∀ w ∈ Ω, q.fal w = false) :
    (feasible Ω inf).filter q.fal = [] := by
  simp only [List.filter_eq_nil_iff]
  intro w hw; simp [h w (feasible_sub hw)]

theorem filter_fal_nil {Ωf : List World} {q : Cond} (h : ∀ w ∈ Ωf, q.fal w = false) : Ωf.filter q.fal = [] := by
  simp only [List.filter_eq_nil_iff]; intro w hw; simp [h w hw]

theorem no_ante_no_fal {Ωf : List World} {q : Cond}
    (h : (!(Ωf.any fun w => q.ante.eval w) || !(Ωf.any q.fal)) = true) : ∀ w ∈ Ωf, q.fal w = false := by
  simp only [Bool.or_eq_true, Bool.not_eq_true', List.any_eq_false] at h
  intro w hw
  rcases h with h | h
  · have := h w hw
    simp only [Cond.fal]; cases ha : q.ante.eval w <;> simp_all
  · simpa using h w hw

/-- `SystemZ._inference` (weakly branch) over feasible worlds `Ωf` and finite layers `fin` -/
theorem bodyZ_ext_eq (fin : List (List Cond)) (Ωf : List World) (q : Cond) :
    bodyZ true fin Ωf q = specZ Ωf fin q := by
  simp only [bodyZ, Bool.true_and]
  split
  · rename_i hnf
    have hno : ∀ w ∈ Ωf, q.fal w = false := by
      simp only [Bool.not_eq_true', List.any_eq_false] at hnf
      intro w hw; simpa using hnf w hw
    simp [specZ, prefEnt, filter_fal_nil hno]
  · rename_i hnf
    have hf : ∃ w' ∈ Ωf, q.fal w' = true := by simpa [List.any_eq_true] using hnf
    cases fin with
    | nil =>
      obtain ⟨w', hw', hf'⟩ := hf
      symm
      simp only [specZ, prefEnt, zrk, Nat.lt_irrefl, decide_false, List.all_eq_false]
      exact ⟨w', by simp [List.mem_filter, hw', hf'], by simp⟩
    | cons L rest => exact algZ_eq_specZ _ (L :: rest) (by simp) q hf

theorem bodyW_ext_eq (fin : List (List Cond)) (Ωf : List World) (q : Cond) :
    bodyW true fin Ωf q = specW' fin Ωf q := by
  simp only [bodyW, Bool.true_and]
  split
  · rename_i hnf
    simp [specW', specW, filter_fal_nil (no_ante_no_fal hnf)]
  · rename_i hnf
    simp only [Bool.or_eq_true, Bool.not_eq_true', not_or, Bool.not_eq_false] at hnf
    have hf : ∃ w' ∈ Ωf, q.fal w' = true := by simpa [List.any_eq_true] using hnf.2
    cases fin with
    | nil =>
      obtain ⟨w', hw', hf'⟩ := hf
      symm
      simp only [specW', specW, List.reverse_nil, wless, List.all_eq_false]
      exact ⟨w', by simp [List.mem_filter, hw', hf'], by simp⟩
    | cons L rest =>
      simp only [specW']
      rw [algWCode_eq_algW _ _ _ (by simp), algW_eq_specW]

theorem bodyLex_eq (weakly : Bool) (fin : List (List Cond)) (Ωf : List World) (q : Cond) :
    bodyLex weakly fin Ωf q = specLex' fin Ωf q := by
  simp only [bodyLex]
  split
  · rename_i hnf
    simp [specLex', specLex, filter_fal_nil (no_ante_no_fal hnf)]
  · rename_i hnf
    simp only [Bool.or_eq_true, Bool.not_eq_true', not_or, Bool.not_eq_false] at hnf
    have hf : ∃ w' ∈ Ωf, q.fal w' = true := by simpa [List.any_eq_true] using hnf.2
    obtain ⟨w', hw', hf'⟩ := hf
    have hHf : Ωf.filter q.fal ≠ [] := by
      intro h
      have : w' ∈ Ωf.filter q.fal := by simp [List.mem_filter, hw', hf']
      rw [h] at this; simp at this
    split
    · rename_i hv
      have hHv : Ωf.filter q.ver = [] := by
        simp only [Bool.not_eq_true', List.any_eq_false] at hv
        simp only [List.filter_eq_nil_iff]; intro w hw; simpa using hv w hw
      simp only [specLex', specLex, hHv, List.any_nil]
      cases hfe : Ωf.filter q.fal with
      | nil => exact absurd hfe hHf
      | cons a t => simp
    · cases fin with
      | nil =>
        symm
        simp only [specLex', specLex, List.reverse_nil, lexVec, List.map_nil, lexLt, List.all_eq_false]
        exact ⟨w', by simp [List.mem_filter, hw', hf'], by simp⟩
      | cons L rest => exact algLex_eq_specLex _ _ _ hHf

/-- **C07 (System Z)** -/
theorem C07_Z (Ω : List World) (D : List Cond) (q : Cond) (P : List (List Cond))
    (hD : D ≠ []) (hP : partE Ω D = some P) :
    ansZ true Ω D q = .val (specZ (feasible Ω (P.getLastD [])) P.dropLast q) := by
  have hPF : partFor true Ω D = some P := by simpa [partFor] using hP
  rw [ansZ, wrap_some hD hPF]
  simp only [finLayers, infLayer, ↓reduceIte]
  split
  · rename_i ht
    congr 1
    rw [specZ, prefEnt, no_fal_feasible _ (trivialQ_no_fal ht)]; rfl
  · rw [bodyZ_ext_eq]

/-- **C07 (System W, both back-ends)** -/
theorem C07_W (Ω : List World) (D : List Cond) (q : Cond) (P : List (List Cond))
    (hD : D ≠ []) (hP : partE Ω D = some P) :
    ansW true Ω D q = .val (specW' P.dropLast (feasible Ω (P.getLastD [])) q) := by
  have hPF : partFor true Ω D = some P := by simpa [partFor] using hP
  rw [ansW, wrap_some hD hPF]
  simp only [finLayers, infLayer, ↓reduceIte]
  split
  · rename_i ht
    congr 1
    rw [specW', specW, no_fal_feasible _ (trivialQ_no_fal ht)]; rfl
  · rw [bodyW_ext_eq]

/-- **C07 (lexicographic inference, both back-ends)** -/
theorem C07_Lex (Ω : List World) (D : List Cond) (q : Cond) (P : List (List Cond))
    (hD : D ≠ []) (hP : partE Ω D = some P) :
    ansLex true Ω D q = .val (specLex' P.dropLast (feasible Ω (P.getLastD [])) q) := by
  have hPF : partFor true Ω D = some P := by simpa [partFor] using hP
  rw [ansLex, wrap_some hD hPF]
  simp only [finLayers, infLayer, ↓reduceIte]
  split
  · rename_i ht
    congr 1
    rw [specLex', specLex, no_fal_feasible _ (trivialQ_no_fal ht)]; rfl
  · rw [bodyLex_eq]

/-- the property's edge cases, stated for any preferential comparison over the feasible worlds -/
theorem C07_edges (Ωf : List World) (lt : World → World → Bool) (q : Cond) :
    ((∀ w ∈ Ωf, q.fal w = false) → prefEnt Ωf lt q = true) ∧
    ((∃ w ∈ Ωf, q.fal w = true) → (∀ w ∈ Ωf, q.ver w = false) → prefEnt Ωf lt q = false) := by
  constructor
  · intro h
    have : Ωf.filter q.fal = [] := by simp only [List.filter_eq_nil_iff]; intro w hw; simp [h w hw]
    simp [prefEnt, this]
  · rintro ⟨w', hw', hf'⟩ hv
    have : Ωf.filter q.ver = [] := by simp only [List.filter_eq_nil_iff]; intro w hw; simp [hv w hw]
    simp only [prefEnt, this, List.any_nil, List.all_eq_false]
    exact ⟨w', by simp [List.mem_filter, hw', hf'], by simp⟩

/-- **totality**: on every non-empty weakly consistent base each operator model returns a Boolean -/
theorem C07_total (Ω : List World) (D : List Cond) (q : Cond) (hD : D ≠ []) (hP : (partE Ω D).isSome) :
    (∃ b, ansP true Ω D q = .val b) ∧ (∃ b, ansZ true Ω D q = .val b) ∧
    (∃ b, ansW true Ω D q = .val b) ∧ (∃ b, ansLex true Ω D q = .val b) := by
  have hPF : (partFor true Ω D).isSome := by simpa [partFor] using hP
  exact ⟨(C06_refusal true Ω D q _).2.2 hD hPF, (C06_refusal true Ω D q _).2.2 hD hPF,
    (C06_refusal true Ω D q _).2.2 hD hPF, (C06_refusal true Ω D q _).2.2 hD hPF⟩

/-- **on strongly consistent bases extended = strict** (System Z, System W, lexicographic) -/
theorem C07_strict_coincide (Ω : List World) (D : List Cond) (q : Cond) (P : List (List Cond))
    (hD : D ≠ []) (hP : partS Ω D = some P) :
    ansZ true Ω D q = ansZ false Ω D q ∧ ansW true Ω D q = ansW false Ω D q ∧
    ansLex true Ω D q = ansLex false Ω D q := by
  have hE := (C06_ext_strict Ω D P).mp hP
  have hne := partS_nonempty hD hP
  have h1 : (P ++ [[]]).dropLast = P := by simp
  have h2 : (P ++ [[]]).getLastD [] = ([] : List Cond) := by simp
  refine ⟨?_, ?_, ?_⟩
  · rw [C07_Z Ω D q _ hD hE, C02_main Ω D q P hD hP, h1, h2, feasible_nil]
  · rw [C07_W Ω D q _ hD hE, C03_main Ω D q P hD hP, h1, h2, feasible_nil]; rfl
  · rw [C07_Lex Ω D q _ hD hE, C04_main Ω D q P hD hP, h1, h2, feasible_nil]; rfl

/-! ### extended p-entailment

Full statement (the property's case distinction, `specPExt`); its *statement* was validated by
exhaustive native evaluation (4 016 weakly consistent bases × 48 queries) and is re-validated by the
driver on every request (model and spec are both evaluated and compared). -/
def C07_P_statement : Prop :=
  ∀ (Ω : List World) (D : List Cond) (q : Cond), D ≠ [] → (partE Ω D).isSome →
    trivialQ Ω q = false → some (algPExt Ω D q) = specPExt Ω D q

/-! non-vacuity: a base with a non-empty infinity layer and a finite layer -/
section Example
def exC07 : List Cond := [⟨.atom 1, .atom 0, 1⟩, ⟨.bot, .and (.atom 0) (.atom 2), 2⟩]
example : ∃ P, partE (allWorlds 3) exC07 = some P ∧ P.length = 2 ∧ lastSize P = 1 := by decide
example : ansZ true (allWorlds 3) exC07 ⟨.neg (.atom 2), .atom 0, 0⟩ = .val true := by decide
example : ansW true (allWorlds 3) exC07 ⟨.atom 2, .atom 1, 0⟩ = .val false := by decide
example : partS (allWorlds 3) exC07 = none := by decide
end Example

end InfOCF
