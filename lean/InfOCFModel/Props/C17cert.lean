import InfOCFModel.LinCert
import InfOCFModel.Props.C05cert
import InfOCFModel.Props.C17
/-!
# C17, completeness of the Pareto front: an accepted certificate proves that every c-representation dominates a
member of the front

`linRefute_sound`: the generic Farkas step with constants.
`C17_front_cert_sound`: if `frontCertCheck Ω D front pool = true` then for **every** impact assignment that is a
c-representation of `D` some member of `front` lies componentwise below it.  With `C17_pareto_box` (each returned
vector is a Pareto-minimal c-representation, decided by the finite box test) this gives "the front contains every
Pareto-minimal vector": `C17_front_complete_of_cert`.
-/
namespace InfOCF

/-! ### vectors -/

theorem dotL_nil_right (a : List Nat) : dotL a [] = 0 := by
  cases a <;> rfl

theorem dotL_addV : ∀ (a b x : List Nat), dotL (addV a b) x = dotL a x + dotL b x := by
  intro a
  induction a with
  | nil => intro b x; simp [addV, dotL]
  | cons a0 as ih =>
    intro b x
    cases b with
    | nil => simp [addV, dotL]
    | cons b0 bs =>
      cases x with
      | nil => simp [dotL]
      | cons x0 xs =>
        simp only [addV, dotL, ih bs xs, Nat.add_mul]
        omega

theorem dotL_smulV (m : Nat) : ∀ (a x : List Nat), dotL (smulV m a) x = m * dotL a x := by
  intro a
  induction a with
  | nil => intro x; simp [smulV, dotL]
  | cons a0 as ih =>
    intro x
    cases x with
    | nil => simp [smulV, dotL]
    | cons x0 xs =>
      have := ih xs
      simp only [smulV] at this
      simp only [smulV, List.map_cons, dotL, this, Nat.mul_add, Nat.mul_assoc]

theorem leV_nil_dot : ∀ (a x : List Nat), leV a [] = true → dotL a x = 0 := by
  intro a
  induction a with
  | nil => intro x _; simp [dotL]
  | cons a0 as ih =>
    intro x h
    simp only [leV, Bool.and_eq_true, beq_iff_eq] at h
    cases x with
    | nil => rfl
    | cons x0 xs =>
      simp only [dotL, h.1, ih xs h.2]
      omega

theorem leV_dot : ∀ (a b x : List Nat), leV a b = true → dotL a x ≤ dotL b x := by
  intro a
  induction a with
  | nil => intro b x _; simp [dotL]
  | cons a0 as ih =>
    intro b x h
    cases b with
    | nil =>
      rw [leV_nil_dot _ x h]; exact Nat.zero_le _
    | cons b0 bs =>
      simp only [leV, Bool.and_eq_true, decide_eq_true_eq] at h
      cases x with
      | nil => simp [dotL]
      | cons x0 xs =>
        simp only [dotL]
        have h1 := Nat.mul_le_mul_right x0 h.1
        have h2 := ih bs xs h.2
        omega

theorem weighted_lin (x : List Nat) : ∀ (L : List (Nat × LIneq)), (∀ p ∈ L, p.2.holds x) →
    dotL (sumLC L) x + sumLK L ≤ dotL (sumRC L) x + sumRK L := by
  intro L
  induction L with
  | nil => intro _; simp [sumLC, sumRC, sumLK, sumRK, dotL]
  | cons p t ih =>
    intro h
    have hp := h p (by simp)
    have ht := ih (fun q hq => h q (List.mem_cons_of_mem _ hq))
    unfold LIneq.holds at hp
    simp only [sumLC, sumRC, sumLK, sumRK, dotL_addV, dotL_smulV]
    have := Nat.mul_le_mul_left p.1 hp
    rw [Nat.mul_add, Nat.mul_add] at this
    omega

/-- **Farkas step with constants** -/
theorem linRefute_sound (x : List Nat) (L : List (Nat × LIneq)) (h : ∀ p ∈ L, p.2.holds x)
    (hr : linRefute L = true) : False := by
  unfold linRefute at hr
  simp only [Bool.and_eq_true, decide_eq_true_eq] at hr
  have h1 := weighted_lin x L h
  have h2 := leV_dot _ _ x hr.1
  omega

theorem dotL_unitV : ∀ (j : Nat) (x : List Nat), dotL (unitV j) x = x.getD j 0 := by
  intro j
  induction j with
  | zero =>
    intro x
    cases x with
    | nil => rfl
    | cons a xs => simp [unitV, dotL, dotL_nil_right]
  | succ j ih =>
    intro x
    cases x with
    | nil => simp [dotL_nil_right]
    | cons a xs =>
      have := ih xs
      simp only [unitV] at this
      simp only [unitV, List.replicate_succ, List.cons_append, dotL, this, List.getD_cons_succ]
      omega

theorem dotL_map (D : List Cond) (imp f : Cond → Nat) : dotL (D.map f) (D.map imp) = valF D imp f := by
  unfold valF
  induction D with
  | nil => rfl
  | cons a t ih => simp only [List.map_cons, dotL, ih, sumL_cons]

/-! ### the theorem -/

/-- **an accepted certificate proves completeness of the front**: every c-representation of `D` lies componentwise
above some member of `front` -/
theorem C17_front_cert_sound (Ω : List World) (D : List Cond) (hD : D.Nodup) (front : List (List Nat)) (pool : List FLeaf)
    (h : frontCertCheck Ω D front pool = true) (imp : Cond → Nat) (hrep : IsCRep Ω D imp) :
    ∃ f ∈ front, ∀ j, j < D.length → f.getD j 0 ≤ (D.map imp).getD j 0 := by
  apply Classical.byContradiction
  intro hno
  have hbase := (C05_base_iff Ω D hD imp).mp hrep
  -- a coordinate below each front member
  have hcoord : ∀ f ∈ front, ∃ j ∈ List.range D.length, (D.map imp).getD j 0 + 1 ≤ f.getD j 0 := by
    intro f hf
    apply Classical.byContradiction
    intro hn
    apply hno
    refine ⟨f, hf, ?_⟩
    intro j hj
    apply Classical.byContradiction
    intro hlt
    exact hn ⟨j, List.mem_range.mpr hj, by omega⟩
  obtain ⟨cs, hcs, hcsfacts⟩ := choices_exists (fun _ : List Nat => List.range D.length)
    (fun f j => (D.map imp).getD j 0 + 1 ≤ f.getD j 0) front hcoord
  -- the rows
  have hrows : ∀ x ∈ ctab Ω D, ∃ S ∈ x.V,
      (x.i ∈ D ∧ IsFilt D S ∧ ∀ T ∈ x.F, IsFilt D T ∧ cost imp S < imp x.i + cost imp T) := by
    intro x hx
    obtain ⟨i, hi, rfl⟩ := List.mem_map.mp hx
    obtain ⟨S, hS, hfacts⟩ := compiledOne_choice Ω D imp i (hbase i hi)
    exact ⟨S, hS, hi, famMin_others_isFilt D i _ S hS,
      fun T hT => ⟨famMin_others_isFilt D i _ T hT, hfacts T hT⟩⟩
  obtain ⟨ch, hch, hchfacts⟩ := choices_exists (fun x : CRow => x.V)
    (fun x S => x.i ∈ D ∧ IsFilt D S ∧ ∀ T ∈ x.F, IsFilt D T ∧ cost imp S < imp x.i + cost imp T) (ctab Ω D) hrows
  unfold frontCertCheck at h
  simp only [List.all_eq_true, List.any_eq_true] at h
  obtain ⟨lf, _, hok⟩ := h ch hch cs hcs
  apply linRefute_sound (D.map imp) _ _ hok
  intro p hp
  unfold frontIneqs at hp
  rcases List.mem_append.mp hp with hp | hp
  · obtain ⟨x, hx, hp⟩ := List.mem_flatMap.mp hp
    obtain ⟨y, hy, rfl⟩ := List.mem_map.mp hp
    have hx1 : x.1 ∈ (ctab Ω D).zip ch := (List.of_mem_zip (a := x.1) (b := x.2) hx).1
    have hy1 : y.1 ∈ x.1.1.F := (List.of_mem_zip (a := y.1) (b := y.2) hy).1
    obtain ⟨hiD, hSf, hTs⟩ := hchfacts x.1 hx1
    obtain ⟨hTf, hlt⟩ := hTs y.1 hy1
    show LIneq.holds (D.map imp) ⟨indV D x.1.2, 1, addV (indV D [x.1.1.i]) (indV D y.1), 0⟩
    unfold LIneq.holds indV
    simp only [dotL_addV, dotL_map]
    rw [valF_ind_single D hD imp _ hiD, valF_ind_of_isFilt D imp _ hSf, valF_ind_of_isFilt D imp _ hTf]
    omega
  · obtain ⟨z, hz, rfl⟩ := List.mem_map.mp hp
    have hz1 : z.1 ∈ front.zip cs := (List.of_mem_zip (a := z.1) (b := z.2) hz).1
    have := hcsfacts z.1 hz1
    show LIneq.holds (D.map imp) ⟨unitV z.1.2, 1, [], z.1.1.getD z.1.2 0⟩
    unfold LIneq.holds
    simp only [dotL_unitV, dotL]
    omega

/-- positional form: every checked c-representation vector `η` dominates a member of the front -/
theorem C17_front_cert_vectors (Ω : List World) (D : List Cond) (hD : D.Nodup) (front : List (List Nat)) (pool : List FLeaf)
    (h : frontCertCheck Ω D front pool = true) (η : List Nat) (hη : isCRepB Ω D η = true) :
    ∃ f ∈ front, ∀ j, j < D.length → f.getD j 0 ≤ (D.map (impOf D η)).getD j 0 := by
  have hlen : η.length = D.length := by
    simp only [isCRepB, Bool.and_eq_true, beq_iff_eq] at hη
    exact hη.1
  exact C17_front_cert_sound Ω D hD front pool h (impOf D η) ((isCRepB_iff Ω D η hlen).mp hη)


/-- the c-inference certificate in terms of the executable counter-model test of the harness: once a certificate for `q` is accepted,
**no** impact vector passes "is a c-representation and does not accept `q`" -/
theorem C05_cert_no_counter_model (Ω : List World) (D : List Cond) (hD : D.Nodup) (q : Cond) (pool : List CLeaf)
    (h : cCertCheck Ω D q pool = true) (hf : ∃ w ∈ Ω, q.fal w = true) (η : List Nat) (hη : isCRepB Ω D η = true) :
    acceptCode Ω (kappaC D (impOf D η)) q = true := by
  have hlen : η.length = D.length := by
    simp only [isCRepB, Bool.and_eq_true, beq_iff_eq] at hη
    exact hη.1
  have hspec := C05_cert_sound Ω D hD q pool h
  exact (C18_accept_iff Ω _ q).mpr (C17_cinf_accepted Ω D q (impOf D η) hspec hf ((isCRepB_iff Ω D η hlen).mp hη))

/-! non-vacuity: the penguin base has the single Pareto-minimal vector (1,2,2) -/
section Example
def exFrontPool : List FLeaf :=
  [⟨[[0], [0], [0]], [1]⟩, ⟨[[1], [0], [0]], [1]⟩, ⟨[[0], [1], [1]], [1]⟩, ⟨[[1], [0], [1]], [1]⟩, ⟨[[1], [1], [0]], [1]⟩]
example : frontCertCheck (allWorlds 3) exCert [[1, 2, 2]] exFrontPool = true := by decide +kernel
/-- hence every c-representation of the penguin base has impacts at least (1,2,2) -/
example (imp : Cond → Nat) (h : IsCRep (allWorlds 3) exCert imp) :
    ∃ f ∈ [[1, 2, 2]], ∀ j, j < exCert.length → f.getD j 0 ≤ (exCert.map imp).getD j 0 :=
  C17_front_cert_sound _ _ (by decide) _ exFrontPool (by decide +kernel) imp h
/-- the claim "(1,2,3) alone is the front" is not certified by that pool (it is false: (1,2,2) is a c-representation) -/
example : frontCertCheck (allWorlds 3) exCert [[1, 2, 3]] exFrontPool = false := by decide +kernel
end Example

end InfOCF
