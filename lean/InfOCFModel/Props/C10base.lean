import InfOCFModel.Props.C10file
/-!
# C10 for whole belief-base files: print, lex, parse is the identity

`baseToks sig name cs` are the tokens of a belief-base file in the layout of the shipped `.cl` files
(`signature` line, one `conditionals` block, one conditional per line), `unlexChars` writes them as characters.
`C10_base_roundtrip`: `parseBaseText` (the model of `parse_belief_base` on a string: lexer, rule `ckbs`, end of input,
the visitor's signature checks) reads that text back as the declared signature, the block's name and exactly the
conditionals in file order with consequent before and antecedent after the bar.
-/
namespace InfOCF

/-- printable tokens: identifiers must be valid and not reserved -/
def PTok : LTok → Prop
  | .id s => ValidId s ∧ s ≠ "signature" ∧ s ≠ "conditionals"
  | _ => True

theorem FTok.toPTok {t : LTok} (h : FTok t) : PTok t := by
  cases t <;> simp_all [FTok, PTok]

theorem lexFuel_bar (fuel : Nat) (R : List Char) :
    lexFuel (fuel + 1) ('|' :: ' ' :: R) = (lexFuel fuel (' ' :: R)).map (LTok.bar :: ·) := by
  simp only [lexFuel]; simp (decide := true) only [↓reduceIte]
theorem lexFuel_lbrace (fuel : Nat) (R : List Char) :
    lexFuel (fuel + 1) ('{' :: ' ' :: R) = (lexFuel fuel (' ' :: R)).map (LTok.lbrace :: ·) := by
  simp only [lexFuel]; simp (decide := true) only [↓reduceIte]
theorem lexFuel_rbrace (fuel : Nat) (R : List Char) :
    lexFuel (fuel + 1) ('}' :: ' ' :: R) = (lexFuel fuel (' ' :: R)).map (LTok.rbrace :: ·) := by
  simp only [lexFuel]; simp (decide := true) only [↓reduceIte]
theorem lexFuel_newline (fuel : Nat) (R : List Char) :
    lexFuel (fuel + 1) ('\n' :: ' ' :: R) = (lexFuel fuel (' ' :: R)).map (LTok.newline :: ·) := by
  simp only [lexFuel]; simp (decide := true) only [↓reduceIte]

/-- a word (valid identifier shape) is lexed as a keyword or as an identifier -/
theorem lexFuel_word (fuel : Nat) (s : String) (R : List Char) (hs : ValidId s) :
    lexFuel (fuel + 1) (s.toList ++ ' ' :: R) = (lexFuel fuel (' ' :: R)).map
      ((if s == "signature" then LTok.kwSignature else if s == "conditionals" then LTok.kwConditionals else LTok.id s) :: ·) := by
  obtain ⟨c, a, hca, hc, ha⟩ := hs
  have hc' : c.isAlpha = true := hc
  rw [hca]
  simp only [List.cons_append, lexFuel]
  rw [alpha_ne c ' ' (by decide) hc', alpha_ne c '\t' (by decide) hc', alpha_ne c '\r' (by decide) hc',
    alpha_ne c '\n' (by decide) hc', alpha_ne c '/' (by decide) hc', alpha_ne c ',' (by decide) hc',
    alpha_ne c ';' (by decide) hc', alpha_ne c '!' (by decide) hc', alpha_ne c '(' (by decide) hc',
    alpha_ne c ')' (by decide) hc', alpha_ne c '|' (by decide) hc', alpha_ne c '{' (by decide) hc',
    alpha_ne c '}' (by decide) hc']
  simp only [Bool.or_self, Bool.false_eq_true, ↓reduceIte, hc, takeId_stop a R ha]
  have hstr : String.ofList (c :: a) = s := by rw [← hca]; simp
  rw [hstr]

theorem validId_signature : ValidId "signature" :=
  ⟨'s', ['i', 'g', 'n', 'a', 't', 'u', 'r', 'e'], by decide, by decide, by decide⟩
theorem validId_conditionals : ValidId "conditionals" :=
  ⟨'c', ['o', 'n', 'd', 'i', 't', 'i', 'o', 'n', 'a', 'l', 's'], by decide, by decide, by decide⟩

theorem lexFuel_kwSignature (fuel : Nat) (R : List Char) :
    lexFuel (fuel + 1) (tokChars .kwSignature ++ ' ' :: R) = (lexFuel fuel (' ' :: R)).map (LTok.kwSignature :: ·) := by
  have h := lexFuel_word fuel "signature" R validId_signature
  have e : ("signature" : String).toList = tokChars .kwSignature := by decide
  rw [e] at h
  rw [h]; rfl

theorem lexFuel_kwConditionals (fuel : Nat) (R : List Char) :
    lexFuel (fuel + 1) (tokChars .kwConditionals ++ ' ' :: R) = (lexFuel fuel (' ' :: R)).map (LTok.kwConditionals :: ·) := by
  have h := lexFuel_word fuel "conditionals" R validId_conditionals
  have e : ("conditionals" : String).toList = tokChars .kwConditionals := by decide
  rw [e] at h
  rw [h]; rfl

theorem tokChars_pos' (t : LTok) (ht : PTok t) : 0 < (tokChars t).length := by
  cases t with
  | id s => obtain ⟨c, a, hca, _⟩ := ht.1; simp only [tokChars, hca, List.length_cons]; omega
  | _ => simp only [tokChars, List.length_cons, List.length_nil]; omega

/-- **the lexer model reads back every printable token list** (all token kinds of the grammar) -/
theorem lex_unlex_all : ∀ (ts : List LTok), (∀ t ∈ ts, PTok t) → ∀ fuel, (unlexChars ts).length < fuel →
    lexFuel fuel (unlexChars ts) = some ts := by
  intro ts
  induction ts with
  | nil =>
    intro _ fuel hf
    cases fuel with
    | zero => simp [unlexChars] at hf
    | succ n => simp [unlexChars, lexFuel]
  | cons t r ih =>
    intro h fuel hf
    have ht := h t (by simp)
    have hr : ∀ u ∈ r, PTok u := fun u hu => h u (by simp [hu])
    simp only [unlexChars, List.length_append, List.length_cons] at hf
    obtain ⟨f1, rfl⟩ : ∃ f1, fuel = f1 + 1 := ⟨fuel - 1, by omega⟩
    obtain ⟨f2, rfl⟩ : ∃ f2, f1 = f2 + 1 := ⟨f1 - 1, by omega⟩
    have hstep : lexFuel (f2 + 1 + 1) (tokChars t ++ ' ' :: unlexChars r) =
        (lexFuel (f2 + 1) (' ' :: unlexChars r)).map (t :: ·) := by
      cases t with
      | id s => exact lexFuel_id _ s _ ht.1 ht.2.1 ht.2.2
      | comma => exact lexFuel_comma _ _
      | semi => exact lexFuel_semi _ _
      | not => exact lexFuel_not _ _
      | lpar => exact lexFuel_lpar _ _
      | rpar => exact lexFuel_rpar _ _
      | kwSignature => exact lexFuel_kwSignature _ _
      | kwConditionals => exact lexFuel_kwConditionals _ _
      | bar => exact lexFuel_bar _ _
      | lbrace => exact lexFuel_lbrace _ _
      | rbrace => exact lexFuel_rbrace _ _
      | newline => exact lexFuel_newline _ _
    simp only [unlexChars]
    have hpos := tokChars_pos' t ht
    rw [hstep, lexFuel_space, ih hr f2 (by omega)]
    rfl

/-! ### the file -/

theorem parseIds_idsToks : ∀ (sig : List String), sig ≠ [] → ∀ (r : List LTok) (fuel : Nat), sig.length ≤ fuel →
    parseIds fuel (idsToks sig ++ .newline :: r) = some (sig, r) := by
  intro sig
  induction sig with
  | nil => intro h; exact absurd rfl h
  | cons s rest ih =>
    intro _ r fuel hf
    obtain ⟨f1, rfl⟩ : ∃ f1, fuel = f1 + 1 := ⟨fuel - 1, by simp only [List.length_cons] at hf; omega⟩
    cases rest with
    | nil => simp [idsToks, parseIds]
    | cons s2 rest2 =>
      simp only [idsToks, List.cons_append, parseIds]
      rw [ih (by simp) r f1 (by simp only [List.length_cons] at hf ⊢; omega)]
      rfl

theorem idsToks_length : ∀ (sig : List String), sig.length ≤ (idsToks sig).length := by
  intro sig
  induction sig with
  | nil => simp [idsToks]
  | cons a rest ih =>
    cases rest with
    | nil => simp [idsToks]
    | cons b r2 => simp only [idsToks, List.length_cons] at ih ⊢; omega

theorem condsToks_length (names : List String) : ∀ (cs : List (Fm × Fm)), cs.length ≤ (condsToks names cs).length := by
  intro cs
  induction cs with
  | nil => simp [condsToks]
  | cons c rest ih =>
    cases rest with
    | nil => simp [condsToks, condToks]
    | cons c2 r2 => simp only [condsToks, List.length_append, List.length_cons] at ih ⊢; omega

theorem mem_idNames {ts : List LTok} {s : String} (h : LTok.id s ∈ ts) : s ∈ idNames ts := by
  unfold idNames
  rw [List.mem_eraseDups, List.mem_filterMap]
  exact ⟨.id s, h, rfl⟩

theorem idsToks_mem : ∀ (sig : List String) (s : String), s ∈ sig → LTok.id s ∈ idsToks sig := by
  intro sig
  induction sig with
  | nil => intro s h; cases h
  | cons a rest ih =>
    intro s h
    cases rest with
    | nil => simp only [List.mem_singleton] at h; subst h; simp [idsToks]
    | cons b r2 =>
      simp only [List.mem_cons] at h
      simp only [idsToks, List.mem_cons, LTok.id.injEq, reduceCtorEq, false_or]
      rcases h with rfl | h
      · exact Or.inl rfl
      · exact Or.inr (ih s (by simpa using h))

theorem idsToks_PTok : ∀ (sig : List String), (∀ s ∈ sig, AtomName s) → ∀ t ∈ idsToks sig, PTok t := by
  intro sig
  induction sig with
  | nil => intro _ t h; cases h
  | cons a rest ih =>
    intro hs t ht
    have ha := hs a (by simp)
    cases rest with
    | nil =>
      simp only [idsToks, List.mem_singleton] at ht; subst ht
      exact ⟨ha.1, ha.2.1, ha.2.2.1⟩
    | cons b r2 =>
      simp only [idsToks, List.mem_cons] at ht
      rcases ht with rfl | rfl | ht
      · exact ⟨ha.1, ha.2.1, ha.2.2.1⟩
      · trivial
      · exact ih (fun s h => hs s (by simp [h])) t ht

theorem fmToks_PTok (names : List String) (f : Fm) (hn : ∀ s ∈ names, AtomName s)
    (hf : ∀ n, f.mentions n = true → n < names.length) : ∀ t ∈ fmToks names f, PTok t := by
  intro t ht
  obtain ⟨u, hu, rfl⟩ := List.mem_map.mp ht
  cases u with
  | id n =>
    have hlt := hf n (pp_id_mentions f 2 n hu)
    have : AtomName (names.getD n "") := by
      rw [List.getD_eq_getElem?_getD, List.getElem?_eq_getElem hlt, Option.getD_some]
      exact hn _ (List.getElem_mem hlt)
    exact ⟨this.1, this.2.1, this.2.2.1⟩
  | top => exact ⟨validId_Top, by decide, by decide⟩
  | bot => exact ⟨validId_Bottom, by decide, by decide⟩
  | not => trivial
  | comma => trivial
  | semi => trivial
  | lpar => trivial
  | rpar => trivial

theorem condsToks_PTok (names : List String) (hn : ∀ s ∈ names, AtomName s) : ∀ (cs : List (Fm × Fm)),
    (∀ c ∈ cs, (∀ n, c.1.mentions n = true → n < names.length) ∧ (∀ n, c.2.mentions n = true → n < names.length)) →
    ∀ t ∈ condsToks names cs, PTok t := by
  intro cs
  induction cs with
  | nil => intro _ t h; cases h
  | cons c rest ih =>
    intro hc t ht
    have h1 := hc c (by simp)
    have hcond : ∀ t ∈ condToks names c, PTok t := by
      intro t ht
      simp only [condToks, List.mem_cons, List.mem_append, List.mem_nil_iff, or_false] at ht
      rcases ht with rfl | ht | rfl | ht | rfl
      · trivial
      · exact fmToks_PTok names c.1 hn h1.1 t ht
      · trivial
      · exact fmToks_PTok names c.2 hn h1.2 t ht
      · trivial
    cases rest with
    | nil => exact hcond t (by simpa [condsToks] using ht)
    | cons c2 r2 =>
      simp only [condsToks, List.mem_append, List.mem_cons] at ht
      rcases ht with ht | rfl | rfl | ht
      · exact hcond t ht
      · trivial
      · trivial
      · exact ih (fun d hd => hc d (by simp [hd])) t ht

/-- **C10 (belief-base files)**: the printed file is read back as the declared signature, the block's name and the
conditionals in file order, consequent before and antecedent after the bar -/
theorem C10_base_roundtrip (sig : List String) (name : String) (cs : List (Fm × Fm))
    (hsig : sig ≠ []) (hn : ∀ s ∈ sig, AtomName s) (hdup : sig.eraseDups.length = sig.length)
    (hname : ValidId name ∧ name ≠ "signature" ∧ name ≠ "conditionals")
    (hcs : ∀ c ∈ cs, (∀ n, c.1.mentions n = true → n < sig.length) ∧ (∀ n, c.2.mentions n = true → n < sig.length)) :
    parseBaseText (baseText sig name cs) =
      some ⟨sig, name, cs.map fun c => (PF.ofFm sig c.1, PF.ofFm sig c.2)⟩ := by
  let ts := baseToks sig name cs
  have hPT : ∀ t ∈ ts, PTok t := by
    intro t ht
    simp only [ts, baseToks, List.mem_cons, List.mem_append, List.mem_nil_iff, or_false] at ht
    rcases ht with rfl | rfl | ht | rfl | rfl | rfl | rfl | rfl | rfl | ht | rfl | rfl
    · trivial
    · trivial
    · exact idsToks_PTok sig hn t ht
    · trivial
    · trivial
    · trivial
    · exact hname
    · trivial
    · trivial
    · exact condsToks_PTok sig hn cs hcs t ht
    · trivial
    · trivial
  have hlex : lex (baseText sig name cs) = some ts := by
    unfold lex baseText
    rw [String.toList_ofList, String.length_ofList]
    exact lex_unlex_all ts hPT _ (Nat.lt_succ_self _)
  -- every name of the signature is an identifier token of the file
  have hin : ∀ s ∈ sig, s ∈ idNames ts := by
    intro s hs
    apply mem_idNames
    simp only [ts, baseToks, List.mem_cons, List.mem_append, reduceCtorEq, false_or]
    exact Or.inl (idsToks_mem sig s hs)
  have hNamed : ∀ c ∈ cs, NamedIn sig (idNames ts) c.1 ∧ NamedIn sig (idNames ts) c.2 := by
    intro c hc
    have h1 := hcs c hc
    have key : ∀ n, n < sig.length → sig.getD n "" ≠ "Top" ∧ sig.getD n "" ≠ "Bottom" ∧ sig.getD n "" ∈ idNames ts := by
      intro n hlt
      rw [List.getD_eq_getElem?_getD, List.getElem?_eq_getElem hlt, Option.getD_some]
      have hm := List.getElem_mem hlt
      have := hn _ hm
      exact ⟨this.2.2.2.1, this.2.2.2.2, hin _ hm⟩
    exact ⟨fun n hm => key n (h1.1 n hm), fun n hm => key n (h1.2 n hm)⟩
  have hT : sig.contains "Top" = false := by
    rw [Bool.eq_false_iff]; intro h
    have := hn "Top" (by simpa using h)
    exact this.2.2.2.1 rfl
  have hB : sig.contains "Bottom" = false := by
    rw [Bool.eq_false_iff]; intro h
    have := hn "Bottom" (by simpa using h)
    exact this.2.2.2.2 rfl
  have hids : ∃ s0 r0, idsToks sig = .id s0 :: r0 := by
    cases sig with
    | nil => exact absurd rfl hsig
    | cons a r => cases r <;> simp [idsToks]
  obtain ⟨s0, r0, hs0⟩ := hids
  unfold parseBaseText
  rw [hlex]
  simp only
  generalize hN : idNames ts = N at hNamed
  simp only [ts, baseToks, parseBaseToks, skipNL]
  -- the signature line
  have hsk : skipNL (idsToks sig ++ .newline :: .kwConditionals :: .newline :: .id name :: .lbrace :: .newline ::
      (condsToks sig cs ++ [.rbrace, .newline])) = idsToks sig ++ .newline :: .kwConditionals :: .newline :: .id name :: .lbrace :: .newline ::
      (condsToks sig cs ++ [.rbrace, .newline]) := by
    rw [hs0]; rfl
  have hl1 := idsToks_length sig
  rw [hsk, parseIds_idsToks sig hsig _ _ (by simp only [List.length_append, List.length_cons]; omega)]
  simp only
  -- the block
  have hblock : parseBlock N (.kwConditionals :: .newline :: .id name :: .lbrace :: .newline ::
      (condsToks sig cs ++ [.rbrace, .newline])) =
      some ((name, cs.map fun c => (PF.ofFm sig c.1, PF.ofFm sig c.2)), []) := by
    simp only [parseBlock, skipNL]
    cases cs with
    | nil => simp [condsToks, skipNL]
    | cons c rest =>
      have hne : (c :: rest) ≠ [] := by simp
      have hstart : ∃ r1, condsToks sig (c :: rest) = .lpar :: r1 := by
        cases rest <;> simp [condsToks, condToks]
      obtain ⟨r1, hr1⟩ := hstart
      have hl2 := condsToks_length sig (c :: rest)
      have hco := C10_conditions_order sig N (c :: rest) hne hNamed [LTok.newline]
        ((condsToks sig (c :: rest) ++ [LTok.rbrace, LTok.newline]).length + 1) (by
          simp only [List.length_append, List.length_cons, List.length_nil] at hl2 ⊢; omega)
      rw [hr1] at hco ⊢
      simp only [List.cons_append, skipNL] at hco ⊢
      rw [hco]
      rfl
  simp only [parseBlocks, hblock]
  have hT' : ¬ "Top" ∈ sig := by simpa using hT
  have hB' : ¬ "Bottom" ∈ sig := by simpa using hB
  simp [hdup, hT', hB']

/-- non-vacuity: the hypotheses hold for the birds file, and the statement then gives its content -/
example : ∃ pb, parseBaseText (baseText ["b", "p", "f"] "birds" [(.atom 2, .atom 0), (.neg (.atom 2), .atom 1)]) = some pb ∧
    pb.signature = ["b", "p", "f"] ∧ pb.name = "birds" ∧
    pb.conds = [(.var "f", .var "b"), (.neg (.var "f"), .var "p")] := by
  refine ⟨_, C10_base_roundtrip _ _ _ (by simp) ?_ (by decide) ?_ ?_, rfl, rfl, rfl⟩
  · intro s hs
    simp only [List.mem_cons, List.mem_nil_iff, or_false] at hs
    rcases hs with rfl | rfl | rfl
    · exact ⟨⟨'b', [], by decide, by decide, by simp⟩, by decide, by decide, by decide, by decide⟩
    · exact ⟨⟨'p', [], by decide, by decide, by simp⟩, by decide, by decide, by decide, by decide⟩
    · exact ⟨⟨'f', [], by decide, by decide, by simp⟩, by decide, by decide, by decide, by decide⟩
  · exact ⟨⟨'b', ['i', 'r', 'd', 's'], by decide, by decide, by decide⟩, by decide, by decide⟩
  · intro c hc
    simp only [List.mem_cons, List.mem_nil_iff, or_false] at hc
    rcases hc with rfl | rfl <;> constructor <;> intro n hn <;> simp [Fm.mentions] at hn <;> subst hn <;> decide

end InfOCF
