import InfOCFModel.Manager
/-!
# C13  Answers are independent of batching, history and parallel evaluation; tables are row-exact

`fresh weakly Ω D body q` is the answer a new manager gives to `q` asked alone.
-/
namespace InfOCF

def fresh (weakly : Bool) (Ω : List World) (D : List Cond) (body : Body) (q : Cond) : Out :=
  wrap weakly Ω D q (body q)

/-- state invariant: the cache is empty or holds exactly what a fresh computation yields -/
def Good (weakly : Bool) (Ω : List World) (D : List Cond) (s : MState) : Prop :=
  s.pre = none ∨ s.pre = some (partFor weakly Ω D)

def Ready (weakly : Bool) (Ω : List World) (D : List Cond) (s : MState) : Prop :=
  s.pre = some (partFor weakly Ω D)

theorem preprocess_ready {weakly Ω D s} (h : Good weakly Ω D s) : Ready weakly Ω D (s.preprocess weakly Ω D) := by
  unfold MState.preprocess Ready
  rcases h with h | h
  · simp [h]
  · simp [h]

theorem askOne_spec {weakly Ω D} (body : Body) {s : MState} (h : Ready weakly Ω D s) (q : Cond) :
    (askOne weakly Ω D body s q).2 = fresh weakly Ω D body q ∧ Ready weakly Ω D (askOne weakly Ω D body s q).1 := by
  unfold askOne fresh Ready at *
  simp only [h]
  exact ⟨wrapWith_fresh weakly Ω D q (body q), trivial⟩

theorem evalSeq_spec {weakly Ω D} (body : Body) : ∀ (batch : List QEntry) (s : MState), Ready weakly Ω D s →
    (evalSeq weakly Ω D body s batch).2 = batch.map (fun e => (e.key, fresh weakly Ω D body e.q)) ∧
    Ready weakly Ω D (evalSeq weakly Ω D body s batch).1 := by
  intro batch
  induction batch with
  | nil => intro s h; exact ⟨rfl, h⟩
  | cons e rest ih =>
    intro s h
    obtain ⟨h1, h2⟩ := askOne_spec body h e.q
    obtain ⟨h3, h4⟩ := ih _ h2
    simp only [evalSeq, List.map_cons]
    exact ⟨by rw [h1, h3], h4⟩

theorem evalPar_spec {weakly Ω D} (body : Body) (batch : List QEntry) (s : MState) (h : Ready weakly Ω D s) :
    (evalPar weakly Ω D body s batch).2 = batch.map (fun e => (e.key, fresh weakly Ω D body e.q)) ∧
    Ready weakly Ω D (evalPar weakly Ω D body s batch).1 := by
  refine ⟨?_, h⟩
  simp only [evalPar]
  apply List.map_congr_left
  intro e _
  rw [(askOne_spec body h e.q).1]

/-- looking a key up in the results of a batch with pairwise distinct keys finds that query's result -/
theorem dictGet_batch (f : Cond → Out) : ∀ (batch : List QEntry), (batch.map (·.key)).Nodup →
    ∀ e ∈ batch, dictGet (dictOf (batch.map fun e => (e.key, f e.q))) e.key = some (f e.q) := by
  intro batch hnd e he
  unfold dictGet dictOf
  have hmem : (e.key, f e.q) ∈ (batch.map fun e => (e.key, f e.q)).reverse := by
    simp only [List.mem_reverse, List.mem_map]; exact ⟨e, he, rfl⟩
  cases hf : ((batch.map fun e => (e.key, f e.q)).reverse).find? (·.1 == e.key) with
  | none =>
    have := List.find?_eq_none.mp hf _ hmem
    simp at this
  | some y =>
    have hy := List.mem_of_find?_eq_some hf
    have hk : y.1 = e.key := by simpa using List.find?_some hf
    simp only [List.mem_reverse, List.mem_map] at hy
    obtain ⟨e', he', rfl⟩ := hy
    simp only at hk
    -- distinct keys: e' = e
    have : e' = e := by
      clear hf hmem
      induction batch with
      | nil => simp at he
      | cons x t ih =>
        simp only [List.map_cons, List.nodup_cons, List.mem_map, not_exists, not_and] at hnd
        rcases List.mem_cons.mp he with rfl | he1
        · rcases List.mem_cons.mp he' with rfl | he2
          · rfl
          · exact absurd hk (hnd.1 e' he2)
        · rcases List.mem_cons.mp he' with rfl | he2
          · exact absurd hk.symm (hnd.1 e he1)
          · exact ih hnd.2 he1 he2
    subst this
    rfl

theorem tableOf_spec (f : Cond → Out) (batch : List QEntry) (hnd : (batch.map (·.key)).Nodup) :
    tableOf (batch.map fun e => (e.key, f e.q)) batch = batch.map fun e => ⟨e.key, e.text, f e.q⟩ := by
  unfold tableOf
  apply List.map_congr_left
  intro e he
  rw [dictGet_batch f batch hnd e he]; rfl

/-- **C13 (rows)**: a call on a manager in a good state returns exactly one row per submitted query, in
submission order, carrying that query's own key, text and the answer it gets when asked alone;
sequential and parallel evaluation alike; the state stays good -/
theorem C13_rows (weakly : Bool) (Ω : List World) (D : List Cond) (body : Body) (s : MState)
    (hs : Good weakly Ω D s) (batch : List QEntry) (hnd : (batch.map (·.key)).Nodup) (parallel : Bool) :
    (call weakly Ω D body s batch parallel).2 =
      batch.map (fun e => ⟨e.key, e.text, fresh weakly Ω D body e.q⟩) ∧
    Good weakly Ω D (call weakly Ω D body s batch parallel).1 := by
  have hr := preprocess_ready hs
  unfold call
  cases parallel
  · obtain ⟨h1, h2⟩ := evalSeq_spec body batch _ hr
    simp only [Bool.false_eq_true, ↓reduceIte]
    refine ⟨?_, Or.inr h2⟩
    rw [h1]; exact tableOf_spec _ batch hnd
  · obtain ⟨h1, h2⟩ := evalPar_spec body batch _ hr
    simp only [↓reduceIte]
    refine ⟨?_, Or.inr h2⟩
    rw [h1]; exact tableOf_spec _ batch hnd

/-- **C13 (history)**: along *every* sequence of calls on one manager (any interleaving of query sets,
repeated queries, sequential or parallel) each returned table is the row-exact table of fresh answers -/
theorem C13_history (weakly : Bool) (Ω : List World) (D : List Cond) (body : Body) :
    ∀ (calls : List (List QEntry × Bool)) (s : MState), Good weakly Ω D s →
    (∀ c ∈ calls, (c.1.map (·.key)).Nodup) →
    runCalls weakly Ω D body s calls =
      calls.map fun c => c.1.map fun e => ⟨e.key, e.text, fresh weakly Ω D body e.q⟩ := by
  intro calls
  induction calls with
  | nil => intro _ _ _; rfl
  | cons c rest ih =>
    intro s hs hnd
    obtain ⟨b, par⟩ := c
    obtain ⟨h1, h2⟩ := C13_rows weakly Ω D body s hs b (hnd (b, par) (by simp)) par
    simp only [runCalls, List.map_cons]
    rw [h1, ih _ h2 (fun c hc => hnd c (List.mem_cons_of_mem _ hc))]

/-- **C13 (batch independence)**: the row of a query inside any batch equals its row when asked alone -/
theorem C13_batch_independent (weakly : Bool) (Ω : List World) (D : List Cond) (body : Body) (s s' : MState)
    (hs : Good weakly Ω D s) (hs' : Good weakly Ω D s') (batch : List QEntry) (hnd : (batch.map (·.key)).Nodup)
    (par par' : Bool) (e : QEntry) (he : e ∈ batch) :
    (call weakly Ω D body s' [e] par').2 = [⟨e.key, e.text, fresh weakly Ω D body e.q⟩] ∧
    ⟨e.key, e.text, fresh weakly Ω D body e.q⟩ ∈ (call weakly Ω D body s batch par).2 := by
  constructor
  · rw [(C13_rows weakly Ω D body s' hs' [e] (by simp) par').1]; rfl
  · rw [(C13_rows weakly Ω D body s hs batch hnd par).1]
    exact List.mem_map.mpr ⟨e, he, rfl⟩

/-- **C13 (parallel = sequential)** -/
theorem C13_parallel (weakly : Bool) (Ω : List World) (D : List Cond) (body : Body) (s : MState)
    (hs : Good weakly Ω D s) (batch : List QEntry) (hnd : (batch.map (·.key)).Nodup) :
    (call weakly Ω D body s batch true).2 = (call weakly Ω D body s batch false).2 := by
  rw [(C13_rows weakly Ω D body s hs batch hnd true).1, (C13_rows weakly Ω D body s hs batch hnd false).1]

/-- the plumbing before the repair (results keyed by query text) gives the wrong key to a row whenever
two queries of a batch share their text: concrete witness -/
theorem C13_text_keyed_wrong :
    let batch : List QEntry := [⟨1, "(f|p)", ⟨.atom 2, .atom 1, 1⟩⟩, ⟨2, "(w|p)", ⟨.atom 3, .atom 1, 2⟩⟩, ⟨3, "(f|p)", ⟨.atom 2, .atom 1, 3⟩⟩]
    let results : List (String × (Nat × Out)) := batch.map fun e => (e.text, (e.key, Out.val false))
    (tableOfText results batch).map (·.key) = [3, 2, 3] := by
  decide

/-! non-vacuity: the initial state is good; a two-call history with a repeated query on the penguin base -/
example (weakly Ω D) : Good weakly Ω D MState.init := Or.inl rfl
example :
    runCalls false (allWorlds 3) [⟨.atom 2, .atom 0, 1⟩, ⟨.neg (.atom 2), .atom 1, 2⟩, ⟨.atom 0, .atom 1, 3⟩]
      (fun q fin Ωf => bodyZ false fin Ωf q) MState.init
      [([⟨7, "(f|p)", ⟨.atom 2, .atom 1, 7⟩⟩, ⟨0, "(b|p)", ⟨.atom 0, .atom 1, 0⟩⟩], false),
       ([⟨4, "(b|p)", ⟨.atom 0, .atom 1, 4⟩⟩], true)] =
    [[⟨7, "(f|p)", .val false⟩, ⟨0, "(b|p)", .val true⟩], [⟨4, "(b|p)", .val true⟩]] := by decide

end InfOCF
