import InfOCFModel.Props.Common
/-!
# C01  p-entailment answers equal the definition on every consistent base (strict mode)
-/
namespace InfOCF

/-- "`cs` admits a tolerance partition" -/
def HasTolPart (Ω : List World) (cs : List Cond) : Prop :=
  ∃ P, IsTolPart Ω P ∧ ∀ c, c ∈ P.flatten ↔ c ∈ cs

/-- the greedy test is exact: it fails iff no ordered tolerance partition exists at all -/
theorem tolPart_none_iff (Ω : List World) (cs : List Cond) (fuel : Nat) (hf : cs.length ≤ fuel) :
    tolPart Ω fuel cs = none ↔ ¬ HasTolPart Ω cs := by
  constructor
  · intro h ⟨P, hP, hmem⟩
    obtain ⟨S, hsub, hS⟩ := tolPart_none_stuck Ω fuel cs hf h
    exact stuck_no_part Ω S hS P hP (fun c hc => (hmem c).mpr (hsub c hc))
  · intro h
    cases hp : tolPart Ω fuel cs with
    | none => rfl
    | some P =>
      obtain ⟨h1, h2⟩ := tolPart_sound Ω fuel cs P hp
      exact absurd ⟨P, h1, h2⟩ h

/-- **C01 (partition form)**: p-entailment answers True exactly when the query is short-cut or
`D ∪ {(¬B|A)}` admits no tolerance partition. -/
theorem C01_partition (Ω : List World) (D : List Cond) (q : Cond) (P : List (List Cond))
    (hD : D ≠ []) (hP : partS Ω D = some P) :
    ∃ b, ansP false Ω D q = .val b ∧
      (b = true ↔ (trivialQ Ω q = true ∨ ¬ HasTolPart Ω (negq q :: D))) := by
  have hPF : partFor false Ω D = some P := by simpa [partFor] using hP
  rw [ansP, wrap_some hD hPF]
  split
  · rename_i ht; exact ⟨true, rfl, by simp [ht]⟩
  · rename_i ht
    refine ⟨_, rfl, ?_⟩
    simp only [bodyP, Bool.false_eq_true, ↓reduceIte, Option.isNone_iff_eq_none]
    rw [tolPart_none_iff Ω (negq q :: D) (D.length + 1) (by simp)]
    simp [ht]

/-- short-cut queries are answered True -/
theorem C01_trivial (Ω : List World) (D : List Cond) (q : Cond) (P : List (List Cond))
    (hD : D ≠ []) (hP : partS Ω D = some P) (ht : trivialQ Ω q = true) :
    ansP false Ω D q = .val true := by
  have hPF : partFor false Ω D = some P := by simpa [partFor] using hP
  rw [ansP, wrap_some hD hPF]; simp [ht]

/-- **C01 (ranking-model form)**: for a query with satisfiable antecedent, p-entailment answers
True exactly when every ranking model of `D` accepts the query. -/
theorem C01_models (Ω : List World) (D : List Cond) (q : Cond) (P : List (List Cond))
    (hD : D ≠ []) (hP : partS Ω D = some P) (hA : ∃ w ∈ Ω, q.ante.eval w = true) :
    ansP false Ω D q = .val true ↔ ∀ κ : World → Nat, Models Ω κ D → Accepts Ω κ q := by
  obtain ⟨b, hb, hiff⟩ := C01_partition Ω D q P hD hP
  rw [hb]
  constructor
  · intro h κ hκ
    have hbt : b = true := by simpa using h
    rcases hiff.mp hbt with ht | hno
    · -- A satisfiable, A∧¬B not: any A-world verifies, nothing falsifies
      obtain ⟨w, hw, ha⟩ := hA
      have hnf := trivialQ_no_fal ht
      refine ⟨w, hw, ?_, fun w' hw' hf' => by rw [hnf w' hw'] at hf'; cases hf'⟩
      have := hnf w hw
      simp only [Cond.fal, Cond.ver] at this ⊢
      cases hc : q.cons.eval w <;> simp_all
    · have hnone := (tolPart_none_iff Ω (negq q :: D) (D.length + 1) (by simp)).mpr hno
      obtain ⟨S, hsub, hS⟩ := tolPart_none_stuck Ω (D.length + 1) (negq q :: D) (by simp) hnone
      exact stuck_models_accept Ω D q S hS (fun c hc => by simpa using hsub c hc) hA κ hκ
  · intro h
    congr 1
    apply hiff.mpr
    apply Classical.byContradiction
    intro hn
    have hn' : ¬ trivialQ Ω q = true ∧ HasTolPart Ω (negq q :: D) := by
      constructor
      · intro ht; exact hn (Or.inl ht)
      · apply Classical.byContradiction; intro hh; exact hn (Or.inr hh)
    obtain ⟨P', hP', hmem⟩ := hn'.2
    have := part_gives_countermodel Ω D q P' hP' (fun c => by simpa using hmem c)
    exact this.2 (h _ this.1)

/-- atoms outside the signature: evaluation only looks at the atoms that occur, so adding
unused atoms (longer worlds) changes no verification/falsification behaviour -/
theorem C01_eval_ext (f : Fm) (w ext : World) (h : ∀ i, f.mentions i = true → i < w.length) :
    f.eval (w ++ ext) = f.eval w := by
  induction f with
  | top => rfl
  | bot => rfl
  | atom i =>
    have := h i (by simp [Fm.mentions])
    simp [Fm.eval, List.getD, List.getElem?_append_left this]
  | neg a ih => simp only [Fm.eval]; rw [ih (fun i hi => h i (by simp [Fm.mentions, hi]))]
  | and a b iha ihb =>
    simp only [Fm.eval]
    rw [iha (fun i hi => h i (by simp [Fm.mentions, hi])), ihb (fun i hi => h i (by simp [Fm.mentions, hi]))]
  | or a b iha ihb =>
    simp only [Fm.eval]
    rw [iha (fun i hi => h i (by simp [Fm.mentions, hi])), ihb (fun i hi => h i (by simp [Fm.mentions, hi]))]

theorem C01_refuse (Ω : List World) (D : List Cond) (q : Cond) :
    (D = [] → ansP false Ω D q = .refuseEmpty) ∧
    (D ≠ [] → partS Ω D = none → ansP false Ω D q = .refuseIncons) := by
  constructor
  · rintro rfl; rfl
  · intro hD hP
    rw [ansP, wrap_none hD (by simpa [partFor] using hP)]

/-! non-vacuity: penguin base, a p-entailed and a non-entailed query, and a model -/
section Example
def exP_D : List Cond := [⟨.atom 2, .atom 0, 1⟩, ⟨.neg (.atom 2), .atom 1, 2⟩, ⟨.atom 0, .atom 1, 3⟩]
example : (partS (allWorlds 3) exP_D).isSome = true := by decide
example : ansP false (allWorlds 3) exP_D ⟨.neg (.atom 2), .and (.atom 1) (.atom 0), 0⟩ = .val true := by decide
example : ansP false (allWorlds 3) exP_D ⟨.atom 1, .atom 0, 0⟩ = .val false := by decide
example : ∃ w ∈ allWorlds 3, (Fm.and (.atom 1) (.atom 0)).eval w = true := by decide
end Example

end InfOCF
