import InfOCFModel.Props.C07
/-!
# C12  Answers depend only on meaning, not on presentation

`VFEq c c'`: the two conditionals have the same verification and falsification sets (their keys and
their formulas may differ). Two bases related position-wise by `VFEq` (re-keyed conditionals, any
antecedent/consequent replaced by an equivalent formula) and two `VFEq` queries get the same
partition shape and the same answers from every operator model, in both modes.
-/
namespace InfOCF

def VFEq (c c' : Cond) : Prop := ∀ w, c'.ver w = c.ver w ∧ c'.fal w = c.fal w

inductive Rel2 {α β : Type} (R : α → β → Prop) : List α → List β → Prop
  | nil : Rel2 R [] []
  | cons {a b l l'} : R a b → Rel2 R l l' → Rel2 R (a :: l) (b :: l')

theorem Rel2.length_eq {α β} {R : α → β → Prop} {l : List α} {l' : List β} (h : Rel2 R l l') : l.length = l'.length := by
  induction h with
  | nil => rfl
  | cons _ _ ih => simp [ih]

theorem Rel2.append {α β} {R : α → β → Prop} {l1 l2 : List α} {m1 m2 : List β}
    (h1 : Rel2 R l1 m1) (h2 : Rel2 R l2 m2) : Rel2 R (l1 ++ l2) (m1 ++ m2) := by
  induction h1 with
  | nil => exact h2
  | cons hab _ ih => exact Rel2.cons hab ih

theorem Rel2.reverse {α β} {R : α → β → Prop} {l : List α} {m : List β} (h : Rel2 R l m) : Rel2 R l.reverse m.reverse := by
  induction h with
  | nil => exact Rel2.nil
  | cons hab _ ih => simp only [List.reverse_cons]; exact Rel2.append ih (Rel2.cons hab Rel2.nil)

theorem Rel2.filter {α β} {R : α → β → Prop} {l : List α} {m : List β} (p : α → Bool) (p' : β → Bool)
    (hp : ∀ a b, R a b → p a = p' b) (h : Rel2 R l m) : Rel2 R (l.filter p) (m.filter p') := by
  induction h with
  | nil => exact Rel2.nil
  | cons hab _ ih =>
    simp only [List.filter_cons, hp _ _ hab]
    split
    · exact Rel2.cons hab ih
    · exact ih

theorem Rel2.dropLast {α β} {R : α → β → Prop} {l : List α} {m : List β} (h : Rel2 R l m) : Rel2 R l.dropLast m.dropLast := by
  induction h with
  | nil => exact Rel2.nil
  | cons hab hl ih =>
    cases hl with
    | nil => exact Rel2.nil
    | cons hab' hl' => simp only [List.dropLast_cons₂]; exact Rel2.cons hab ih

theorem Rel2.getLastD {α β} {R : α → β → Prop} {l : List α} {m : List β} (h : Rel2 R l m) {a : α} {b : β} (hab : R a b) :
    R (l.getLastD a) (m.getLastD b) := by
  induction h generalizing a b with
  | nil => exact hab
  | cons hab' _ ih =>
    rw [List.getLastD_cons, List.getLastD_cons]
    exact ih hab'

abbrev BaseEq := Rel2 VFEq
abbrev PartEq := Rel2 (Rel2 VFEq)

theorem nofal_congr {cs cs' : List Cond} (h : BaseEq cs cs') (w : World) : nofal cs' w = nofal cs w := by
  induction h with
  | nil => rfl
  | cons hab _ ih => simp only [nofal, List.all_cons] at ih ⊢; rw [(hab w).2, ih]

theorem anyfal_congr {cs cs' : List Cond} (h : BaseEq cs cs') (w : World) :
    cs'.any (·.fal w) = cs.any (·.fal w) := by
  induction h with
  | nil => rfl
  | cons hab _ ih => simp only [List.any_cons]; rw [(hab w).2, ih]

theorem tolerated_congr (Ω : List World) {cs cs' : List Cond} (h : BaseEq cs cs') {c c' : Cond} (hc : VFEq c c') :
    tolerated Ω cs' c' = tolerated Ω cs c := by
  simp only [tolerated]
  congr 1; funext w
  rw [(hc w).1, nofal_congr h w]

theorem tolPart_congr (Ω : List World) : ∀ (fuel : Nat) {cs cs' : List Cond}, BaseEq cs cs' →
    (tolPart Ω fuel cs = none ∧ tolPart Ω fuel cs' = none) ∨
    ∃ P P', tolPart Ω fuel cs = some P ∧ tolPart Ω fuel cs' = some P' ∧ PartEq P P' := by
  intro fuel
  induction fuel with
  | zero =>
    intro cs cs' h
    cases h with
    | nil => exact Or.inr ⟨[], [], rfl, rfl, Rel2.nil⟩
    | cons _ _ => exact Or.inl ⟨rfl, rfl⟩
  | succ n ih =>
    intro cs cs' h
    cases h with
    | nil => exact Or.inr ⟨[], [], rfl, rfl, Rel2.nil⟩
    | @cons a b l l' hab hl =>
      have hfull : BaseEq (a :: l) (b :: l') := Rel2.cons hab hl
      have hR : BaseEq ((a :: l).filter (tolerated Ω (a :: l))) ((b :: l').filter (tolerated Ω (b :: l'))) :=
        Rel2.filter _ _ (fun x y hxy => (tolerated_congr Ω hfull hxy).symm) hfull
      have hC : BaseEq ((a :: l).filter fun c => !(tolerated Ω (a :: l) c)) ((b :: l').filter fun c => !(tolerated Ω (b :: l') c)) :=
        Rel2.filter _ _ (fun x y hxy => by rw [tolerated_congr Ω hfull hxy]) hfull
      simp only [tolPart]
      have hemp : ((a :: l).filter (tolerated Ω (a :: l))).isEmpty = ((b :: l').filter (tolerated Ω (b :: l'))).isEmpty := by
        have := hR.length_eq
        cases h1 : (a :: l).filter (tolerated Ω (a :: l)) <;> cases h2 : (b :: l').filter (tolerated Ω (b :: l')) <;>
          simp_all
      rw [← hemp]
      split
      · exact Or.inl ⟨rfl, rfl⟩
      · rcases ih hC with ⟨h1, h2⟩ | ⟨P, P', h1, h2, hP⟩
        · left; simp [h1, h2]
        · right
          exact ⟨_ :: P, _ :: P', by simp [h1], by simp [h2], Rel2.cons hR hP⟩

theorem tolPartExt_congr (Ω : List World) : ∀ (fuel : Nat) {cs cs' : List Cond}, BaseEq cs cs' →
    (tolPartExt Ω fuel cs = none ∧ tolPartExt Ω fuel cs' = none) ∨
    ∃ P P', tolPartExt Ω fuel cs = some P ∧ tolPartExt Ω fuel cs' = some P' ∧ PartEq P P' := by
  intro fuel
  induction fuel with
  | zero =>
    intro cs cs' h
    cases h with
    | nil => exact Or.inr ⟨[[]], [[]], rfl, rfl, Rel2.cons Rel2.nil Rel2.nil⟩
    | cons _ _ => exact Or.inl ⟨rfl, rfl⟩
  | succ n ih =>
    intro cs cs' h
    cases h with
    | nil => exact Or.inr ⟨[[]], [[]], rfl, rfl, Rel2.cons Rel2.nil Rel2.nil⟩
    | @cons a b l l' hab hl =>
      have hfull : BaseEq (a :: l) (b :: l') := Rel2.cons hab hl
      have hR : BaseEq ((a :: l).filter (tolerated Ω (a :: l))) ((b :: l').filter (tolerated Ω (b :: l'))) :=
        Rel2.filter _ _ (fun x y hxy => (tolerated_congr Ω hfull hxy).symm) hfull
      have hC : BaseEq ((a :: l).filter fun c => !(tolerated Ω (a :: l) c)) ((b :: l').filter fun c => !(tolerated Ω (b :: l') c)) :=
        Rel2.filter _ _ (fun x y hxy => by rw [tolerated_congr Ω hfull hxy]) hfull
      simp only [tolPartExt]
      have hemp : ((a :: l).filter (tolerated Ω (a :: l))).isEmpty = ((b :: l').filter (tolerated Ω (b :: l'))).isEmpty := by
        have := hR.length_eq
        cases h1 : (a :: l).filter (tolerated Ω (a :: l)) <;> cases h2 : (b :: l').filter (tolerated Ω (b :: l')) <;>
          simp_all
      have hany : Ω.any (nofal (b :: l')) = Ω.any (nofal (a :: l)) := by
        congr 1; funext w; exact nofal_congr hfull w
      rw [← hemp, hany]
      split
      · split
        · exact Or.inr ⟨_, _, rfl, rfl, Rel2.cons hfull Rel2.nil⟩
        · exact Or.inl ⟨rfl, rfl⟩
      · rcases ih hC with ⟨h1, h2⟩ | ⟨P, P', h1, h2, hP⟩
        · left; simp [h1, h2]
        · right
          exact ⟨_ :: P, _ :: P', by simp [h1], by simp [h2], Rel2.cons hR hP⟩

/-- **partitions have the same shape**: re-keying / rewriting formulas changes nothing but the labels -/
theorem C12_key_formula_invariance_part (weakly : Bool) (Ω : List World) {D D' : List Cond} (h : BaseEq D D') :
    (partFor weakly Ω D = none ∧ partFor weakly Ω D' = none) ∨
    ∃ P P', partFor weakly Ω D = some P ∧ partFor weakly Ω D' = some P' ∧ PartEq P P' := by
  have hl := h.length_eq
  cases weakly
  · simp only [partFor, Bool.false_eq_true, ↓reduceIte, partS]
    rw [← hl]; exact tolPart_congr Ω D.length h
  · simp only [partFor, ↓reduceIte, partE]
    rw [← hl]; exact tolPartExt_congr Ω (D.length + 1) h

/-! ### the three comparisons only look at falsification behaviour -/

theorem zrk_congr {P P' : List (List Cond)} (h : PartEq P P') (w : World) : zrk P' w = zrk P w := by
  induction h with
  | nil => rfl
  | cons hL _ ih => simp only [zrk]; rw [ih, anyfal_congr hL w]

theorem fset_eq_iff (L : List Cond) (w w' : World) :
    fset L w = fset L w' ↔ ∀ c ∈ L, c.fal w = c.fal w' := by
  constructor
  · intro h c hc
    have hm : c ∈ fset L w ↔ c ∈ fset L w' := by rw [h]
    simp only [fset, List.mem_filter, hc, true_and] at hm
    cases h1 : c.fal w <;> cases h2 : c.fal w' <;> simp_all
  · intro h
    unfold fset
    apply List.filter_congr
    intro c hc; exact h c hc

theorem subset_fset_iff (L : List Cond) (w w' : World) :
    subsetL (fset L w) (fset L w') = true ↔ ∀ c ∈ L, c.fal w = true → c.fal w' = true := by
  rw [subsetL_iff]
  simp only [fset, List.mem_filter]
  constructor
  · intro h c hc hf; exact (h c ⟨hc, hf⟩).2
  · intro h c ⟨hc, hf⟩; exact ⟨hc, h c hc hf⟩

theorem Rel2_forall_fal {L L' : List Cond} (h : BaseEq L L') (φ : Bool → Bool → Prop) (w w' : World) :
    (∀ c ∈ L', φ (c.fal w) (c.fal w')) ↔ (∀ c ∈ L, φ (c.fal w) (c.fal w')) := by
  induction h with
  | nil => simp
  | cons hab _ ih =>
    simp only [List.mem_cons, forall_eq_or_imp]
    rw [ih, (hab w).2, (hab w').2]

theorem wless_congr {T T' : List (List Cond)} (h : PartEq T T') (w w' : World) : wless T' w w' = wless T w w' := by
  induction h with
  | nil => rfl
  | @cons L L' r r' hL _ ih =>
    simp only [wless]
    have h1 : (fset L' w = fset L' w') ↔ (fset L w = fset L w') := by
      rw [fset_eq_iff, fset_eq_iff]
      exact Rel2_forall_fal hL (fun x y => x = y) w w'
    have h2 : subsetL (fset L' w) (fset L' w') = subsetL (fset L w) (fset L w') := by
      rw [Bool.eq_iff_iff, subset_fset_iff, subset_fset_iff]
      exact Rel2_forall_fal hL (fun x y => x = true → y = true) w w'
    by_cases hq : fset L w = fset L w'
    · rw [if_pos hq, if_pos (h1.mpr hq), ih]
    · rw [if_neg hq, if_neg (fun hh => hq (h1.mp hh)), h2]

theorem cnt_congr {L L' : List Cond} (h : BaseEq L L') (w : World) : cnt L' w = cnt L w := by
  induction h with
  | nil => rfl
  | cons hab _ ih =>
    simp only [cnt, fset, List.filter_cons] at ih ⊢
    rw [(hab w).2]
    split <;> simp [ih]

theorem lexVec_congr {T T' : List (List Cond)} (h : PartEq T T') (w : World) : lexVec T' w = lexVec T w := by
  induction h with
  | nil => rfl
  | cons hL _ ih => simp only [lexVec, List.map_cons] at ih ⊢; rw [cnt_congr hL w, ih]

/-! ### queries -/

theorem filter_ver_congr {q q' : Cond} (hq : VFEq q q') (Ω : List World) : Ω.filter q'.ver = Ω.filter q.ver := by
  congr 1; funext w; exact (hq w).1
theorem filter_fal_congr {q q' : Cond} (hq : VFEq q q') (Ω : List World) : Ω.filter q'.fal = Ω.filter q.fal := by
  congr 1; funext w; exact (hq w).2

theorem ante_of_vf (q : Cond) (w : World) : q.ante.eval w = (q.ver w || q.fal w) := by
  simp only [Cond.ver, Cond.fal]; cases q.ante.eval w <;> cases q.cons.eval w <;> rfl

theorem trivialQ_congr {q q' : Cond} (hq : VFEq q q') (Ω : List World) : trivialQ Ω q' = trivialQ Ω q := by
  simp only [trivialQ]
  have h1 : (Ω.any fun w => q'.ante.eval w) = (Ω.any fun w => q.ante.eval w) := by
    congr 1; funext w; rw [ante_of_vf, ante_of_vf, (hq w).1, (hq w).2]
  have h2 : Ω.any q'.fal = Ω.any q.fal := by congr 1; funext w; exact (hq w).2
  rw [h1, h2]

/-- equivalent queries get the same answers on the same base (specialisation used by all operators) -/
theorem C12_query_equiv {q q' : Cond} (hq : VFEq q q') (Ω : List World) (lt : World → World → Bool) :
    prefEnt Ω lt q' = prefEnt Ω lt q := by
  simp only [prefEnt, filter_ver_congr hq, filter_fal_congr hq]

theorem feasible_congr {inf inf' : List Cond} (h : BaseEq inf inf') (Ω : List World) : feasible Ω inf' = feasible Ω inf := by
  simp only [feasible]; congr 1; funext w; exact nofal_congr h w

theorem finLayers_congr (weakly : Bool) {P P' : List (List Cond)} (h : PartEq P P') :
    PartEq (finLayers weakly P) (finLayers weakly P') := by
  cases weakly
  · simpa [finLayers] using h
  · simpa [finLayers] using h.dropLast

theorem infLayer_congr (weakly : Bool) {P P' : List (List Cond)} (h : PartEq P P') :
    BaseEq (infLayer weakly P) (infLayer weakly P') := by
  cases weakly
  · exact Rel2.nil
  · simp only [infLayer, ↓reduceIte]; exact h.getLastD Rel2.nil

theorem BaseEq_ne_nil {D D' : List Cond} (h : BaseEq D D') (hD : D ≠ []) : D' ≠ [] := by
  cases h with
  | nil => exact absurd rfl hD
  | cons _ _ => simp

/-- generic transfer: an operator whose body is a function of (finite layers, feasible worlds, query)
that respects `PartEq`/`VFEq` gives equal answers on `BaseEq` bases -/
theorem wrap_congr (weakly : Bool) (Ω : List World) {D D' : List Cond} (h : BaseEq D D') {q q' : Cond} (hq : VFEq q q')
    (body body' : List (List Cond) → List World → Bool)
    (hb : ∀ fin fin' Ωf, PartEq fin fin' → body' fin' Ωf = body fin Ωf) :
    wrap weakly Ω D' q' body' = wrap weakly Ω D q body := by
  cases D with
  | nil => cases h; rfl
  | cons a t =>
    have hD : (a :: t) ≠ [] := by simp
    have hD' := BaseEq_ne_nil h hD
    rcases C12_key_formula_invariance_part weakly Ω h with ⟨h1, h2⟩ | ⟨P, P', h1, h2, hP⟩
    · rw [wrap_none hD h1, wrap_none hD' h2]
    · rw [wrap_some hD h1, wrap_some hD' h2, trivialQ_congr hq]
      split
      · rfl
      · rw [feasible_congr (infLayer_congr weakly hP), hb _ _ _ (finLayers_congr weakly hP)]

/-- **System Z** -/
theorem C12_key_formula_invariance_Z (weakly : Bool) (Ω : List World) {D D' : List Cond} (h : BaseEq D D')
    {q q' : Cond} (hq : VFEq q q') : ansZ weakly Ω D' q' = ansZ weakly Ω D q := by
  unfold ansZ
  apply wrap_congr weakly Ω h hq
  intro fin fin' Ωf hfin
  cases weakly
  · -- strict: bodyZ false = algZ; go through the spec on both sides is not available for arbitrary Ωf, so use the ext lemma shape
    simp only [bodyZ, Bool.false_and, Bool.false_eq_true, ↓reduceIte]
    cases hfin with
    | nil => rfl
    | @cons L L' r r' hL hr =>
      have hne : (L :: r) ≠ [] := by simp
      have hne' : (L' :: r') ≠ [] := by simp
      by_cases hf : ∃ w' ∈ Ωf, q.fal w' = true
      · have hf' : ∃ w' ∈ Ωf, q'.fal w' = true := by
          obtain ⟨w', hw', h'⟩ := hf; exact ⟨w', hw', by rw [(hq w').2]; exact h'⟩
        rw [algZ_eq_specZ Ωf (L :: r) hne q hf, algZ_eq_specZ Ωf (L' :: r') hne' q' hf']
        simp only [specZ]
        rw [C12_query_equiv hq]
        congr 1; funext w w'
        rw [zrk_congr (Rel2.cons hL hr) w, zrk_congr (Rel2.cons hL hr) w']
      · -- no falsifying world: both recursions see `f = false` at the top layer
        have hnf : ∀ w ∈ Ωf, q.fal w = false := by
          intro w hw; cases hfw : q.fal w with
          | false => rfl
          | true => exact absurd ⟨w, hw, hfw⟩ hf
        have e1 : ∀ (Lr : List (List Cond)) (H : List World), (∀ w ∈ H, q.fal w = false) → Lr ≠ [] →
            algZ Lr H q = (match Lr with | [] => false | L0 :: _ => (H.filter (nofal L0)).any q.ver) := by
          intro Lr H hH hLr
          cases Lr with
          | nil => exact absurd rfl hLr
          | cons L0 rest =>
            simp only [algZ]
            have : (H.filter (nofal L0)).any q.fal = false := by
              simp only [List.any_eq_false, List.mem_filter]; intro w hw; simp [hH w hw.1]
            rw [this]
            cases (H.filter (nofal L0)).any q.ver <;> simp
        have hnf' : ∀ w ∈ Ωf, q'.fal w = false := by intro w hw; rw [(hq w).2]; exact hnf w hw
        have e2 : ∀ (Lr : List (List Cond)) (H : List World), (∀ w ∈ H, q'.fal w = false) → Lr ≠ [] →
            algZ Lr H q' = (match Lr with | [] => false | L0 :: _ => (H.filter (nofal L0)).any q'.ver) := by
          intro Lr H hH hLr
          cases Lr with
          | nil => exact absurd rfl hLr
          | cons L0 rest =>
            simp only [algZ]
            have : (H.filter (nofal L0)).any q'.fal = false := by
              simp only [List.any_eq_false, List.mem_filter]; intro w hw; simp [hH w hw.1]
            rw [this]
            cases (H.filter (nofal L0)).any q'.ver <;> simp
        have hrev := (Rel2.cons hL hr : PartEq (L :: r) (L' :: r')).reverse
        rw [e1 _ _ hnf (by simp), e2 _ _ hnf' (by simp)]
        generalize (L :: r).reverse = A at hrev
        generalize (L' :: r').reverse = B at hrev
        cases hrev with
        | nil => rfl
        | @cons L0 L0' _ _ hL0 _ =>
          simp only
          have e : Ωf.filter (nofal L0') = Ωf.filter (nofal L0) := by
            congr 1; funext w; exact nofal_congr hL0 w
          have e2 : q'.ver = q.ver := funext fun w => (hq w).1
          rw [e, e2]
  · rw [bodyZ_ext_eq, bodyZ_ext_eq]
    simp only [specZ]
    rw [C12_query_equiv hq]
    congr 1; funext w w'
    rw [zrk_congr hfin w, zrk_congr hfin w']

theorem bodyW_strict_eq (fin : List (List Cond)) (Ωf : List World) (q : Cond) (hne : fin ≠ []) :
    bodyW false fin Ωf q = specW' fin Ωf q := by
  simp only [bodyW, Bool.false_and, Bool.false_eq_true, ↓reduceIte]
  cases fin with
  | nil => exact absurd rfl hne
  | cons L rest =>
    simp only [specW']
    rw [algWCode_eq_algW _ _ _ (by simp), algW_eq_specW]

/-- **System W** (both back-ends, both modes) -/
theorem C12_key_formula_invariance_W (weakly : Bool) (Ω : List World) {D D' : List Cond} (h : BaseEq D D')
    {q q' : Cond} (hq : VFEq q q') : ansW weakly Ω D' q' = ansW weakly Ω D q := by
  unfold ansW
  apply wrap_congr weakly Ω h hq
  intro fin fin' Ωf hfin
  have key : specW' fin' Ωf q' = specW' fin Ωf q := by
    simp only [specW', specW, filter_ver_congr hq, filter_fal_congr hq]
    congr 1; funext w'; congr 1; funext w
    exact wless_congr hfin.reverse w w'
  cases weakly
  · cases hfin with
    | nil => rfl
    | @cons L L' r r' hL hr =>
      rw [bodyW_strict_eq _ _ _ (by simp), bodyW_strict_eq _ _ _ (by simp)]
      exact key
  · rw [bodyW_ext_eq, bodyW_ext_eq]; exact key

theorem negq_VFEq {q q' : Cond} (hq : VFEq q q') : VFEq (negq q) (negq q') := by
  intro w; simp only [negq_ver, negq_fal]; exact ⟨(hq w).2, (hq w).1⟩

theorem BaseEq_refl_nil : BaseEq [] [] := Rel2.nil

/-- **p-entailment** (both modes) -/
theorem C12_key_formula_invariance_P (weakly : Bool) (Ω : List World) {D D' : List Cond} (h : BaseEq D D')
    {q q' : Cond} (hq : VFEq q q') : ansP weakly Ω D' q' = ansP weakly Ω D q := by
  unfold ansP
  have hb : bodyP weakly Ω D' q' = bodyP weakly Ω D q := by
    cases weakly
    · simp only [bodyP, Bool.false_eq_true, ↓reduceIte]
      have := tolPart_congr Ω (D.length + 1) (Rel2.cons (negq_VFEq hq) h)
      rw [← h.length_eq]
      rcases this with ⟨h1, h2⟩ | ⟨P, P', h1, h2, _⟩
      · rw [h1, h2]
      · rw [h1, h2]; rfl
    · simp only [bodyP, ↓reduceIte, algPExt]
      have := tolPartExt_congr Ω (D.length + 2) (Rel2.append h (Rel2.cons (negq_VFEq hq) Rel2.nil))
      rw [← h.length_eq]
      rcases this with ⟨h1, h2⟩ | ⟨P, P', h1, h2, hP⟩
      · rw [h1, h2]
      · rw [h1, h2]
        simp only
        have hl : BaseEq (P.getLastD []) (P'.getLastD []) := hP.getLastD Rel2.nil
        congr 2; funext w
        rw [nofal_congr hl w, ante_of_vf q', ante_of_vf q, (hq w).1, (hq w).2]
  apply wrap_congr weakly Ω h hq
  intro _ _ _ _
  exact hb

/-- **lexicographic inference** (both back-ends, both modes) -/
theorem C12_key_formula_invariance_Lex (weakly : Bool) (Ω : List World) {D D' : List Cond} (h : BaseEq D D')
    {q q' : Cond} (hq : VFEq q q') : ansLex weakly Ω D' q' = ansLex weakly Ω D q := by
  unfold ansLex
  apply wrap_congr weakly Ω h hq
  intro fin fin' Ωf hfin
  rw [bodyLex_eq, bodyLex_eq]
  simp only [specLex', specLex, filter_ver_congr hq, filter_fal_congr hq]
  congr 1; funext w'; congr 1; funext w
  rw [lexVec_congr hfin.reverse w, lexVec_congr hfin.reverse w']

end InfOCF
