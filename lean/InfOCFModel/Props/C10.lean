import InfOCFModel.Lexer
/-!
# C10  The parser yields exactly the documented meaning, or rejects

Token level. `D lvl ts f` is the documented reading: level 0 = atoms, constants, negation,
parentheses; level 1 = conjunctions (`,`); level 2 = disjunctions (`;`) — i.e. `!` binds tighter
than `,`, which binds tighter than `;`, parentheses override. `parseFm` is the model of what the
generated parser + visitor compute for the `formula` rule followed by end of input.
-/
namespace InfOCF

/-- **accepted ⇒ documented meaning, documented ⇒ accepted, and the reading is unique** -/
theorem C10_parse_iff (ts : List Tok) (f : Fm) : parseFm ts = some f ↔ D 2 ts f := parseFm_iff ts f

/-- **text that is not entirely well formed is rejected** (and only such text) -/
theorem C10_reject_iff (ts : List Tok) : parseFm ts = none ↔ ¬ ∃ f, D 2 ts f := by
  constructor
  · intro h ⟨f, hf⟩
    rw [parseFm_complete ts f hf] at h; cases h
  · intro h
    cases hp : parseFm ts with
    | none => rfl
    | some f => exact absurd ⟨f, parseFm_sound ts f hp⟩ h

theorem D_mono : ∀ {lvl ts f}, D 0 ts f → lvl ≤ 2 → D lvl ts f := by
  intro lvl ts f h hl
  match lvl, hl with
  | 0, _ => exact h
  | 1, _ => exact D.up1 h
  | 2, _ => exact D.up2 (D.up1 h)

theorem pp_derives : ∀ (f : Fm) (lvl : Nat), lvl ≤ 2 → D lvl (pp lvl f) f := by
  intro f
  induction f with
  | top => intro lvl hl; exact D_mono D.top hl
  | bot => intro lvl hl; exact D_mono D.bot hl
  | atom n => intro lvl hl; exact D_mono (D.atom n) hl
  | neg a ih => intro lvl hl; exact D_mono (D.neg (ih 0 (by omega))) hl
  | and a b iha ihb =>
    intro lvl hl
    have hconj : D 1 (pp 1 a ++ .comma :: pp 0 b) (.and a b) := D.conj (iha 1 (by omega)) (ihb 0 (by omega))
    simp only [pp]
    split
    · rename_i h0; subst h0
      exact D.paren (D.up2 hconj)
    · match lvl, hl with
      | 0, _ => omega
      | 1, _ => exact hconj
      | 2, _ => exact D.up2 hconj
  | or a b iha ihb =>
    intro lvl hl
    have hdisj : D 2 (pp 2 a ++ .semi :: pp 1 b) (.or a b) := D.disj (iha 2 (by omega)) (ihb 1 (by omega))
    simp only [pp]
    split
    · rename_i h1
      exact D_mono (D.paren hdisj) hl
    · have : lvl = 2 := by omega
      subst this; exact hdisj

/-- **print–parse round trip**: every formula has a text (minimal parentheses) that parses back to it -/
theorem C10_print_parse (f : Fm) : parseFm (pp 2 f) = some f :=
  parseFm_complete _ f (pp_derives f 2 (Nat.le_refl _))

/-- the connectives mean what the documentation says: `,` is conjunction, `;` disjunction, `!` negation -/
theorem C10_eval_and_or (a b : Fm) (w : World) :
    (∀ f, parseFm (pp 1 a ++ .comma :: pp 0 b) = some f → f.eval w = (a.eval w && b.eval w)) ∧
    (∀ f, parseFm (pp 2 a ++ .semi :: pp 1 b) = some f → f.eval w = (a.eval w || b.eval w)) ∧
    (∀ f, parseFm (.not :: pp 0 a) = some f → f.eval w = !(a.eval w)) := by
  refine ⟨?_, ?_, ?_⟩
  · intro f hf
    have h1 : D 2 (pp 1 a ++ .comma :: pp 0 b) (.and a b) :=
      D.up2 (D.conj (pp_derives a 1 (by omega)) (pp_derives b 0 (by omega)))
    rw [D_unique _ f _ (parseFm_sound _ f hf) h1]; rfl
  · intro f hf
    have h1 : D 2 (pp 2 a ++ .semi :: pp 1 b) (.or a b) :=
      D.disj (pp_derives a 2 (by omega)) (pp_derives b 1 (by omega))
    rw [D_unique _ f _ (parseFm_sound _ f hf) h1]; rfl
  · intro f hf
    have h1 : D 2 (.not :: pp 0 a) (.neg a) := D.up2 (D.up1 (D.neg (pp_derives a 0 (by omega))))
    rw [D_unique _ f _ (parseFm_sound _ f hf) h1]; rfl

/-- precedence on canonical instances (evaluated by the kernel) -/
theorem C10_precedence :
    parseFm [.not, .id 0, .comma, .id 1] = some (.and (.neg (.atom 0)) (.atom 1)) ∧
    parseFm [.id 0, .comma, .id 1, .semi, .id 2] = some (.or (.and (.atom 0) (.atom 1)) (.atom 2)) ∧
    parseFm [.id 0, .semi, .id 1, .comma, .id 2] = some (.or (.atom 0) (.and (.atom 1) (.atom 2))) ∧
    parseFm [.id 0, .comma, .lpar, .id 1, .semi, .id 2, .rpar] = some (.and (.atom 0) (.or (.atom 1) (.atom 2))) ∧
    parseFm [.id 0, .comma, .id 1, .comma, .id 2] = some (.and (.and (.atom 0) (.atom 1)) (.atom 2)) ∧
    parseFm [.id 0, .id 1] = none ∧ parseFm [.id 0, .comma, .id 1, .rpar] = none ∧ parseFm [.id 0, .comma] = none := by
  decide

/-! the text level on examples (lexer + file grammar), evaluated by the kernel -/
example : parseFormulaText "a , b ; !c,d" =
    some (.or (.and (.var "a") (.var "b")) (.and (.neg (.var "c")) (.var "d"))) := by decide
example : parseFormulaText "a b" = none := by decide
example : parseFormulaText "!(a;Top), /* x */ b // c" = some (.and (.neg (.or (.var "a") .top)) (.var "b")) := by decide
example : (parseBaseText "signature\n a,b\n\nconditionals\nkb{\n(a|b)\n}\n garbage").isNone = true := by decide

end InfOCF
