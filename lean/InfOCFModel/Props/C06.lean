import InfOCFModel.Props.C01
import InfOCFModel.Diag
/-!
# C06  Consistency verdicts and tolerance partitions are exact
-/
namespace InfOCF

/-- **inconsistency is reported exactly when no tolerance partition exists** (strict mode) -/
theorem C06_none_iff (Ω : List World) (D : List Cond) :
    partS Ω D = none ↔ ¬ HasTolPart Ω D :=
  tolPart_none_iff Ω D D.length (Nat.le_refl _)

/-- **the strict result is the greedy maximal partition**: each layer consists of *all* remaining
conditionals tolerated by the remaining ones, nothing is left over -/
theorem C06_greedy (Ω : List World) (D : List Cond) (P : List (List Cond)) :
    partS Ω D = some P ↔ GreedyRun Ω D P [] :=
  tolPart_iff_run Ω D.length D P (Nat.le_refl _)

/-- membership in a layer, in the property's words -/
theorem C06_layer_spec (Ω : List World) (cs : List Cond) (c : Cond) :
    c ∈ cs.filter (tolerated Ω cs) ↔ c ∈ cs ∧ Tol Ω cs c := by
  simp [List.mem_filter, tolerated_iff]

/-- **uniqueness** -/
theorem C06_unique (Ω : List World) (D : List Cond) (P P' : List (List Cond))
    (h : GreedyRun Ω D P []) (h' : GreedyRun Ω D P' []) : P = P' :=
  (GreedyRun_det Ω P P' D [] [] h h' (NoneTol_nil Ω) (NoneTol_nil Ω)).1

/-- **extended mode**: the result is the greedy layers followed by the layer of never-tolerated
conditionals, accepted iff that layer is empty or some world falsifies none of its members -/
theorem C06_ext (Ω : List World) (D : List Cond) (P : List (List Cond)) :
    partE Ω D = some P ↔
      ∃ fin rem, P = fin ++ [rem] ∧ GreedyRun Ω D fin rem ∧ NoneTol Ω rem ∧
        (rem = [] ∨ ∃ w ∈ Ω, nofal rem w = true) :=
  tolPartExt_iff_run Ω (D.length + 1) D P (Nat.le_succ _)

/-- **extended rejection**: the base is rejected exactly when the never-tolerated remainder is
non-empty and every world falsifies one of its members -/
theorem C06_ext_reject (Ω : List World) (D : List Cond) :
    partE Ω D = none ↔
      ∃ fin rem, GreedyRun Ω D fin rem ∧ NoneTol Ω rem ∧ rem ≠ [] ∧
        ∀ w ∈ Ω, ∃ c ∈ rem, c.fal w = true := by
  obtain ⟨fin, rem, hrun, hn⟩ := GreedyRun_exists Ω D.length D (Nat.le_refl _)
  constructor
  · intro h
    refine ⟨fin, rem, hrun, hn, ?_, ?_⟩
    · intro hr
      have := (C06_ext Ω D (fin ++ [rem])).mpr ⟨fin, rem, rfl, hrun, hn, Or.inl hr⟩
      rw [h] at this; cases this
    · intro w hw
      apply Classical.byContradiction
      intro hno
      have hnf : nofal rem w = true := by
        simp only [nofal, List.all_eq_true, Bool.not_eq_true']
        intro c hc
        cases hcf : c.fal w with
        | false => rfl
        | true => exact absurd ⟨c, hc, hcf⟩ hno
      have := (C06_ext Ω D (fin ++ [rem])).mpr ⟨fin, rem, rfl, hrun, hn, Or.inr ⟨w, hw, hnf⟩⟩
      rw [h] at this; cases this
  · rintro ⟨fin', rem', hrun', hn', hne, hall⟩
    cases hp : partE Ω D with
    | none => rfl
    | some P =>
      obtain ⟨fin'', rem'', _, hrun'', hn'', hw⟩ := (C06_ext Ω D P).mp hp
      obtain ⟨_, hrem⟩ := GreedyRun_det Ω fin' fin'' D rem' rem'' hrun' hrun'' hn' hn''
      subst hrem
      rcases hw with h | ⟨w, hw, hnf⟩
      · exact absurd h hne
      · obtain ⟨c, hc, hcf⟩ := hall w hw
        simp only [nofal, List.all_eq_true, Bool.not_eq_true'] at hnf
        rw [hnf c hc] at hcf; cases hcf

/-- on strongly consistent bases the extended partition is the strict one plus an empty last layer -/
theorem C06_ext_strict (Ω : List World) (D : List Cond) (P : List (List Cond)) :
    partS Ω D = some P ↔ partE Ω D = some (P ++ [[]]) := by
  rw [C06_greedy, C06_ext]
  constructor
  · intro h; exact ⟨P, [], rfl, h, NoneTol_nil Ω, Or.inl rfl⟩
  · rintro ⟨fin, rem, heq, hrun, _, _⟩
    obtain ⟨h1, h2⟩ := List.append_inj' heq rfl
    simp only [List.cons.injEq, and_true] at h2
    subst h1; subst h2
    exact hrun

/-- the diagnostics' short cut: "consistent" read off the extended run (last layer empty) is the
strict verdict -/
theorem C06_last_empty_iff (Ω : List World) (D : List Cond) (P : List (List Cond))
    (hP : partE Ω D = some P) : (lastSize P == 0) = (partS Ω D).isSome := by
  obtain ⟨fin, rem, rfl, hrun, hn, hw⟩ := (C06_ext Ω D P).mp hP
  have hl : lastSize (fin ++ [rem]) = rem.length := by simp [lastSize]
  rw [hl]
  cases hs : partS Ω D with
  | none =>
    simp only [Option.isSome_none, beq_eq_false_iff_ne, ne_eq]
    intro h0
    have : rem = [] := List.eq_nil_of_length_eq_zero h0
    subst this
    rw [(C06_greedy Ω D fin).mpr hrun] at hs; cases hs
  | some P' =>
    have h' := (C06_ext_strict Ω D P').mp hs
    rw [hP] at h'
    simp only [Option.some.injEq] at h'
    obtain ⟨_, h2⟩ := List.append_inj' h' rfl
    simp only [List.cons.injEq, and_true] at h2
    subst h2; rfl

/-- an extended-inconsistent base is not strictly consistent either -/
theorem C06_partE_none_partS (Ω : List World) (D : List Cond) (h : partE Ω D = none) : partS Ω D = none := by
  cases hs : partS Ω D with
  | none => rfl
  | some P => rw [(C06_ext_strict Ω D P).mp hs] at h; cases h

/-- **every diagnostics flag equals its definition** -/
theorem C06_diag (ext usesFacts : Bool) (Ω : List World) (D : List Cond) (facts : List Fm) :
    diagCode ext usesFacts Ω D facts = diagSpec ext usesFacts Ω D facts := by
  cases ext
  · simp [diagCode, diagSpec]
  · simp only [diagCode, diagSpec, ↓reduceIte, Bool.and_true]
    cases hp : partE Ω D with
    | none => simp [C06_partE_none_partS Ω D hp]
    | some P => simp [C06_last_empty_iff Ω D P hp]

/-- the conditionals `(⊥|¬φ)` added for facts always land in the infinity layer -/
theorem C06_facts_in_infinity (Ω : List World) (D : List Cond) (facts : List Fm) (P : List (List Cond))
    (hP : partE Ω (augment D facts) = some P) :
    ∀ c ∈ augment D facts, c.cons = .bot → c ∈ P.getLastD [] := by
  intro c hc hbot
  obtain ⟨fin, rem, rfl, hrun, _, _⟩ := (C06_ext Ω _ P).mp hP
  have : c ∈ rem := GreedyRun_unverifiable Ω fin _ rem hrun c hc (by intro w _; simp [Cond.ver, hbot, Fm.eval])
  simpa using this

/-- refusal of every operator model: empty base, or no partition for the selected mode -/
theorem C06_refusal (weakly : Bool) (Ω : List World) (D : List Cond) (q : Cond)
    (body : List (List Cond) → List World → Bool) :
    (D = [] → wrap weakly Ω D q body = .refuseEmpty) ∧
    (D ≠ [] → partFor weakly Ω D = none → wrap weakly Ω D q body = .refuseIncons) ∧
    (D ≠ [] → (partFor weakly Ω D).isSome → ∃ b, wrap weakly Ω D q body = .val b) := by
  refine ⟨by rintro rfl; rfl, fun hD hP => wrap_none hD hP, ?_⟩
  intro hD hP
  obtain ⟨P, hP⟩ := Option.isSome_iff_exists.mp hP
  rw [wrap_some hD hP]
  split <;> exact ⟨_, rfl⟩

/-! non-vacuity -/
section Example
-- weakly-only base: (b|a), (⊥|¬a ∧ b)…  here: penguin base plus an unverifiable conditional
def exC06 : List Cond := [⟨.atom 1, .atom 0, 1⟩, ⟨.bot, .and (.atom 0) (.neg (.atom 1)), 2⟩]
example : partS (allWorlds 2) exC06 = none := by decide
example : ∃ P, partE (allWorlds 2) exC06 = some P ∧ lastSize P = 1 := by decide
example : partE (allWorlds 1) [⟨.bot, .top, 1⟩] = none := by decide
end Example

end InfOCF
