import InfOCFModel.Props.C17
/-!
# The Pareto-front enumeration loop (`solve_pareto_front`) is exact for every Pareto oracle

`solve_pareto_front` asks z3's Pareto optimizer for a model, records its objective vector `m`, adds the blocking clause
"some objective is strictly smaller than in `m`" (which excludes exactly the vectors `≥ m`), and repeats until the
optimizer reports unsat. The optimizer is a parameter: any oracle that, given the recorded vectors, returns *some*
feasible vector that is not above a recorded one and is Pareto-minimal among those, or `none` iff no such vector exists.
The order of the answers, and whether the enumeration ends, are **not** assumed. `C17_front_loop_exact`: whenever the
loop ends (within any fuel), it has returned exactly the Pareto-minimal feasible vectors, each once. The same loop serves
c-inference (`c_inference_pareto_front`) and c-revision (`c_revision_pareto_front`).
-/
namespace InfOCF

theorem leVec_refl : ∀ (a : List Nat), leVec a a = true := by
  intro a; induction a with
  | nil => rfl
  | cons x t ih => simp [leVec, ih]

theorem leVec_antisymm : ∀ (a b : List Nat), leVec a b = true → leVec b a = true → a = b := by
  intro a
  induction a with
  | nil => intro b h _; cases b with
    | nil => rfl
    | cons _ _ => simp [leVec] at h
  | cons x t ih =>
    intro b h1 h2
    cases b with
    | nil => simp [leVec] at h1
    | cons y s =>
      simp only [leVec, Bool.and_eq_true, decide_eq_true_eq] at h1 h2
      rw [ih s h1.2 h2.2, Nat.le_antisymm h1.1 h2.1]

/-- not above any recorded vector (the conjunction of the blocking clauses) -/
def unblocked (B : List (List Nat)) (v : List Nat) : Bool := B.all fun b => !(leVec b v)

/-- the optimizer's contract -/
structure ParetoOracle (Feas : List Nat → Prop) where
  pick : List (List Nat) → Option (List Nat)
  sound : ∀ B v, pick B = some v → Feas v ∧ unblocked B v = true
  minimal : ∀ B v, pick B = some v → ∀ u, Feas u → unblocked B u = true → leVec u v = true → u = v
  complete : ∀ B, pick B = none → ∀ u, Feas u → unblocked B u = false

/-- the loop: `none` when the fuel runs out before the optimizer reports unsat -/
def paretoLoop {Feas : List Nat → Prop} (o : ParetoOracle Feas) : Nat → List (List Nat) → Option (List (List Nat))
  | fuel, B =>
    match o.pick B with
    | none => some B
    | some v =>
      match fuel with
      | 0 => none
      | fuel + 1 => paretoLoop o fuel (v :: B)

/-- Pareto-minimal among all feasible vectors -/
def ParetoMin (Feas : List Nat → Prop) (v : List Nat) : Prop :=
  Feas v ∧ ∀ u, Feas u → leVec u v = true → u = v

/-- invariant: everything recorded is Pareto-minimal, and no recorded vector is above another one -/
def FrontInv (Feas : List Nat → Prop) (B : List (List Nat)) : Prop :=
  (∀ v ∈ B, ParetoMin Feas v) ∧ B.Nodup

theorem unblocked_of_below {B : List (List Nat)} {u v : List Nat} (hv : unblocked B v = true) (huv : leVec u v = true) :
    unblocked B u = true := by
  simp only [unblocked, List.all_eq_true, Bool.not_eq_true'] at hv ⊢
  intro b hb
  cases hbu : leVec b u with
  | false => rfl
  | true =>
    have h1 := hv b hb
    rw [leVec_trans b u v hbu huv] at h1
    cases h1

theorem frontInv_step {Feas : List Nat → Prop} (o : ParetoOracle Feas) (B : List (List Nat)) (v : List Nat)
    (hinv : FrontInv Feas B) (hp : o.pick B = some v) : FrontInv Feas (v :: B) := by
  obtain ⟨hfeas, hunb⟩ := o.sound B v hp
  refine ⟨?_, ?_⟩
  · intro x hx
    rcases List.mem_cons.mp hx with rfl | hx
    · refine ⟨hfeas, ?_⟩
      intro u hu huv
      exact o.minimal B _ hp u hu (unblocked_of_below hunb huv) huv
    · exact hinv.1 x hx
  · rw [List.nodup_cons]
    refine ⟨?_, hinv.2⟩
    intro hmem
    simp only [unblocked, List.all_eq_true, Bool.not_eq_true'] at hunb
    have := hunb v hmem
    rw [leVec_refl] at this; cases this

theorem paretoLoop_inv {Feas : List Nat → Prop} (o : ParetoOracle Feas) : ∀ (fuel : Nat) (B R : List (List Nat)),
    FrontInv Feas B → paretoLoop o fuel B = some R →
    FrontInv Feas R ∧ o.pick R = none := by
  intro fuel
  induction fuel with
  | zero =>
    intro B R hinv h
    unfold paretoLoop at h
    cases hp : o.pick B with
    | none => rw [hp] at h; simp only [Option.some.injEq] at h; subst h; exact ⟨hinv, hp⟩
    | some v => rw [hp] at h; simp at h
  | succ n ih =>
    intro B R hinv h
    unfold paretoLoop at h
    cases hp : o.pick B with
    | none => rw [hp] at h; simp only [Option.some.injEq] at h; subst h; exact ⟨hinv, hp⟩
    | some v =>
      rw [hp] at h
      exact ih (v :: B) R (frontInv_step o B v hinv hp) h

/-- **C17 / C19 (front enumeration)**: for every Pareto oracle, whenever the loop ends its result is exactly the set of
Pareto-minimal feasible vectors, without repetition -/
theorem C17_front_loop_exact {Feas : List Nat → Prop} (o : ParetoOracle Feas) (fuel : Nat) (R : List (List Nat))
    (h : paretoLoop o fuel [] = some R) :
    (∀ v, v ∈ R ↔ ParetoMin Feas v) ∧ R.Nodup := by
  obtain ⟨⟨hmin, hnd⟩, hnone⟩ := paretoLoop_inv o fuel [] R ⟨by simp, List.nodup_nil⟩ h
  refine ⟨fun v => ⟨hmin v, ?_⟩, hnd⟩
  intro hv
  -- v is feasible, so the final "unsat" means some recorded vector lies below it; minimality makes them equal
  have hb := o.complete R hnone v hv.1
  simp only [unblocked, List.all_eq_false, Bool.not_eq_true'] at hb
  obtain ⟨b, hbR, hle⟩ := hb
  have : b = v := hv.2 b (hmin b hbR).1 (by simpa using hle)
  exact this ▸ hbR


theorem nodup_sub_length {α : Type} [DecidableEq α] : ∀ {a b : List α}, a.Nodup → (∀ x ∈ a, x ∈ b) → a.length ≤ b.length := by
  intro a
  induction a with
  | nil => intro b _ _; simp
  | cons x t ih =>
    intro b ha h
    have hx : x ∈ b := h x (by simp)
    obtain ⟨hxt, ht⟩ := List.nodup_cons.mp ha
    have hsub : ∀ y ∈ t, y ∈ b.erase x := by
      intro y hy
      have hne : y ≠ x := by intro e; subst e; exact hxt hy
      exact (List.mem_erase_of_ne hne).mpr (h y (by simp [hy]))
    have := ih ht hsub
    rw [List.length_erase_of_mem hx] at this
    have hpos : 0 < b.length := List.length_pos_of_mem hx
    simp only [List.length_cons]; omega

/-- **termination**: if the Pareto-minimal feasible vectors all lie in a finite list `F` (e.g. a cube), the loop ends within
`F.length` answers of the optimizer — each answer is a new Pareto-minimal vector -/
theorem paretoLoop_terminates {Feas : List Nat → Prop} (o : ParetoOracle Feas) (F : List (List Nat))
    (hF : ∀ v, ParetoMin Feas v → v ∈ F) : ∀ (fuel : Nat) (B : List (List Nat)), FrontInv Feas B →
    F.length ≤ B.length + fuel → ∃ R, paretoLoop o fuel B = some R := by
  intro fuel
  induction fuel with
  | zero =>
    intro B hinv hlen
    unfold paretoLoop
    cases hp : o.pick B with
    | none => exact ⟨B, rfl⟩
    | some v =>
      have hinv' := frontInv_step o B v hinv hp
      have := nodup_sub_length hinv'.2 (fun x hx => hF x (hinv'.1 x hx))
      simp only [List.length_cons] at this
      omega
  | succ n ih =>
    intro B hinv hlen
    unfold paretoLoop
    cases hp : o.pick B with
    | none => exact ⟨B, rfl⟩
    | some v =>
      have hinv' := frontInv_step o B v hinv hp
      exact ih (v :: B) hinv' (by simp only [List.length_cons]; omega)

/-- total correctness under the finiteness hypothesis -/
theorem C17_front_loop_total {Feas : List Nat → Prop} (o : ParetoOracle Feas) (F : List (List Nat))
    (hF : ∀ v, ParetoMin Feas v → v ∈ F) :
    ∃ R, paretoLoop o F.length [] = some R ∧ (∀ v, v ∈ R ↔ ParetoMin Feas v) ∧ R.Nodup := by
  obtain ⟨R, hR⟩ := paretoLoop_terminates o F hF F.length [] ⟨by simp, List.nodup_nil⟩ (by simp)
  exact ⟨R, hR, C17_front_loop_exact o F.length R hR⟩

/-- why the clause must exclude the whole cone above `m`: a weaker clause that only says "differs from `m`" leaves the
dominated vectors allowed (here `[2]` after `[1]`), and the contract's minimality would then be relative to a set that still
contains them only by luck of the optimizer. (The code before the repair had no blocking clause at all and returned the
same optimum for ever.) -/
theorem C17_blocking_by_inequality_wrong :
    ∃ (m v : List Nat), v ≠ m ∧ leVec m v = true ∧ unblocked [m] v = false := ⟨[1], [2], by decide, by decide, by decide⟩

/-- non-vacuity: an oracle over the feasible set `{[1,2],[2,1],[2,2]}` exists, the loop ends and returns the two minimal vectors -/
def exFeas (v : List Nat) : Prop := v = [1, 2] ∨ v = [2, 1] ∨ v = [2, 2]

def exPick (B : List (List Nat)) : Option (List Nat) :=
  if unblocked B [1, 2] then some [1, 2] else if unblocked B [2, 1] then some [2, 1] else none

theorem unblocked_22_of (B : List (List Nat)) (h : unblocked B [2, 2] = true) : unblocked B [1, 2] = true :=
  unblocked_of_below h (by decide)

def exOracle : ParetoOracle exFeas where
  pick := exPick
  sound := by
    intro B v h
    unfold exPick at h
    split at h
    · simp only [Option.some.injEq] at h; subst h; exact ⟨Or.inl rfl, by assumption⟩
    · split at h
      · simp only [Option.some.injEq] at h; subst h; exact ⟨Or.inr (Or.inl rfl), by assumption⟩
      · cases h
  minimal := by
    intro B v h u hu _ hle
    unfold exPick at h
    split at h
    · simp only [Option.some.injEq] at h; subst h
      rcases hu with rfl | rfl | rfl
      · rfl
      · exact absurd hle (by decide)
      · exact absurd hle (by decide)
    · split at h
      · simp only [Option.some.injEq] at h; subst h
        rcases hu with rfl | rfl | rfl
        · exact absurd hle (by decide)
        · rfl
        · exact absurd hle (by decide)
      · cases h
  complete := by
    intro B h u hu
    unfold exPick at h
    split at h
    · cases h
    · rename_i h1
      split at h
      · cases h
      · rename_i h2
        rcases hu with rfl | rfl | rfl
        · simpa using h1
        · simpa using h2
        · cases hb : unblocked B [2, 2] with
          | false => rfl
          | true => exact absurd (unblocked_22_of B hb) h1

example : paretoLoop exOracle 5 [] = some [[2, 1], [1, 2]] := by decide

end InfOCF
