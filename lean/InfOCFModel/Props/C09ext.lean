import InfOCFModel.Props.C09pc
/-!
# C09: direct inference in extended mode
Every conditional of a weakly consistent base is inferred by p-entailment, System Z, System W and
lexicographic inference with `weakly = true`.
-/
namespace InfOCF

theorem C09_direct_ext (Ω : List World) (D : List Cond) (P : List (List Cond)) (hD : D ≠ [])
    (hP : partE Ω D = some P) (c : Cond) (hc : c ∈ D) :
    ansP true Ω D c = .val true ∧ ansZ true Ω D c = .val true ∧ ansW true Ω D c = .val true ∧
    ansLex true Ω D c = .val true := by
  obtain ⟨fin, inf, rfl, hrun, hinf, _⟩ := (C06_ext Ω D P).mp hP
  have hlast : (fin ++ [inf]).getLastD [] = inf := by simp
  have hdrop : (fin ++ [inf]).dropLast = fin := by simp
  have hfinTP := GreedyRun_isTolPart Ω fin D inf hrun
  have hmem := GreedyRun_mem Ω fin D inf hrun
  -- System Z
  have hz : ansZ true Ω D c = .val true := by
    rw [C07_Z Ω D c _ hD hP, hlast, hdrop]
    congr 1
    rcases (hmem c).mp hc with hfin | hinfc
    · obtain ⟨w, hw, hv, hlt⟩ := zrk_models (feasible Ω inf) fin hfinTP c hfin
      simp only [specZ, prefEnt, List.all_eq_true, List.any_eq_true, List.mem_filter, decide_eq_true_eq]
      rintro w' ⟨hw', hf'⟩
      exact ⟨w, ⟨hw, hv⟩, hlt w' hw' hf'⟩
    · -- a member of the infinity layer is falsified by no feasible world
      have hno : ∀ w ∈ feasible Ω inf, c.fal w = false := by
        intro w hw
        have hnf : nofal inf w = true := (List.mem_filter.mp hw).2
        simp only [nofal, List.all_eq_true, Bool.not_eq_true'] at hnf
        exact hnf c hinfc
      simp [specZ, prefEnt, filter_fal_nil hno]
  have hw := C08_Z_le_W true Ω D c hz
  refine ⟨?_, hz, hw, C08_W_le_Lex true Ω D c hw⟩
  -- p-entailment
  obtain ⟨b, hspec, hans⟩ := C07_P_ans Ω D c fin inf hD hP
  rw [hans]
  congr 1
  by_cases ht : trivialQ Ω c = true
  · simp [ht]
  · have hPE' : tolPartExt Ω (D.length + 1) D = some (fin ++ [inf]) := hP
    simp only [specPExt, hPE', hlast, hdrop] at hspec
    have hΩf : Ω.filter (nofal inf) = feasible Ω inf := rfl
    rw [hΩf] at hspec
    suffices hb : b = true by simp [hb]
    by_cases ha : (feasible Ω inf).any (fun w => c.ante.eval w) = true
    · by_cases hf : (feasible Ω inf).any c.fal = true
      · -- then c is in a finite layer (members of the infinity layer have no feasible falsifying world)
        have hfin : c ∈ fin.flatten := by
          rcases (hmem c).mp hc with h | h
          · exact h
          · obtain ⟨w, hw, hfw⟩ := List.any_eq_true.mp hf
            have hnf : nofal inf w = true := (List.mem_filter.mp hw).2
            simp only [nofal, List.all_eq_true, Bool.not_eq_true'] at hnf
            rw [hnf c h] at hfw; cases hfw
        obtain ⟨wv, hwv, hvv, _⟩ := zrk_models (feasible Ω inf) fin hfinTP c hfin
        have hv : (feasible Ω inf).any c.ver = true := List.any_eq_true.mpr ⟨wv, hwv, hvv⟩
        simp only [ha, hf, hv, Bool.not_true, Bool.false_eq_true, ↓reduceIte, Option.some.injEq] at hspec
        rw [← hspec]
        -- a partition of fin ∪ {(¬B|A)} would give a model of fin rejecting c ∈ fin
        cases hp : tolPart (feasible Ω inf) (D.length + 2) (fin.flatten ++ [negq c]) with
        | none => rfl
        | some P2 =>
          obtain ⟨hTP2, hmem2⟩ := tolPart_sound (feasible Ω inf) _ _ P2 hp
          have := part_gives_countermodel (feasible Ω inf) fin.flatten c P2 hTP2
            (fun d => by rw [hmem2 d]; simp [List.mem_append, Or.comm])
          exact absurd (this.1 c hfin) this.2
      · have hff : (feasible Ω inf).any c.fal = false := by simpa using hf
        simp only [ha, hff, Bool.not_true, Bool.false_eq_true, ↓reduceIte, Bool.not_false, Option.some.injEq] at hspec
        exact hspec.symm
    · have haf : (feasible Ω inf).any (fun w => c.ante.eval w) = false := by simpa using ha
      simp only [haf, Bool.not_false, ↓reduceIte, Option.some.injEq] at hspec
      exact hspec.symm

end InfOCF
