import InfOCFModel.Props.C07P
import InfOCFModel.Props.C08
/-!
# C08 in extended mode: p ≤ Z
(needs the characterisation of extended p-entailment, `C07_P`)
-/
namespace InfOCF

/-- **p ≤ Z, extended mode** -/
theorem C08_P_le_Z_ext (Ω : List World) (D : List Cond) (q : Cond)
    (h : ansP true Ω D q = .val true) : ansZ true Ω D q = .val true := by
  obtain ⟨hD, P, hP⟩ := ans_val_cases h
  have hPE : partE Ω D = some P := by simpa [partFor] using hP
  obtain ⟨fin, inf, rfl, hrun, hinf, _⟩ := (C06_ext Ω D P).mp hPE
  rw [C07_Z Ω D q _ hD hPE]
  have hlast : (fin ++ [inf]).getLastD [] = inf := by simp
  have hdrop : (fin ++ [inf]).dropLast = fin := by simp
  rw [hlast, hdrop]
  congr 1
  obtain ⟨b, hspec, hans⟩ := C07_P_ans Ω D q fin inf hD hPE
  rw [hans] at h
  have hb : (trivialQ Ω q || b) = true := by simpa using h
  -- no feasible falsifying world ⇒ System Z answers True
  have htriv : (∀ w ∈ feasible Ω inf, q.fal w = false) → specZ (feasible Ω inf) fin q = true := by
    intro hno
    simp [specZ, prefEnt, filter_fal_nil hno]
  by_cases ht : trivialQ Ω q = true
  · exact htriv (fun w hw => trivialQ_no_fal ht w (feasible_sub hw))
  · have hbt : b = true := by
      cases hbb : b with
      | true => rfl
      | false => rw [hbb] at hb; simp [ht] at hb
    subst hbt
    -- unfold the case distinction of the spec
    have hPE' : tolPartExt Ω (D.length + 1) D = some (fin ++ [inf]) := hPE
    simp only [specPExt, hPE', hlast, hdrop] at hspec
    have hΩf : Ω.filter (nofal inf) = feasible Ω inf := rfl
    rw [hΩf] at hspec
    by_cases ha : (feasible Ω inf).any (fun w => q.ante.eval w) = true
    · by_cases hf : (feasible Ω inf).any q.fal = true
      · by_cases hv : (feasible Ω inf).any q.ver = true
        · simp only [ha, hf, hv, Bool.not_true, Bool.false_eq_true, ↓reduceIte, Option.some.injEq,
            Option.isNone_iff_eq_none] at hspec
          -- no tolerance partition of fin ∪ {(¬B|A)} over the feasible worlds: every ranking model accepts q
          have hfinTP := GreedyRun_isTolPart Ω fin D inf hrun
          have hlen : (fin.flatten ++ [negq q]).length ≤ D.length + 2 := by
            have := GreedyRun_length Ω fin D inf hrun
            simp only [List.length_append, List.length_cons, List.length_nil]; omega
          obtain ⟨S, hsub, hS⟩ := tolPart_none_stuck (feasible Ω inf) (D.length + 2) _ hlen hspec
          have hA : ∃ w ∈ feasible Ω inf, q.ante.eval w = true := by simpa [List.any_eq_true] using ha
          have hacc := stuck_models_accept (feasible Ω inf) fin.flatten q S hS
            (fun c hc => by
              rcases List.mem_append.mp (hsub c hc) with h1 | h1
              · exact Or.inr h1
              · simp only [List.mem_singleton] at h1; exact Or.inl h1)
            hA (zrk fin) (zrk_models (feasible Ω inf) fin hfinTP)
          obtain ⟨w, hw, hver, hlt⟩ := hacc
          simp only [specZ, prefEnt, List.all_eq_true, List.any_eq_true, List.mem_filter, decide_eq_true_eq]
          rintro w' ⟨hw', hf'⟩
          exact ⟨w, ⟨hw, hver⟩, hlt w' hw' hf'⟩
        · have hvf : (feasible Ω inf).any q.ver = false := by simpa using hv
          simp [ha, hf, hvf] at hspec
      · have hff : (feasible Ω inf).any q.fal = false := by simpa using hf
        apply htriv
        simp only [List.any_eq_false] at hff
        intro w hw; simpa using hff w hw
    · have haf : (feasible Ω inf).any (fun w => q.ante.eval w) = false := by simpa using ha
      apply htriv
      simp only [List.any_eq_false] at haf
      intro w hw
      have := haf w hw
      simp only [Cond.fal]
      cases hq : q.ante.eval w <;> simp_all

end InfOCF
