import InfOCFModel.Props.C18
import InfOCFModel.Props.C07
/-!
# C16  The System Z ranking object equals the Z-ranking and models the base
-/
namespace InfOCF

theorem recZ_snoc (A : List (List Cond)) (L : List Cond) (w : World) :
    recZ (A ++ [L]) w = if recZ A w ≠ 0 then recZ A w + 1 else if L.any (·.fal w) then 1 else 0 := by
  induction A with
  | nil => simp [recZ]
  | cons M A' ih =>
    simp only [List.cons_append, recZ, List.length_append, List.length_cons, List.length_nil]
    split
    · simp
    · exact ih

/-- **C16 (rank)**: the rank computed by the descending-layer recursion is the Z-rank of C02 -/
theorem C16_rank (P : List (List Cond)) (w : World) : zObjRank P w = zrk P w := by
  unfold zObjRank
  induction P with
  | nil => rfl
  | cons L rest ih =>
    rw [List.reverse_cons, recZ_snoc, ih]
    simp only [zrk]

/-- **C16 (extended)**: with the infinity layer stored last, exactly the infeasible worlds get the top
rank `|fin| + 1`, one above all finite ranks; feasible worlds get their Z-rank over the finite layers -/
theorem C16_rank_ext (fin : List (List Cond)) (inf : List Cond) (w : World) :
    zObjRank (fin ++ [inf]) w = if nofal inf w then zrk fin w else fin.length + 1 := by
  rw [C16_rank]
  by_cases h : nofal inf w = true
  · rw [if_pos h, zrk_snoc_nofal fin inf w ((nofal_iff inf w).mp h)]
  · rw [if_neg h]
    have : inf.any (·.fal w) = true := by
      cases ha : inf.any (·.fal w) with
      | true => rfl
      | false => exact absurd ((nofal_iff inf w).mpr ha) h
    exact zrk_snoc_fal fin inf w this

theorem C16_finite_le (fin : List (List Cond)) (w : World) : zrk fin w ≤ fin.length := zrk_le_length fin w

/-! ### lazy cache -/

inductive ZOp where
  | lazyRank (w : World)
  | forceRank (w : World)
  | all
deriving Repr

/-- one operation of the ranking object: new cache and the values it returns -/
def zOpStep (Ω : List World) (P : List (List Cond)) (cache : List (World × Nat)) : ZOp → List (World × Nat) × List Nat
  | .lazyRank w =>
    match cache.find? (·.1 == w) with
    | some p => (cache, [p.2])
    | none => let r := zObjRank P w; ((w, r) :: cache, [r])
  | .forceRank w => let r := zObjRank P w; ((w, r) :: cache.filter (·.1 != w), [r])
  | .all =>
    let vals := Ω.map fun w => match cache.find? (·.1 == w) with
      | some p => p.2
      | none => zObjRank P w
    ((Ω.zip vals) ++ cache, vals)

def zRun (Ω : List World) (P : List (List Cond)) : List (World × Nat) → List ZOp → List (List Nat)
  | _, [] => []
  | cache, op :: ops => let r := zOpStep Ω P cache op; r.2 :: zRun Ω P r.1 ops

def CacheOk (P : List (List Cond)) (cache : List (World × Nat)) : Prop := ∀ p ∈ cache, p.2 = zObjRank P p.1

/-- what each request must return -/
def expectedVals (Ω : List World) (P : List (List Cond)) : ZOp → List Nat
  | .lazyRank w => [zObjRank P w]
  | .forceRank w => [zObjRank P w]
  | .all => Ω.map (zObjRank P)

theorem mem_zip_self {α} : ∀ (l : List α) (a b : α), (a, b) ∈ l.zip l → a = b := by
  intro l
  induction l with
  | nil => intro a b h; simp at h
  | cons x t ih =>
    intro a b h
    simp only [List.zip_cons_cons, List.mem_cons, Prod.mk.injEq] at h
    rcases h with ⟨rfl, rfl⟩ | h'
    · rfl
    · exact ih a b h'

theorem zOpStep_ok (Ω : List World) (P : List (List Cond)) (cache : List (World × Nat)) (op : ZOp) (h : CacheOk P cache) :
    CacheOk P (zOpStep Ω P cache op).1 ∧ (zOpStep Ω P cache op).2 = expectedVals Ω P op := by
  cases op with
  | lazyRank w =>
    simp only [zOpStep, expectedVals]
    cases hf : cache.find? (·.1 == w) with
    | some p =>
      have hmem := List.mem_of_find?_eq_some hf
      have hkey : p.1 = w := by simpa using List.find?_some hf
      exact ⟨h, by simp [h p hmem, hkey]⟩
    | none =>
      refine ⟨?_, by simp⟩
      intro p hp
      rcases List.mem_cons.mp hp with rfl | hp'
      · rfl
      · exact h p hp'
  | forceRank w =>
    simp only [zOpStep, expectedVals]
    refine ⟨?_, trivial⟩
    intro p hp
    rcases List.mem_cons.mp hp with rfl | hp'
    · rfl
    · exact h p (List.mem_filter.mp hp').1
  | all =>
    simp only [zOpStep, expectedVals]
    have hvals : (Ω.map fun w => match cache.find? (·.1 == w) with | some p => p.2 | none => zObjRank P w) = Ω.map (zObjRank P) := by
      apply List.map_congr_left
      intro w _
      cases hf : cache.find? (·.1 == w) with
      | some p =>
        have hmem := List.mem_of_find?_eq_some hf
        have hkey : p.1 = w := by simpa using List.find?_some hf
        simp [h p hmem, hkey]
      | none => rfl
    refine ⟨?_, hvals⟩
    rw [hvals]
    intro p hp
    rcases List.mem_append.mp hp with hz | hc
    · rw [List.zip_map_right] at hz
      simp only [List.mem_map] at hz
      obtain ⟨⟨a, b⟩, hab, rfl⟩ := hz
      have : a = b := mem_zip_self Ω a b hab
      simp [this]
    · exact h p hc

/-- **C16 (cache)**: whatever the order of lazy, forced and bulk requests, every value returned is the
Z-rank of the world asked for -/
theorem C16_cache (Ω : List World) (P : List (List Cond)) : ∀ (ops : List ZOp) (cache : List (World × Nat)),
    CacheOk P cache →
    ∀ (i : Nat) (op : ZOp) (vals : List Nat), ops[i]? = some op → (zRun Ω P cache ops)[i]? = some vals →
      vals = expectedVals Ω P op := by
  intro ops
  induction ops with
  | nil => intro _ _ i op vals h; simp at h
  | cons o rest ih =>
    intro cache hc i op vals hop hv
    obtain ⟨hok, hval⟩ := zOpStep_ok Ω P cache o hc
    cases i with
    | zero =>
      simp only [List.getElem?_cons_zero, Option.some.injEq] at hop
      subst hop
      simp only [zRun, List.getElem?_cons_zero, Option.some.injEq] at hv
      subst hv
      exact hval
    | succ i =>
      simp only [List.getElem?_cons_succ] at hop
      simp only [zRun, List.getElem?_cons_succ] at hv
      exact ih _ hok i op vals hop hv

/-! ### the ranking models the base -/

/-- the greedy layers form a tolerance partition *over the feasible worlds* -/
theorem GreedyRun_isTolPart (Ω : List World) : ∀ (fin : List (List Cond)) (cs rem : List Cond),
    GreedyRun Ω cs fin rem → IsTolPart (feasible Ω rem) fin := by
  intro fin
  induction fin with
  | nil => intro _ _ _; trivial
  | cons L rest ih =>
    intro cs rem h
    obtain ⟨hne, hL, hrun⟩ := h
    refine ⟨hne, ?_, ih _ rem hrun⟩
    intro c hc
    rw [hL] at hc
    obtain ⟨_, htol⟩ := List.mem_filter.mp hc
    obtain ⟨w, hw, hver, hnf⟩ := (tolerated_iff Ω cs c).mp htol
    have hmem := GreedyRun_mem Ω (L :: rest) cs rem ⟨hne, hL, hrun⟩
    refine ⟨w, ?_, hver, ?_⟩
    · simp only [feasible, List.mem_filter, nofal, List.all_eq_true, Bool.not_eq_true']
      exact ⟨hw, fun d hd => hnf d ((hmem d).mpr (Or.inr hd))⟩
    · intro d hd
      exact hnf d ((hmem d).mpr (Or.inl (by simpa using hd)))

/-- ranking used by the object in extended mode -/
def kExt (fin : List (List Cond)) (inf : List Cond) (w : World) : Nat :=
  if nofal inf w then zrk fin w else fin.length + 1

theorem accepts_lift (Ω : List World) (fin : List (List Cond)) (inf : List Cond) (c : Cond)
    (h : Accepts (feasible Ω inf) (zrk fin) c) : Accepts Ω (kExt fin inf) c := by
  obtain ⟨w, hw, hver, hlt⟩ := h
  have hwΩ := (List.mem_filter.mp hw).1
  have hwf : nofal inf w = true := (List.mem_filter.mp hw).2
  refine ⟨w, hwΩ, hver, ?_⟩
  intro w' hw' hfal
  simp only [kExt, hwf, ↓reduceIte]
  by_cases hf' : nofal inf w' = true
  · simp only [hf', ↓reduceIte]
    exact hlt w' (List.mem_filter.mpr ⟨hw', hf'⟩) hfal
  · simp only [hf', Bool.false_eq_true, ↓reduceIte]
    have := zrk_le_length fin w
    omega

/-- **C16 (models)**: the ranking object accepts every conditional of the base outside the infinity layer
(strict mode: every conditional) -/
theorem C16_models (Ω : List World) (D : List Cond) (fin : List (List Cond)) (inf : List Cond)
    (hP : partE Ω D = some (fin ++ [inf])) :
    ∀ c ∈ fin.flatten, acceptCode Ω (zObjRank (fin ++ [inf])) c = true := by
  intro c hc
  rw [C18_accept_iff]
  obtain ⟨fin', rem, heq, hrun, _, _⟩ := (C06_ext Ω D _).mp hP
  obtain ⟨h1, h2⟩ := List.append_inj' heq rfl
  simp only [List.cons.injEq, and_true] at h2
  subst h1; subst h2
  have htp := GreedyRun_isTolPart Ω fin D inf hrun
  have hacc := zrk_models (feasible Ω inf) fin htp c hc
  have := accepts_lift Ω fin inf c hacc
  have hfun : zObjRank (fin ++ [inf]) = kExt fin inf := by
    funext w; rw [C16_rank_ext]; rfl
  rw [hfun]; exact this

/-- **C16 (acceptance = System Z operator)** for queries whose antecedent has a feasible model -/
theorem C16_accept_eq_Z (Ω : List World) (fin : List (List Cond)) (inf : List Cond) (q : Cond)
    (hA : ∃ w ∈ feasible Ω inf, q.ante.eval w = true) :
    acceptCode Ω (zObjRank (fin ++ [inf])) q = specZ (feasible Ω inf) fin q := by
  have hfun : zObjRank (fin ++ [inf]) = kExt fin inf := by
    funext w; rw [C16_rank_ext]; rfl
  rw [hfun, Bool.eq_iff_iff, C18_accept_iff]
  simp only [specZ, prefEnt, List.all_eq_true, List.any_eq_true, List.mem_filter, decide_eq_true_eq]
  constructor
  · rintro ⟨w, hw, hver, hall⟩ w' ⟨hw', hfal⟩
    have hw'Ω := (List.mem_filter.mp hw').1
    have hw'f : nofal inf w' = true := (List.mem_filter.mp hw').2
    have hlt := hall w' hw'Ω hfal
    simp only [kExt, hw'f, ↓reduceIte] at hlt
    by_cases hwf : nofal inf w = true
    · simp only [hwf, ↓reduceIte] at hlt
      exact ⟨w, ⟨List.mem_filter.mpr ⟨hw, hwf⟩, hver⟩, hlt⟩
    · simp only [hwf, Bool.false_eq_true, ↓reduceIte] at hlt
      have := zrk_le_length fin w'
      omega
  · intro hspec
    -- a feasible verifying world exists
    have hex : ∃ w ∈ feasible Ω inf, q.ver w = true := by
      obtain ⟨a, ha, hAa⟩ := hA
      by_cases hb : q.cons.eval a = true
      · exact ⟨a, ha, by simp [Cond.ver, hAa, hb]⟩
      · obtain ⟨w, ⟨hw, hv⟩, _⟩ := hspec a ⟨ha, by simp [Cond.fal, hAa, hb]⟩
        exact ⟨w, hw, hv⟩
    obtain ⟨m, hm, hmv, hmin⟩ := exists_min (zrk fin) (fun w => q.ver w = true) (feasible Ω inf) hex
    have hmΩ := (List.mem_filter.mp hm).1
    have hmf : nofal inf m = true := (List.mem_filter.mp hm).2
    refine ⟨m, hmΩ, hmv, ?_⟩
    intro w' hw' hfal
    simp only [kExt, hmf, ↓reduceIte]
    by_cases hf' : nofal inf w' = true
    · simp only [hf', ↓reduceIte]
      obtain ⟨w, ⟨hw, hv⟩, hlt⟩ := hspec w' ⟨List.mem_filter.mpr ⟨hw', hf'⟩, hfal⟩
      have := hmin w hw hv
      omega
    · simp only [hf', Bool.false_eq_true, ↓reduceIte]
      have := zrk_le_length fin m
      omega

/-- **C16 (facts)**: with facts, every world violating a fact receives the top rank -/
theorem C16_facts_top (Ω : List World) (D : List Cond) (facts : List Fm) (fin : List (List Cond)) (inf : List Cond)
    (hP : partE Ω (augment D facts) = some (fin ++ [inf])) (φ : Fm) (hφ : φ ∈ facts) (w : World)
    (hv : φ.eval w = false) : zObjRank (fin ++ [inf]) w = fin.length + 1 := by
  rw [C16_rank_ext]
  have hmem : ∃ k, factCond k φ ∈ augment D facts := by
    obtain ⟨i, hi⟩ := List.mem_iff_getElem?.mp hφ
    refine ⟨maxKey D + 1 + i, ?_⟩
    simp only [augment, List.mem_append, List.mem_map]
    right
    exact ⟨(φ, i), List.mk_mem_zipIdx_iff_getElem?.mpr hi, rfl⟩
  obtain ⟨k, hk⟩ := hmem
  have hin := C06_facts_in_infinity Ω D facts _ hP (factCond k φ) hk rfl
  have hlast : (fin ++ [inf]).getLastD [] = inf := by simp
  rw [hlast] at hin
  have : nofal inf w = false := by
    cases hn : nofal inf w with
    | false => rfl
    | true =>
      simp only [nofal, List.all_eq_true, Bool.not_eq_true'] at hn
      have := hn _ hin
      simp [factCond, Cond.fal, Fm.eval, hv] at this
  simp [this]

/-! non-vacuity: penguin base, lazy/forced/all requests -/
section Example
example : zRun (allWorlds 3) [[⟨.atom 2, .atom 0, 1⟩], [⟨.neg (.atom 2), .atom 1, 2⟩, ⟨.atom 0, .atom 1, 3⟩]] []
    [.lazyRank [true, true, true], .forceRank [true, true, true], .all] =
    [[2], [2], [0, 1, 2, 1, 0, 0, 2, 2]] := by decide
end Example

end InfOCF
