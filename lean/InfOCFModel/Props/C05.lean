import InfOCFModel.CSpec
import InfOCFModel.CRepModel
/-!
# C05  c-inference equals skeptical inference over all c-representations

c-inference does not use the definition (`IsCRep`: the ranking `κ(w) = Σ impacts of falsified
conditionals` accepts every conditional) but a *compiled* system: for each conditional `i` the
inclusion-minimal falsification sets (over the other conditionals) of the worlds verifying `i`
(`vMin`) and of the worlds falsifying `i` (`fMin`), and the constraint
`η_i > min_{S∈vMin} Σ_S η − min_{T∈fMin} Σ_T η`. The theorems below show, for **every** impact
assignment, that the compiled constraints hold iff the assignment is a c-representation, and that the
query constraint holds iff the induced ranking accepts the query; hence the existential statements the
solver decides coincide.
-/
namespace InfOCF

/-- least element of a list of naturals (`none` for the empty list) -/
def leastNat : List Nat → Option Nat
  | [] => none
  | a :: rest => match leastNat rest with
    | none => some a
    | some m => some (min a m)

theorem leastNat_none (l : List Nat) : leastNat l = none ↔ l = [] := by
  cases l with
  | nil => simp [leastNat]
  | cons a t => simp only [leastNat]; cases leastNat t <;> simp

theorem leastNat_some (l : List Nat) (m : Nat) :
    leastNat l = some m ↔ (m ∈ l ∧ ∀ x ∈ l, m ≤ x) := by
  induction l generalizing m with
  | nil => simp [leastNat]
  | cons a t ih =>
    simp only [leastNat]
    cases ht : leastNat t with
    | none =>
      have : t = [] := (leastNat_none t).mp ht
      subst this
      simp only [Option.some.injEq, List.mem_singleton, forall_eq]
      constructor
      · intro h; subst h; exact ⟨rfl, Nat.le_refl _⟩
      · intro h; exact h.1.symm
    | some m0 =>
      obtain ⟨hm0, hmin0⟩ := (ih m0).mp ht
      simp only [Option.some.injEq, List.mem_cons, forall_eq_or_imp]
      constructor
      · intro h; subst h
        refine ⟨?_, Nat.min_le_left _ _, fun x hx => Nat.le_trans (Nat.min_le_right _ _) (hmin0 x hx)⟩
        by_cases hle : a ≤ m0
        · left; exact Nat.min_eq_left hle
        · right; rw [Nat.min_eq_right (by omega)]; exact hm0
      · rintro ⟨hmem, hle_a, hall⟩
        rcases hmem with rfl | hmem
        · have := hall m0 hm0
          exact Nat.min_eq_left this
        · have h1 := hmin0 m hmem
          have h2 := hall m0 hm0
          have : m = m0 := by omega
          subst this
          exact Nat.min_eq_right hle_a

/-- least cost over a family of sets -/
def leastCost (imp : Cond → Nat) (X : List (List Cond)) : Option Nat := leastNat (X.map (cost imp))

/-- least cost over the falsification sets of a world list (the definitional minimum) -/
def leastCostW (imp : Cond → Nat) (L : List Cond) (H : List World) : Option Nat :=
  leastNat (H.map fun w => cost imp (fset L w))

/-- **the compilation step is lossless**: the least cost over the inclusion-minimal falsification sets
equals the least cost over all worlds (impacts are non-negative) -/
theorem leastCost_famMin (imp : Cond → Nat) (L : List Cond) (H : List World) :
    leastCost imp (famMin L H) = leastCostW imp L H := by
  cases hw : leastCostW imp L H with
  | none =>
    have hH : H = [] := by
      have := (leastNat_none _).mp hw
      simpa using this
    subst hH
    simp [leastCost, famMin, leastNat]
  | some m =>
    obtain ⟨hm, hmin⟩ := (leastNat_some _ m).mp hw
    simp only [List.mem_map] at hm hmin
    obtain ⟨w0, hw0, hc0⟩ := hm
    have hleft : (∀ w ∈ H, m ≤ cost imp (fset L w)) ∧ ∃ w ∈ H, cost imp (fset L w) ≤ m :=
      ⟨fun w hw => hmin _ ⟨w, hw, rfl⟩, w0, hw0, by omega⟩
    obtain ⟨hall, s, hs, hsle⟩ := (min_famMin imp L H m).mp hleft
    apply (leastNat_some _ m).mpr
    simp only [List.mem_map]
    refine ⟨⟨s, hs, ?_⟩, ?_⟩
    · have := hall s hs; omega
    · rintro x ⟨t, ht, rfl⟩; exact hall t ht

/-! ### cost of a world, split by one conditional -/

def others (D : List Cond) (i : Cond) : List Cond := D.filter (· != i)

theorem C05_verifying_cost (imp : Cond → Nat) (D : List Cond) (i : Cond) (w : World) (h : i.fal w = false) :
    cost imp (fset D w) = cost imp (fset (others D i) w) := by
  unfold cost fset others
  rw [List.filter_filter]
  congr 2
  apply List.filter_congr
  intro c _
  by_cases hc : c = i
  · subst hc; simp [h]
  · simp [hc]

theorem sum_filter_split (f : Cond → Nat) (p : Cond → Bool) (i : Cond) : ∀ (l : List Cond), l.Nodup → i ∈ l → p i = true →
    sumL ((l.filter p).map f) = f i + sumL ((l.filter fun c => p c && c != i).map f) := by
  intro l
  induction l with
  | nil => intro _ h; simp at h
  | cons a t ih =>
    intro hnd hi hp
    obtain ⟨hat, hnt⟩ := List.nodup_cons.mp hnd
    rcases List.mem_cons.mp hi with rfl | hit
    · -- i is the head; it does not occur in the tail
      have htail : t.filter (fun c => p c && c != i) = t.filter p := by
        apply List.filter_congr
        intro c hc
        have : c ≠ i := by intro e; subst e; exact hat hc
        simp [this]
      simp [List.filter_cons, hp, htail, sumL]
    · have hne : a ≠ i := by intro e; subst e; exact hat hit
      have := ih hnt hit hp
      by_cases hpa : p a = true
      · simp only [List.filter_cons, hpa, ↓reduceIte, List.map_cons, sumL, List.foldr_cons, Bool.true_and, bne_iff_ne, ne_eq, hne,
          not_false_eq_true, decide_true] at this ⊢
        omega
      · have hpa' : p a = false := by simpa using hpa
        simp only [List.filter_cons, hpa', Bool.false_eq_true, ↓reduceIte, Bool.false_and] at this ⊢
        exact this

theorem C05_falsifying_cost (imp : Cond → Nat) (D : List Cond) (hD : D.Nodup) (i : Cond) (hi : i ∈ D) (w : World)
    (h : i.fal w = true) :
    cost imp (fset D w) = imp i + cost imp (fset (others D i) w) := by
  unfold cost fset others
  rw [List.filter_filter, sum_filter_split imp (·.fal w) i D hD hi h]

/-! ### the compiled constraint of one conditional -/

/-- `η_i > min vMin − min fMin`, with the repaired treatment of an empty `fMin` (no falsifying world: no
constraint) and the unsatisfiable empty `vMin` (no verifying world) -/
def CompiledOne (Ω : List World) (D : List Cond) (imp : Cond → Nat) (i : Cond) : Prop :=
  match leastCost imp (famMin (others D i) (Ω.filter i.ver)), leastCost imp (famMin (others D i) (Ω.filter i.fal)) with
  | none, _ => False
  | some _, none => True
  | some mv, some mf => mv < imp i + mf

theorem leastCostW_some_iff (imp : Cond → Nat) (L : List Cond) (H : List World) (m : Nat) :
    leastCostW imp L H = some m ↔ (∃ w ∈ H, cost imp (fset L w) = m) ∧ ∀ w ∈ H, m ≤ cost imp (fset L w) := by
  unfold leastCostW
  rw [leastNat_some]
  simp only [List.mem_map]
  constructor
  · rintro ⟨⟨w, hw, rfl⟩, hall⟩; exact ⟨⟨w, hw, rfl⟩, fun w' hw' => hall _ ⟨w', hw', rfl⟩⟩
  · rintro ⟨⟨w, hw, rfl⟩, hall⟩; exact ⟨⟨w, hw, rfl⟩, by rintro x ⟨w', hw', rfl⟩; exact hall w' hw'⟩

/-- **one conditional**: the ranking of an impact assignment accepts conditional `i` of the base exactly when
the compiled constraint of `i` holds -/
theorem C05_accepts_iff_compiled (Ω : List World) (D : List Cond) (hD : D.Nodup) (imp : Cond → Nat) (i : Cond) (hi : i ∈ D) :
    Accepts Ω (kappaC D imp) i ↔ CompiledOne Ω D imp i := by
  unfold CompiledOne
  rw [leastCost_famMin, leastCost_famMin]
  have hver : ∀ w, i.ver w = true → kappaC D imp w = cost imp (fset (others D i) w) := by
    intro w hv
    have : i.fal w = false := by
      simp only [Cond.ver, Cond.fal, Bool.and_eq_true] at hv ⊢
      simp [hv.2]
    exact C05_verifying_cost imp D i w this
  have hfal : ∀ w, i.fal w = true → kappaC D imp w = imp i + cost imp (fset (others D i) w) :=
    fun w hf => C05_falsifying_cost imp D hD i hi w hf
  cases hv : leastCostW imp (others D i) (Ω.filter i.ver) with
  | none =>
    have hnil : Ω.filter i.ver = [] := by
      have := (leastNat_none _).mp hv; simpa using this
    simp only [iff_false]
    rintro ⟨w, hw, hver', _⟩
    have : w ∈ Ω.filter i.ver := List.mem_filter.mpr ⟨hw, hver'⟩
    rw [hnil] at this; simp at this
  | some mv =>
    obtain ⟨⟨v0, hv0, hcv0⟩, hvmin⟩ := (leastCostW_some_iff imp _ _ mv).mp hv
    obtain ⟨hv0Ω, hv0ver⟩ := List.mem_filter.mp hv0
    cases hf : leastCostW imp (others D i) (Ω.filter i.fal) with
    | none =>
      have hnil : Ω.filter i.fal = [] := by
        have := (leastNat_none _).mp hf; simpa using this
      simp only [iff_true]
      refine ⟨v0, hv0Ω, hv0ver, ?_⟩
      intro w' hw' hf'
      have : w' ∈ Ω.filter i.fal := List.mem_filter.mpr ⟨hw', hf'⟩
      rw [hnil] at this; simp at this
    | some mf =>
      obtain ⟨⟨f0, hf0, hcf0⟩, hfmin⟩ := (leastCostW_some_iff imp _ _ mf).mp hf
      obtain ⟨hf0Ω, hf0fal⟩ := List.mem_filter.mp hf0
      simp only
      constructor
      · rintro ⟨w, hw, hwv, hall⟩
        have h1 := hall f0 hf0Ω hf0fal
        rw [hver w hwv, hfal f0 hf0fal, hcf0] at h1
        have h2 := hvmin w (List.mem_filter.mpr ⟨hw, hwv⟩)
        omega
      · intro hlt
        refine ⟨v0, hv0Ω, hv0ver, ?_⟩
        intro w' hw' hf'
        rw [hver v0 hv0ver, hfal w' hf', hcv0]
        have := hfmin w' (List.mem_filter.mpr ⟨hw', hf'⟩)
        omega

/-- **the base system**: an impact assignment satisfies all compiled constraints iff it is a c-representation -/
theorem C05_base_iff (Ω : List World) (D : List Cond) (hD : D.Nodup) (imp : Cond → Nat) :
    IsCRep Ω D imp ↔ ∀ i ∈ D, CompiledOne Ω D imp i := by
  unfold IsCRep Models
  constructor
  · intro h i hi; exact (C05_accepts_iff_compiled Ω D hD imp i hi).mp (h i hi)
  · intro h i hi; exact (C05_accepts_iff_compiled Ω D hD imp i hi).mpr (h i hi)

/-- the query constraint of `compile_and_encode_query` (its negation, i.e. acceptance): `min vMin < min fMin`
over the minimal falsification sets of *all* conditionals, with the edge cases of the code -/
def CompiledQueryAccepts (Ω : List World) (D : List Cond) (imp : Cond → Nat) (q : Cond) : Prop :=
  match leastCost imp (famMin D (Ω.filter q.ver)), leastCost imp (famMin D (Ω.filter q.fal)) with
  | none, _ => False
  | some _, none => True
  | some mv, some mf => mv < mf

/-- **the query**: the induced ranking accepts the query iff the compiled query comparison holds -/
theorem C05_query_iff (Ω : List World) (D : List Cond) (imp : Cond → Nat) (q : Cond) :
    Accepts Ω (kappaC D imp) q ↔ CompiledQueryAccepts Ω D imp q := by
  unfold CompiledQueryAccepts
  rw [leastCost_famMin, leastCost_famMin]
  cases hv : leastCostW imp D (Ω.filter q.ver) with
  | none =>
    have hnil : Ω.filter q.ver = [] := by
      have := (leastNat_none _).mp hv; simpa using this
    simp only [iff_false]
    rintro ⟨w, hw, hver', _⟩
    have : w ∈ Ω.filter q.ver := List.mem_filter.mpr ⟨hw, hver'⟩
    rw [hnil] at this; simp at this
  | some mv =>
    obtain ⟨⟨v0, hv0, hcv0⟩, hvmin⟩ := (leastCostW_some_iff imp _ _ mv).mp hv
    obtain ⟨hv0Ω, hv0ver⟩ := List.mem_filter.mp hv0
    cases hf : leastCostW imp D (Ω.filter q.fal) with
    | none =>
      have hnil : Ω.filter q.fal = [] := by
        have := (leastNat_none _).mp hf; simpa using this
      simp only [iff_true]
      refine ⟨v0, hv0Ω, hv0ver, ?_⟩
      intro w' hw' hf'
      have : w' ∈ Ω.filter q.fal := List.mem_filter.mpr ⟨hw', hf'⟩
      rw [hnil] at this; simp at this
    | some mf =>
      obtain ⟨⟨f0, hf0, hcf0⟩, hfmin⟩ := (leastCostW_some_iff imp _ _ mf).mp hf
      obtain ⟨hf0Ω, hf0fal⟩ := List.mem_filter.mp hf0
      simp only
      constructor
      · rintro ⟨w, hw, hwv, hall⟩
        have h1 := hall f0 hf0Ω hf0fal
        have h2 := hvmin w (List.mem_filter.mpr ⟨hw, hwv⟩)
        simp only [kappaC] at h1
        omega
      · intro hlt
        refine ⟨v0, hv0Ω, hv0ver, ?_⟩
        intro w' hw' hf'
        have := hfmin w' (List.mem_filter.mpr ⟨hw', hf'⟩)
        simp only [kappaC]
        omega

/-- **c-inference = skeptical c-inference**: "no impact assignment satisfies the compiled base system together
with the negated compiled query comparison" is exactly `specC` (for a query with a falsifying world) -/
theorem C05_main (Ω : List World) (D : List Cond) (hD : D.Nodup) (q : Cond) (hf : ∃ w ∈ Ω, q.fal w = true) :
    (¬ ∃ imp : Cond → Nat, (∀ i ∈ D, CompiledOne Ω D imp i) ∧ ¬ CompiledQueryAccepts Ω D imp q) ↔ specC Ω D q := by
  unfold specC
  constructor
  · intro h
    right
    intro imp himp
    apply Classical.byContradiction
    intro hna
    exact h ⟨imp, (C05_base_iff Ω D hD imp).mp himp, fun hq => hna ((C05_query_iff Ω D imp q).mpr hq)⟩
  · rintro (hno | hall) ⟨imp, hbase, hq⟩
    · obtain ⟨w, hw, hfw⟩ := hf
      rw [hno w hw] at hfw; cases hfw
    · exact hq ((C05_query_iff Ω D imp q).mp (hall imp ((C05_base_iff Ω D hD imp).mpr hbase)))

/-- **a conditional that no world falsifies is treated like any other**: it only requires a verifying world
and puts no condition on the impacts -/
theorem C05_unfalsifiable (Ω : List World) (D : List Cond) (imp : Cond → Nat) (i : Cond)
    (hnf : ∀ w ∈ Ω, i.fal w = false) :
    CompiledOne Ω D imp i ↔ ∃ w ∈ Ω, i.ver w = true := by
  unfold CompiledOne
  have hnil : Ω.filter i.fal = [] := by
    simp only [List.filter_eq_nil_iff]; intro w hw; simp [hnf w hw]
  rw [hnil]
  have : leastCost imp (famMin (others D i) []) = none := by simp [leastCost, famMin, leastNat]
  rw [this]
  cases hv : leastCost imp (famMin (others D i) (Ω.filter i.ver)) with
  | none =>
    rw [leastCost_famMin] at hv
    have hvn : Ω.filter i.ver = [] := by
      have := (leastNat_none _).mp hv; simpa using this
    simp only [false_iff, not_exists, not_and]
    intro w hw hver
    have : w ∈ Ω.filter i.ver := List.mem_filter.mpr ⟨hw, hver⟩
    rw [hvn] at this; simp at this
  | some mv =>
    rw [leastCost_famMin] at hv
    obtain ⟨⟨v0, hv0, _⟩, _⟩ := (leastCostW_some_iff imp _ _ mv).mp hv
    obtain ⟨h1, h2⟩ := List.mem_filter.mp hv0
    simp only [true_iff]
    exact ⟨v0, h1, h2⟩

/-! non-vacuity: the penguin base has the c-representation (1,2,2); it rejects (f|p) -/
section Example
def exC05 : List Cond := [⟨.atom 2, .atom 0, 1⟩, ⟨.neg (.atom 2), .atom 1, 2⟩, ⟨.atom 0, .atom 1, 3⟩]
example : isCRepB (allWorlds 3) exC05 [1, 2, 2] = true := by decide
example : acceptCode (allWorlds 3) (kappaC exC05 (impOf exC05 [1, 2, 2])) ⟨.atom 2, .atom 1, 0⟩ = false := by decide
example : exC05.Nodup := by decide
end Example

end InfOCF
