import InfOCFModel.Props.C17
/-!
# C19  c-revision

`kappaRev κ R γ⁺ γ⁻` is the revised ranking. The compilations of `c_revision.py` list, per revision
conditional `i`, a triple (prior rank, other conditionals verified, other conditionals falsified)
for every world verifying `i` (`vMin`) and falsifying `i` (`fMin`); the constraint is
`γ⁻_i − γ⁺_i > min_v − min_f` with **one** sum per world.
-/
namespace InfOCF

/-! ### one conditional: the constraint is acceptance -/

/-- cost of world `w` without the contribution of conditional `i` itself: what one triple of the compilation sums up to -/
def restCost (κ : World → Nat) (R : List Cond) (gp gm : Cond → Nat) (i : Cond) (w : World) : Nat :=
  κ w + cost gp ((others R i).filter (·.ver w)) + cost gm ((others R i).filter (·.fal w))

def kappaRevF (κ : World → Nat) (R : List Cond) (gp gm : Cond → Nat) (w : World) : Nat :=
  κ w + cost gp (R.filter (·.ver w)) + cost gm (R.filter (·.fal w))

theorem filter_others_of_not (R : List Cond) (i : Cond) (p : Cond → Bool) (h : p i = false) :
    (others R i).filter p = R.filter p := by
  unfold others
  rw [List.filter_filter]
  apply List.filter_congr
  intro c _
  by_cases hc : c = i
  · subst hc; simp [h]
  · simp [hc]

theorem cost_filter_split (f : Cond → Nat) (p : Cond → Bool) (R : List Cond) (hR : R.Nodup) (i : Cond) (hi : i ∈ R)
    (hp : p i = true) : cost f (R.filter p) = f i + cost f ((others R i).filter p) := by
  unfold cost others
  rw [List.filter_filter, sum_filter_split f p i R hR hi hp]

theorem kappaRev_ver (κ : World → Nat) (R : List Cond) (hR : R.Nodup) (gp gm : Cond → Nat) (i : Cond) (hi : i ∈ R)
    (w : World) (hv : i.ver w = true) : kappaRevF κ R gp gm w = gp i + restCost κ R gp gm i w := by
  have hf : i.fal w = false := by
    simp only [Cond.ver, Cond.fal, Bool.and_eq_true] at hv ⊢; simp [hv.2]
  unfold kappaRevF restCost
  rw [cost_filter_split gp (·.ver w) R hR i hi hv, filter_others_of_not R i (·.fal w) hf]
  omega

theorem kappaRev_fal (κ : World → Nat) (R : List Cond) (hR : R.Nodup) (gp gm : Cond → Nat) (i : Cond) (hi : i ∈ R)
    (w : World) (hf : i.fal w = true) : kappaRevF κ R gp gm w = gm i + restCost κ R gp gm i w := by
  have hv : i.ver w = false := by
    simp only [Cond.ver, Cond.fal, Bool.and_eq_true, Bool.not_eq_true'] at hf ⊢; simp [hf.2]
  unfold kappaRevF restCost
  rw [cost_filter_split gm (·.fal w) R hR i hi hf, filter_others_of_not R i (·.ver w) hv]
  omega

/-- the constraint of one revision conditional with one sum per world -/
def RevConstraint (Ω : List World) (κ : World → Nat) (R : List Cond) (gp gm : Cond → Nat) (i : Cond) : Prop :=
  match leastNat ((Ω.filter i.ver).map (restCost κ R gp gm i)), leastNat ((Ω.filter i.fal).map (restCost κ R gp gm i)) with
  | none, _ => False
  | some _, none => True
  | some mv, some mf => gp i + mv < gm i + mf

/-- **C19 (constraint = acceptance)**: with one sum per world, `γ⁻_i − γ⁺_i > min_v − min_f` holds iff the
revised ranking accepts conditional `i` -/
theorem C19_constraint_iff (Ω : List World) (κ : World → Nat) (R : List Cond) (hR : R.Nodup) (gp gm : Cond → Nat)
    (i : Cond) (hi : i ∈ R) :
    Accepts Ω (kappaRevF κ R gp gm) i ↔ RevConstraint Ω κ R gp gm i := by
  unfold RevConstraint
  have hver := fun w hv => kappaRev_ver κ R hR gp gm i hi w hv
  have hfal := fun w hf => kappaRev_fal κ R hR gp gm i hi w hf
  cases hv : leastNat ((Ω.filter i.ver).map (restCost κ R gp gm i)) with
  | none =>
    have hnil : Ω.filter i.ver = [] := by
      have := (leastNat_none _).mp hv; simpa using this
    simp only [iff_false]
    rintro ⟨w, hw, hver', _⟩
    have : w ∈ Ω.filter i.ver := List.mem_filter.mpr ⟨hw, hver'⟩
    rw [hnil] at this; simp at this
  | some mv =>
    obtain ⟨hmem, hvmin⟩ := (leastNat_some _ mv).mp hv
    simp only [List.mem_map] at hmem hvmin
    obtain ⟨v0, hv0, hcv0⟩ := hmem
    obtain ⟨hv0Ω, hv0ver⟩ := List.mem_filter.mp hv0
    cases hf : leastNat ((Ω.filter i.fal).map (restCost κ R gp gm i)) with
    | none =>
      have hnil : Ω.filter i.fal = [] := by
        have := (leastNat_none _).mp hf; simpa using this
      simp only [iff_true]
      refine ⟨v0, hv0Ω, hv0ver, ?_⟩
      intro w' hw' hf'
      have : w' ∈ Ω.filter i.fal := List.mem_filter.mpr ⟨hw', hf'⟩
      rw [hnil] at this; simp at this
    | some mf =>
      obtain ⟨hmemf, hfmin⟩ := (leastNat_some _ mf).mp hf
      simp only [List.mem_map] at hmemf hfmin
      obtain ⟨f0, hf0, hcf0⟩ := hmemf
      obtain ⟨hf0Ω, hf0fal⟩ := List.mem_filter.mp hf0
      simp only
      constructor
      · rintro ⟨w, hw, hwv, hall⟩
        have h1 := hall f0 hf0Ω hf0fal
        rw [hver w hwv, hfal f0 hf0fal, hcf0] at h1
        have h2 := hvmin _ ⟨w, List.mem_filter.mpr ⟨hw, hwv⟩, rfl⟩
        omega
      · intro hlt
        refine ⟨v0, hv0Ω, hv0ver, ?_⟩
        intro w' hw' hf'
        rw [hver v0 hv0ver, hfal w' hf', hcv0]
        have := hfmin _ ⟨w', List.mem_filter.mpr ⟨hw', hf'⟩, rfl⟩
        omega

/-- all revision conditionals: the system is satisfied iff the revised ranking accepts every one of them -/
theorem C19_system_iff (Ω : List World) (κ : World → Nat) (R : List Cond) (hR : R.Nodup) (gp gm : Cond → Nat) :
    Models Ω (kappaRevF κ R gp gm) R ↔ ∀ i ∈ R, RevConstraint Ω κ R gp gm i := by
  unfold Models
  constructor
  · intro h i hi; exact (C19_constraint_iff Ω κ R hR gp gm i hi).mp (h i hi)
  · intro h i hi; exact (C19_constraint_iff Ω κ R hR gp gm i hi).mpr (h i hi)

/-! ### the encoding before the repair (two separate sums per world) is wrong -/

/-- entries one world contributes to the minimum in the pre-fix encoding -/
def twoSumEntries (κ : World → Nat) (R : List Cond) (gp gm : List Nat) (i : Cond) (w : World) : List Nat :=
  let acc := (others R i).filter (·.ver w)
  let rej := (others R i).filter (·.fal w)
  let e1 := if rej.isEmpty then [] else [κ w + cost (impOf R gm) rej]
  let e2 := if acc.isEmpty then [] else [κ w + cost (impOf R gp) acc]
  if (e1 ++ e2).isEmpty then [κ w] else e1 ++ e2

def twoSumsOk (Ω : List World) (κ : World → Nat) (R : List Cond) (gp gm : List Nat) : Bool :=
  R.all fun i =>
    match leastNat ((Ω.filter i.ver).flatMap (twoSumEntries κ R gp gm i)),
          leastNat ((Ω.filter i.fal).flatMap (twoSumEntries κ R gp gm i)) with
    | some mv, some mf => decide ((impOf R gp i : Int) + mv < impOf R gm i + mf)
    | _, _ => false

/-- concrete witness: for the contradictory pair `(a|b), (¬a|b)` (plus `(b|a)`) the two-sums system accepts
`γ⁺ = (0,0,0), γ⁻ = (1,2,1)`, although no revised ranking can accept both conditionals -/
theorem C19_two_sums_wrong :
    let R : List Cond := [⟨.atom 0, .atom 1, 1⟩, ⟨.neg (.atom 0), .atom 1, 2⟩, ⟨.atom 1, .atom 0, 3⟩]
    let Ω := allWorlds 2
    twoSumsOk Ω (fun _ => 0) R [0, 0, 0] [1, 2, 1] = true ∧ revOkB Ω (fun _ => 0) R [0, 0, 0] [1, 2, 1] = false := by
  decide

/-! ### incremental model -/

/-- state of `CRevisionModel`: current conditionals by key, and per world the keys classified as accepted / rejected -/
structure RevModel where
  conds : Nat → Option Cond
  acc : World → Nat → Bool
  rej : World → Nat → Bool

def RevModel.empty : RevModel := ⟨fun _ => none, fun _ _ => false, fun _ _ => false⟩

inductive RevOp where
  | add (k : Nat) (c : Cond)
  | remove (k : Nat)

def RevModel.step (m : RevModel) : RevOp → RevModel
  | .add k c =>
    match m.conds k with
    | some _ => m    -- the code raises ValueError for a key already present: no change
    | none =>
      { conds := fun k' => if k' = k then some c else m.conds k'
        acc := fun w k' => if k' = k then c.ver w else m.acc w k'
        rej := fun w k' => if k' = k then c.fal w else m.rej w k' }
  | .remove k =>
    { conds := fun k' => if k' = k then none else m.conds k'
      acc := fun w k' => if k' = k then false else m.acc w k'
      rej := fun w k' => if k' = k then false else m.rej w k' }

/-- classification a fresh compilation computes from the current conditionals -/
def freshAcc (conds : Nat → Option Cond) (w : World) (k : Nat) : Bool :=
  match conds k with | some c => c.ver w | none => false
def freshRej (conds : Nat → Option Cond) (w : World) (k : Nat) : Bool :=
  match conds k with | some c => c.fal w | none => false

def RevModel.Inv (m : RevModel) : Prop :=
  (∀ w k, m.acc w k = freshAcc m.conds w k) ∧ (∀ w k, m.rej w k = freshRej m.conds w k)

theorem RevModel.step_inv (m : RevModel) (op : RevOp) (h : m.Inv) : (m.step op).Inv := by
  obtain ⟨ha, hr⟩ := h
  cases op with
  | add k c =>
    simp only [RevModel.step]
    cases hk : m.conds k with
    | some _ => exact ⟨ha, hr⟩
    | none =>
      constructor
      · intro w k'
        simp only [freshAcc]
        by_cases e : k' = k
        · simp [e]
        · simp only [e, ↓reduceIte]; exact ha w k'
      · intro w k'
        simp only [freshRej]
        by_cases e : k' = k
        · simp [e]
        · simp only [e, ↓reduceIte]; exact hr w k'
  | remove k =>
    simp only [RevModel.step]
    constructor
    · intro w k'
      simp only [freshAcc]
      by_cases e : k' = k
      · simp [e]
      · simp only [e, ↓reduceIte]; exact ha w k'
    · intro w k'
      simp only [freshRej]
      by_cases e : k' = k
      · simp [e]
      · simp only [e, ↓reduceIte]; exact hr w k'

/-- the triple a compilation emits for world `w` and key `k` (over a key universe `keys`): prior rank, other keys
accepted, other keys rejected -/
def tripleOf (κ : World → Nat) (acc rej : World → Nat → Bool) (keys : List Nat) (w : World) (k : Nat) :
    Nat × List Nat × List Nat :=
  (κ w, keys.filter (fun j => j != k && acc w j), keys.filter (fun j => j != k && rej w j))

/-- **C19 (incremental)**: after *any* sequence of additions and removals the per-world classification held by the
model — hence every triple of `to_compilation` — is the one a fresh compilation of the current conditionals computes -/
theorem C19_incremental (ops : List RevOp) (κ : World → Nat) (keys : List Nat) (w : World) (k : Nat) :
    let m := ops.foldl RevModel.step RevModel.empty
    m.Inv ∧ tripleOf κ m.acc m.rej keys w k = tripleOf κ (freshAcc m.conds) (freshRej m.conds) keys w k := by
  have hinv : ∀ (ops : List RevOp) (m : RevModel), m.Inv → (ops.foldl RevModel.step m).Inv := by
    intro ops
    induction ops with
    | nil => intro m h; exact h
    | cons op rest ih => intro m h; exact ih _ (RevModel.step_inv m op h)
  have h0 : RevModel.empty.Inv := ⟨fun _ _ => rfl, fun _ _ => rfl⟩
  have hm := hinv ops RevModel.empty h0
  refine ⟨hm, ?_⟩
  simp only [tripleOf]
  have e1 : (fun j => j != k && (ops.foldl RevModel.step RevModel.empty).acc w j) =
      (fun j => j != k && freshAcc (ops.foldl RevModel.step RevModel.empty).conds w j) := by
    funext j; rw [hm.1 w j]
  have e2 : (fun j => j != k && (ops.foldl RevModel.step RevModel.empty).rej w j) =
      (fun j => j != k && freshRej (ops.foldl RevModel.step RevModel.empty).conds w j) := by
    funext j; rw [hm.2 w j]
  rw [e1, e2]

/-! ### the literal bit-mask path of the fast compilation -/

/-- a literal: atom `i` required to have value `b` -/
def litFm (i : Nat) (b : Bool) : Fm := if b then .atom i else .neg (.atom i)

theorem litFm_eval (i : Nat) (b : Bool) (w : World) : (litFm i b).eval w = (w.getD i false == b) := by
  cases b <;> simp [litFm, Fm.eval] <;> cases w.getD i false <;> rfl

/-- **C19 (mask = evaluation)**: for a conditional whose antecedent and consequent are literals the bit test of
`compile_alt_fast` / `CRevisionModel.add_conditional` classifies a world exactly as evaluation does -/
theorem C19_mask_eq_eval (ai ci : Nat) (av cv : Bool) (key : Nat) (w : World) :
    let c : Cond := ⟨litFm ci cv, litFm ai av, key⟩
    (c.ver w = (w.getD ai false == av && w.getD ci false == cv)) ∧
    (c.fal w = (w.getD ai false == av && !(w.getD ci false == cv))) := by
  simp only [Cond.ver, Cond.fal, litFm_eval]
  exact ⟨trivial, trivial⟩

/-- reference compilation (per conditional, then per world) and fast compilation (per world, classification computed
once and distributed) emit the same triples -/
def altTriples (Ω : List World) (κ : World → Nat) (conds : Nat → Option Cond) (keys : List Nat) (k : Nat) :
    List (Nat × List Nat × List Nat) :=
  (Ω.filter fun w => freshAcc conds w k).map fun w => tripleOf κ (freshAcc conds) (freshRej conds) keys w k

def fastTriples (Ω : List World) (κ : World → Nat) (conds : Nat → Option Cond) (keys : List Nat) (k : Nat) :
    List (Nat × List Nat × List Nat) :=
  Ω.filterMap fun w =>
    let accL := keys.filter (freshAcc conds w)
    let rejL := keys.filter (freshRej conds w)
    if accL.isEmpty && rejL.isEmpty then none
    else if accL.contains k then some (κ w, accL.filter (· != k), rejL.filter (· != k))
    else none

theorem filterMap_ite {α β} (p : α → Bool) (g : α → β) (l : List α) :
    l.filterMap (fun x => if p x then some (g x) else none) = (l.filter p).map g := by
  induction l with
  | nil => rfl
  | cons a t ih =>
    simp only [List.filterMap_cons, List.filter_cons]
    cases p a <;> simp [ih]

theorem C19_fast_eq_alt (Ω : List World) (κ : World → Nat) (conds : Nat → Option Cond) (keys : List Nat) (k : Nat)
    (hk : k ∈ keys) : fastTriples Ω κ conds keys k = altTriples Ω κ conds keys k := by
  unfold fastTriples altTriples
  rw [← filterMap_ite]
  congr 1
  funext w
  by_cases ha : freshAcc conds w k = true
  · have hmem : (keys.filter (freshAcc conds w)).contains k = true :=
      List.contains_iff_mem.mpr (List.mem_filter.mpr ⟨hk, ha⟩)
    have hne : ((keys.filter (freshAcc conds w)).isEmpty && (keys.filter (freshRej conds w)).isEmpty) = false := by
      cases hh : keys.filter (freshAcc conds w) with
      | nil => rw [hh] at hmem; simp at hmem
      | cons a t => simp
    simp only [hne, Bool.false_eq_true, ↓reduceIte, hmem, ha, tripleOf, List.filter_filter]
  · have ha' : freshAcc conds w k = false := by simpa using ha
    have hnm : (keys.filter (freshAcc conds w)).contains k = false := by
      cases hc : (keys.filter (freshAcc conds w)).contains k with
      | false => rfl
      | true =>
        have := (List.mem_filter.mp (List.contains_iff_mem.mp hc)).2
        rw [ha'] at this; cases this
    simp only [ha', Bool.false_eq_true, ↓reduceIte, hnm]
    split <;> rfl

/-! ### Pareto minimality and the zero prior -/

/-- **γ⁻ Pareto-minimality by the box test** (for fixed γ⁺) -/
theorem C19_pareto_box (Ω : List World) (κ : World → Nat) (R : List Cond) (gp gm : List Nat) :
    revParetoMinB Ω κ R gp gm = true ↔
      ∀ gm' : List Nat, leVec gm' gm = true → revOkB Ω κ R gp gm' = true → gm' = gm := by
  simp only [revParetoMinB, List.all_eq_true, Bool.or_eq_true, beq_iff_eq, Bool.not_eq_true']
  constructor
  · intro h g hle hok
    rcases h g ((mem_boxVectors gm g).mpr hle) with h1 | h1
    · exact h1
    · rw [hok] at h1; cases h1
  · intro h g hmem
    have hle := (mem_boxVectors gm g).mp hmem
    cases hok : revOkB Ω κ R gp g with
    | false => exact Or.inr rfl
    | true => exact Or.inl (h g hle hok)

/-- **all-zero prior, γ⁺ = 0**: the revised ranking is the c-representation ranking of the γ⁻ vector, so the
returned γ⁻ is an impact vector of a c-representation of the revision conditionals -/
theorem C19_zero_prior_is_crep (R : List Cond) (gm : List Nat) (w : World) :
    kappaRev (fun _ => 0) R (R.map fun _ => 0) gm w = kappaC R (impOf R gm) w := by
  unfold kappaRev kappaC fset
  have hz : cost (impOf R (R.map fun _ => 0)) (R.filter (·.ver w)) = 0 := by
    unfold cost
    have : ∀ l : List Cond, sumL (l.map (impOf R (R.map fun _ => 0))) = 0 := by
      intro l
      induction l with
      | nil => rfl
      | cons a t ih =>
        simp only [List.map_cons, sumL, List.foldr_cons] at ih ⊢
        have h0 : impOf R (R.map fun _ => 0) a = 0 := by
          unfold impOf
          cases h : (R.map fun _ => 0)[R.idxOf a]? with
          | none => simp [List.getD, h]
          | some v =>
            have := List.mem_of_getElem? h
            simp only [List.mem_map] at this
            obtain ⟨_, _, rfl⟩ := this
            simp [List.getD, h]
        omega
    exact this _
  rw [hz]; simp only; omega

end InfOCF
