import InfOCFModel.Props.C09
import InfOCFModel.Props.C08cw
/-!
# C09 for p-entailment and c-inference: intersections of preferential relations

`A |~ B` under p-entailment (strict mode) holds iff `(B|A)` is preferentially entailed by the rank order of
*every* ranking model of the base; skeptical c-inference is the same with c-representations. System P
is inherited by any intersection of preferential relations.
-/
namespace InfOCF

def rankSPO (κ : World → Nat) : SPO where
  lt := fun w w' => decide (κ w < κ w')
  irrefl := by intro w; simp
  trans := by intro a b c h1 h2; simp only [decide_eq_true_eq] at *; omega

/-- a relation given as the intersection of the preferential relations of a family of orders -/
def InterEnt (Ω : List World) (F : SPO → Prop) (A B : Fm) : Prop := ∀ o, F o → Ent Ω o A B

/-- **System P is closed under intersection** -/
theorem interEnt_systemP (Ω : List World) (F : SPO → Prop) :
    (∀ A, InterEnt Ω F A A) ∧
    (∀ A A' B, (∀ w, A.eval w = A'.eval w) → InterEnt Ω F A B → InterEnt Ω F A' B) ∧
    (∀ A B C, (∀ w, B.eval w = true → C.eval w = true) → InterEnt Ω F A B → InterEnt Ω F A C) ∧
    (∀ A B C, InterEnt Ω F A B → InterEnt Ω F A C → InterEnt Ω F A (.and B C)) ∧
    (∀ A B C, InterEnt Ω F A C → InterEnt Ω F B C → InterEnt Ω F (.or A B) C) ∧
    (∀ A B C, InterEnt Ω F A B → InterEnt Ω F A C → InterEnt Ω F (.and A B) C) ∧
    (∀ A B C, InterEnt Ω F A B → InterEnt Ω F (.and A B) C → InterEnt Ω F A C) := by
  refine ⟨?_, ?_, ?_, ?_, ?_, ?_, ?_⟩
  · intro A o _; exact REF Ω o A
  · intro A A' B heq h o ho; exact LLE Ω o A A' B heq (h o ho)
  · intro A B C himp h o ho; exact RW Ω o A B C himp (h o ho)
  · intro A B C h1 h2 o ho; exact AND Ω o A B C (h1 o ho) (h2 o ho)
  · intro A B C h1 h2 o ho; exact OR Ω o A B C (h1 o ho) (h2 o ho)
  · intro A B C h1 h2 o ho; exact CM Ω o A B C (h1 o ho) (h2 o ho)
  · intro A B C h1 h2 o ho; exact CUT Ω o A B C (h1 o ho) (h2 o ho)

/-- for a ranking, acceptance of `(B|A)` with satisfiable `A` is preferential entailment by the rank order -/
theorem accepts_iff_ent (Ω : List World) (κ : World → Nat) (A B : Fm) (k : Nat) (hA : ∃ w ∈ Ω, A.eval w = true) :
    Accepts Ω κ ⟨B, A, k⟩ ↔ Ent Ω (rankSPO κ) A B := by
  unfold Accepts Ent
  simp only [Cond.ver, Cond.fal, Bool.and_eq_true, Bool.not_eq_true', rankSPO, decide_eq_true_eq]
  constructor
  · rintro ⟨w, hw, ⟨ha, hb⟩, hall⟩ w' hw' ha' hb'
    exact ⟨w, hw, ha, hb, hall w' hw' ⟨ha', hb'⟩⟩
  · intro h
    by_cases hf : ∃ w' ∈ Ω, A.eval w' = true ∧ B.eval w' = false
    · -- a κ-minimal falsifying world; the verifying world below it is below every falsifying world
      obtain ⟨m, hm, hfm, hmin⟩ := exists_min κ (fun w => A.eval w = true ∧ B.eval w = false) Ω hf
      obtain ⟨w, hw, ha, hb, hlt⟩ := h m hm hfm.1 hfm.2
      refine ⟨w, hw, ⟨ha, hb⟩, ?_⟩
      intro w' hw' hf'
      have := hmin w' hw' hf'
      omega
    · obtain ⟨w, hw, ha⟩ := hA
      have hb : B.eval w = true := by
        cases hbb : B.eval w with
        | true => rfl
        | false => exact absurd ⟨w, hw, ha, hbb⟩ hf
      refine ⟨w, hw, ⟨ha, hb⟩, ?_⟩
      intro w' hw' hf'
      exact absurd ⟨w', hw', hf'⟩ hf

/-- **p-entailment (strict mode) is the intersection over all ranking models of the base** -/
theorem C09_P_is_intersection (Ω : List World) (D : List Cond) (P : List (List Cond)) (hD : D ≠ [])
    (hP : partS Ω D = some P) (A B : Fm) :
    Infers (ansP false Ω D) A B ↔ InterEnt Ω (fun o => ∃ κ, Models Ω κ D ∧ o = rankSPO κ) A B := by
  unfold Infers InterEnt
  by_cases hA : ∃ w ∈ Ω, A.eval w = true
  · rw [C01_models Ω D ⟨B, A, 0⟩ P hD hP hA]
    constructor
    · rintro h o ⟨κ, hκ, rfl⟩
      exact (accepts_iff_ent Ω κ A B 0 hA).mp (h κ hκ)
    · intro h κ hκ
      exact (accepts_iff_ent Ω κ A B 0 hA).mpr (h _ ⟨κ, hκ, rfl⟩)
  · have ht : trivialQ Ω ⟨B, A, 0⟩ = true := by
      simp only [trivialQ, Bool.or_eq_true, Bool.not_eq_true', List.any_eq_false]
      left; intro w hw
      cases h : A.eval w with
      | false => simp
      | true => exact absurd ⟨w, hw, h⟩ hA
    rw [C01_trivial Ω D _ P hD hP ht]
    simp only [true_iff]
    intro o _ w' hw' ha'
    exact absurd ⟨w', hw', ha'⟩ hA

/-- **System P for p-entailment** (strict mode) -/
theorem C09_systemP_P (Ω : List World) (D : List Cond) (P : List (List Cond)) (hD : D ≠ []) (hP : partS Ω D = some P) :
    (∀ A, Infers (ansP false Ω D) A A) ∧
    (∀ A A' B, (∀ w, A.eval w = A'.eval w) → Infers (ansP false Ω D) A B → Infers (ansP false Ω D) A' B) ∧
    (∀ A B C, (∀ w, B.eval w = true → C.eval w = true) → Infers (ansP false Ω D) A B → Infers (ansP false Ω D) A C) ∧
    (∀ A B C, Infers (ansP false Ω D) A B → Infers (ansP false Ω D) A C → Infers (ansP false Ω D) A (.and B C)) ∧
    (∀ A B C, Infers (ansP false Ω D) A C → Infers (ansP false Ω D) B C → Infers (ansP false Ω D) (.or A B) C) ∧
    (∀ A B C, Infers (ansP false Ω D) A B → Infers (ansP false Ω D) A C → Infers (ansP false Ω D) (.and A B) C) ∧
    (∀ A B C, Infers (ansP false Ω D) A B → Infers (ansP false Ω D) (.and A B) C → Infers (ansP false Ω D) A C) := by
  have key := fun A B => C09_P_is_intersection Ω D P hD hP A B
  obtain ⟨h1, h2, h3, h4, h5, h6, h7⟩ := interEnt_systemP Ω (fun o => ∃ κ, Models Ω κ D ∧ o = rankSPO κ)
  refine ⟨?_, ?_, ?_, ?_, ?_, ?_, ?_⟩
  · intro A; rw [key]; exact h1 A
  · intro A A' B heq; rw [key, key]; exact h2 A A' B heq
  · intro A B C himp; rw [key, key]; exact h3 A B C himp
  · intro A B C; rw [key, key, key]; exact h4 A B C
  · intro A B C; rw [key, key, key]; exact h5 A B C
  · intro A B C; rw [key, key, key]; exact h6 A B C
  · intro A B C; rw [key, key, key]; exact h7 A B C

/-- skeptical c-inference as an inference relation on formulas -/
def InfersC (Ω : List World) (D : List Cond) (A B : Fm) : Prop := specC Ω D ⟨B, A, 0⟩

/-- **c-inference is the intersection over all c-representations** (for a base that has one when `A` is satisfiable
this is the usual definition; the unsatisfiable-`A` case is the convention "True") -/
theorem C09_C_is_intersection (Ω : List World) (D : List Cond) (A B : Fm) (hA : ∃ w ∈ Ω, A.eval w = true) :
    InfersC Ω D A B ↔ InterEnt Ω (fun o => ∃ imp, IsCRep Ω D imp ∧ o = rankSPO (kappaC D imp)) A B := by
  unfold InfersC specC InterEnt
  constructor
  · rintro (hno | hall) o ⟨imp, himp, rfl⟩
    · intro w' hw' ha' hb'
      have := hno w' hw'
      simp [Cond.fal, ha', hb'] at this
    · exact (accepts_iff_ent Ω _ A B 0 hA).mp (hall imp himp)
  · intro h
    right
    intro imp himp
    exact (accepts_iff_ent Ω _ A B 0 hA).mpr (h _ ⟨imp, himp, rfl⟩)

/-- **System P for skeptical c-inference** on satisfiable antecedents (And, right weakening, reflexivity;
the antecedent-changing postulates need the satisfiability side condition of the transformed antecedent) -/
theorem C09_systemP_C (Ω : List World) (D : List Cond) (A : Fm) (hA : ∃ w ∈ Ω, A.eval w = true) :
    InfersC Ω D A A ∧
    (∀ B C, (∀ w, B.eval w = true → C.eval w = true) → InfersC Ω D A B → InfersC Ω D A C) ∧
    (∀ B C, InfersC Ω D A B → InfersC Ω D A C → InfersC Ω D A (.and B C)) := by
  obtain ⟨h1, _, h3, h4, _, _, _⟩ := interEnt_systemP Ω (fun o => ∃ imp, IsCRep Ω D imp ∧ o = rankSPO (kappaC D imp))
  refine ⟨?_, ?_, ?_⟩
  · rw [C09_C_is_intersection Ω D A A hA]; exact h1 A
  · intro B C himp; rw [C09_C_is_intersection Ω D A B hA, C09_C_is_intersection Ω D A C hA]; exact h3 A B C himp
  · intro B C; rw [C09_C_is_intersection Ω D A B hA, C09_C_is_intersection Ω D A C hA, C09_C_is_intersection Ω D A _ hA]
    exact h4 A B C

/-- direct inference for skeptical c-inference: every conditional of the base is accepted by every c-representation -/
theorem C09_direct_C (Ω : List World) (D : List Cond) (c : Cond) (hc : c ∈ D) : specC Ω D c :=
  Or.inr fun _ himp => himp c hc

end InfOCF
