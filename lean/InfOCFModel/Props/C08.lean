import InfOCFModel.Props.C07
import InfOCFModel.Incl
import InfOCFModel.CSpec
/-!
# C08  Operators are ordered by inclusion: p ≤ Z ≤ W ≤ lex and p ≤ c ≤ W
These are statements about the *models of the operators as users call them* (`ans*`), in both modes,
for bases of any size.
-/
namespace InfOCF

theorem ans_val_cases {weakly Ω} {D : List Cond} {q body b} (h : wrap weakly Ω D q body = .val b) :
    D ≠ [] ∧ ∃ P, partFor weakly Ω D = some P := by
  cases D with
  | nil => simp [wrap] at h
  | cons a t =>
    refine ⟨by simp, ?_⟩
    cases hp : partFor weakly Ω (a :: t) with
    | none => simp [wrap, hp] at h
    | some P => exact ⟨P, rfl⟩

/-- **Z ≤ W**, both modes, both back-ends -/
theorem C08_Z_le_W (weakly : Bool) (Ω : List World) (D : List Cond) (q : Cond)
    (h : ansZ weakly Ω D q = .val true) : ansW weakly Ω D q = .val true := by
  obtain ⟨hD, P, hP⟩ := ans_val_cases h
  cases weakly
  · have hP' : partS Ω D = some P := by simpa [partFor] using hP
    rw [C02_main Ω D q P hD hP'] at h
    rw [C03_main Ω D q P hD hP']
    congr 1
    exact specZ_le_specW Ω P q (by simpa using h)
  · have hP' : partE Ω D = some P := by simpa [partFor] using hP
    rw [C07_Z Ω D q P hD hP'] at h
    rw [C07_W Ω D q P hD hP']
    congr 1
    exact specZ_le_specW _ _ q (by simpa using h)

/-- **W ≤ lex**, both modes, both back-ends -/
theorem C08_W_le_Lex (weakly : Bool) (Ω : List World) (D : List Cond) (q : Cond)
    (h : ansW weakly Ω D q = .val true) : ansLex weakly Ω D q = .val true := by
  obtain ⟨hD, P, hP⟩ := ans_val_cases h
  cases weakly
  · have hP' : partS Ω D = some P := by simpa [partFor] using hP
    rw [C03_main Ω D q P hD hP'] at h
    rw [C04_main Ω D q P hD hP']
    congr 1
    exact specW_le_specLex _ _ _ (by simpa using h)
  · have hP' : partE Ω D = some P := by simpa [partFor] using hP
    rw [C07_W Ω D q P hD hP'] at h
    rw [C07_Lex Ω D q P hD hP']
    congr 1
    exact specW_le_specLex _ _ _ (by simpa [specW'] using h)

/-- **p ≤ Z** (strict mode) -/
theorem C08_P_le_Z (Ω : List World) (D : List Cond) (q : Cond)
    (h : ansP false Ω D q = .val true) : ansZ false Ω D q = .val true := by
  obtain ⟨hD, P, hP⟩ := ans_val_cases h
  have hP' : partS Ω D = some P := by simpa [partFor] using hP
  by_cases ht : trivialQ Ω q = true
  · exact C02_trivial Ω D q P hD hP' ht
  · have hA : ∃ w ∈ Ω, q.ante.eval w = true := by
      have : trivialQ Ω q = false := by simpa using ht
      simp only [trivialQ, Bool.or_eq_false_iff, Bool.not_eq_false', List.any_eq_true] at this
      exact this.1
    have hall := (C01_models Ω D q P hD hP' hA).mp h
    obtain ⟨hpart, hmem⟩ := tolPart_sound Ω D.length D P hP'
    rw [C02_main Ω D q P hD hP']
    congr 1
    apply p_le_Z Ω P hpart q
    intro κ hκ
    exact hall κ (fun c hc => hκ c ((hmem c).mpr hc))

/-- **p ≤ c** (specification level): every c-representation is a ranking model -/
theorem C08_P_le_C (Ω : List World) (D : List Cond) (q : Cond)
    (h : ∀ κ : World → Nat, Models Ω κ D → Accepts Ω κ q) : specC Ω D q :=
  Or.inr fun imp himp => h _ himp

/-- the full statement of **c ≤ W** -/
def C08_c_le_W_statement : Prop :=
  ∀ (Ω : List World) (D : List Cond) (q : Cond) (P : List (List Cond)),
    D ≠ [] → partS Ω D = some P → specC Ω D q →
    specW P.reverse (Ω.filter q.ver) (Ω.filter q.fal) = true

/-- what is proved of c ≤ W: for a falsifying world `w'` that no verifying world W-precedes, the explicit
ranking `kapW w'` (i) accepts every conditional of every layer and (ii) ranks every such verifying world
at least as high as `w'`, hence does not accept the query. Missing: identifying `kapW w'` with `kappaC D imp`
for the positional impact assignment (a permutation-of-sums argument). -/
theorem C08_chain_partial (Ω : List World) (q : Cond) (w' : World) (hw' : w' ∈ Ω) (hf : q.fal w' = true)
    (T : List (List Cond))
    (hnone : ∀ w ∈ Ω, q.ver w = true → wless T w w' = false) :
    ¬ Accepts Ω (kapW w' T) q ∧
    ∀ up L lower c, T = up ++ L :: lower → c ∈ L → Tol Ω (L ++ up.flatten) c → Accepts Ω (kapW w' T) c := by
  constructor
  · rintro ⟨w, hw, hv, hlt⟩
    have h1 := kapW_sep w' T w (hnone w hw hv)
    have h2 := hlt w' hw' hf
    omega
  · intro up L lower c hT hc htol
    subst hT
    exact kapW_accepts Ω w' up L lower c hc htol

end InfOCF
