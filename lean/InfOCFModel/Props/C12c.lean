import InfOCFModel.Props.C12ren
import InfOCFModel.CSpec
/-!
# C12 for skeptical c-inference (at the level of its specification `specC`)

`specC` quantifies over impact assignments `imp : Cond → Nat`. For a base without literally repeated entries (keys are
unique) this is the same as quantifying over impact *vectors* by position (`specC_iff_pos`), and the positional form
only looks at the falsification behaviour of the conditionals, position by position. Hence skeptical c-inference is
invariant under re-keying, replacement of formulas by equivalent ones, renaming of atoms and extension of the signature
(`C12_c_invariance`, with the world transport of `C12ren.lean`), and under any permutation of the base
(`C12_c_order_invariance`). The tie of `specC` to the code is C05.
-/
namespace InfOCF

/-- the ranking of an impact vector, by position -/
def kappaPos : List Cond → List Nat → World → Nat
  | c :: D, e :: η, w => (if c.fal w then e else 0) + kappaPos D η w
  | _, _, _ => 0

theorem kappaC_eq_pos (imp : Cond → Nat) : ∀ (D : List Cond) (w : World), kappaC D imp w = kappaPos D (D.map imp) w := by
  intro D w
  induction D with
  | nil => rfl
  | cons c t ih =>
    simp only [kappaC, cost, fset, List.filter_cons, List.map_cons, kappaPos] at ih ⊢
    split
    · simp only [List.map_cons, sumL, List.foldr_cons]
      simp only [sumL] at ih
      rw [ih]
    · simp only [Nat.zero_add]; exact ih

theorem map_imp_of_nodup (D : List Cond) (hD : D.Nodup) (η : List Nat) (hlen : η.length = D.length) :
    D.map (fun c => η.getD (D.idxOf c) 0) = η := by
  apply List.ext_getElem
  · simp [hlen]
  · intro i h1 h2
    simp only [List.getElem_map]
    have hi : i < D.length := by simpa using h1
    rw [hD.idxOf_getElem i hi]
    simp [List.getD_eq_getElem?_getD, h2]

/-- skeptical c-inference with impact vectors by position -/
def specCpos (Ω : List World) (D : List Cond) (q : Cond) : Prop :=
  (∀ w ∈ Ω, q.fal w = false) ∨
    ∀ η : List Nat, η.length = D.length → Models Ω (kappaPos D η) D → Accepts Ω (kappaPos D η) q

theorem specC_iff_pos (Ω : List World) (D : List Cond) (q : Cond) (hD : D.Nodup) : specC Ω D q ↔ specCpos Ω D q := by
  unfold specC specCpos IsCRep
  constructor
  · rintro (h | h)
    · exact Or.inl h
    · right
      intro η hlen hm
      have e : kappaC D (fun c => η.getD (D.idxOf c) 0) = kappaPos D η := by
        funext w; rw [kappaC_eq_pos, map_imp_of_nodup D hD η hlen]
      have := h (fun c => η.getD (D.idxOf c) 0) (by rw [e]; exact hm)
      rw [e] at this; exact this
  · rintro (h | h)
    · exact Or.inl h
    · right
      intro imp hm
      have e : kappaC D imp = kappaPos D (D.map imp) := by funext w; exact kappaC_eq_pos imp D w
      rw [e] at hm ⊢
      exact h (D.map imp) (by simp) hm

section
variable {σ : World → World}

theorem kappaPos_ren {D D' : List Cond} (h : BaseRen σ D D') : ∀ (η : List Nat) (w' : World),
    kappaPos D' η w' = kappaPos D η (σ w') := by
  induction h with
  | nil => intro η w'; rfl
  | cons hab _ ih =>
    intro η w'
    cases η with
    | nil => rfl
    | cons e t => simp only [kappaPos, (hab w').2, ih t w']

theorem Accepts_ren {Ω Ω' : List World} (T : Transport Ω Ω' σ) {c c' : Cond} (hc : VFS σ c c') (κ κ' : World → Nat)
    (hκ : ∀ w', κ' w' = κ (σ w')) : Accepts Ω' κ' c' ↔ Accepts Ω κ c := by
  unfold Accepts
  constructor
  · rintro ⟨w', hw', hv, hall⟩
    refine ⟨σ w', T.into w' hw', by rw [← (hc w').1]; exact hv, ?_⟩
    intro x hx hf
    obtain ⟨x', hx', rfl⟩ := T.onto x hx
    have := hall x' hx' (by rw [(hc x').2]; exact hf)
    rw [hκ, hκ] at this; exact this
  · rintro ⟨w, hw, hv, hall⟩
    obtain ⟨w', hw', rfl⟩ := T.onto w hw
    refine ⟨w', hw', by rw [(hc w').1]; exact hv, ?_⟩
    intro x' hx' hf
    rw [hκ, hκ]
    exact hall (σ x') (T.into x' hx') (by rw [← (hc x').2]; exact hf)

theorem Models_ren {Ω Ω' : List World} (T : Transport Ω Ω' σ) (κ κ' : World → Nat) (hκ : ∀ w', κ' w' = κ (σ w')) :
    ∀ {D D' : List Cond}, BaseRen σ D D' → (Models Ω' κ' D' ↔ Models Ω κ D) := by
  intro D D' h
  induction h with
  | nil => simp [Models]
  | cons hab _ ih =>
    simp only [Models, List.mem_cons, forall_eq_or_imp] at ih ⊢
    rw [Accepts_ren T hab κ κ' hκ, ih]

theorem specCpos_ren {Ω Ω' : List World} (T : Transport Ω Ω' σ) {D D' : List Cond} (h : BaseRen σ D D')
    {q q' : Cond} (hq : VFS σ q q') : specCpos Ω' D' q' ↔ specCpos Ω D q := by
  unfold specCpos
  have h0 : (∀ w' ∈ Ω', q'.fal w' = false) ↔ (∀ w ∈ Ω, q.fal w = false) := by
    constructor
    · intro H w hw
      obtain ⟨w', hw', rfl⟩ := T.onto w hw
      rw [← (hq w').2]; exact H w' hw'
    · intro H w' hw'
      rw [(hq w').2]; exact H _ (T.into w' hw')
  have h1 : ∀ η : List Nat, (Models Ω' (kappaPos D' η) D' ↔ Models Ω (kappaPos D η) D) :=
    fun η => Models_ren T _ _ (kappaPos_ren h η) h
  have h2 : ∀ η : List Nat, (Accepts Ω' (kappaPos D' η) q' ↔ Accepts Ω (kappaPos D η) q) :=
    fun η => Accepts_ren T hq _ _ (kappaPos_ren h η)
  rw [h0, h.length_eq]
  constructor
  · rintro (H | H)
    · exact Or.inl H
    · exact Or.inr fun η hl hm => (h2 η).mp (H η hl ((h1 η).mpr hm))
  · rintro (H | H)
    · exact Or.inl H
    · exact Or.inr fun η hl hm => (h2 η).mpr (H η hl ((h1 η).mp hm))

/-- **C12 for skeptical c-inference**: bases related position-wise by "same verification / falsification behaviour
along a world transport" (re-keying, equivalent formulas, renamed atoms, extended signature) give the same verdict -/
theorem C12_c_invariance {Ω Ω' : List World} (T : Transport Ω Ω' σ) {D D' : List Cond} (h : BaseRen σ D D')
    {q q' : Cond} (hq : VFS σ q q') (hD : D.Nodup) (hD' : D'.Nodup) : specC Ω' D' q' ↔ specC Ω D q := by
  rw [specC_iff_pos Ω' D' q' hD', specC_iff_pos Ω D q hD]
  exact specCpos_ren T h hq

end

theorem Transport.refl (Ω : List World) : Transport Ω Ω id := ⟨fun _ h => h, fun w h => ⟨w, h, rfl⟩⟩

theorem VFEq_VFS {c c' : Cond} (h : VFEq c c') : VFS id c c' := fun w => h w

theorem BaseEq_BaseRen {D D' : List Cond} (h : BaseEq D D') : BaseRen id D D' := by
  induction h with
  | nil => exact Rel2.nil
  | cons hab _ ih => exact Rel2.cons (VFEq_VFS hab) ih

/-- re-keying and replacing formulas by equivalent ones (same world list) -/
theorem C12_c_key_formula_invariance (Ω : List World) {D D' : List Cond} (h : BaseEq D D') {q q' : Cond} (hq : VFEq q q')
    (hD : D.Nodup) (hD' : D'.Nodup) : specC Ω D' q' ↔ specC Ω D q :=
  C12_c_invariance (Transport.refl Ω) (BaseEq_BaseRen h) (VFEq_VFS hq) hD hD'

theorem nodup_of_keys (D : List Cond) (h : (D.map (·.key)).Nodup) : D.Nodup := by
  induction D with
  | nil => exact List.nodup_nil
  | cons c t ih =>
    simp only [List.map_cons, List.nodup_cons, List.mem_map, not_exists, not_and] at h ⊢
    exact ⟨fun hc => h.1 c hc rfl, ih h.2⟩

/-- atom renaming / signature extension for skeptical c-inference (keys distinct, as in every belief base) -/
theorem C12_c_atom_renaming (ρ ρinv : Nat → Nat) (n n' : Nat) (hρ : ∀ i, i < n → ρ i < n' ∧ ρinv (ρ i) = i)
    (D : List Cond) (q : Cond) (hD : ∀ c ∈ D, c.within n = true) (hq : q.within n = true) (hk : (D.map (·.key)).Nodup) :
    specC (allWorlds n') (D.map (Cond.ren ρ)) (q.ren ρ) ↔ specC (allWorlds n) D q := by
  apply C12_c_invariance (pull_transport ρ ρinv n n' hρ) (base_ren_BaseRen ρ n D hD) (cond_ren_VFS ρ n q hq)
    (nodup_of_keys D hk)
  apply nodup_of_keys
  simpa [List.map_map, Function.comp_def, Cond.ren] using hk

/-! ### permutation of the base -/

theorem sumL_perm {l l' : List Nat} (h : l.Perm l') : sumL l = sumL l' := by
  induction h with
  | nil => rfl
  | cons x _ ih => simp only [sumL, List.foldr_cons] at ih ⊢; rw [ih]
  | swap x y l => simp only [sumL, List.foldr_cons]; omega
  | trans _ _ ih1 ih2 => rw [ih1, ih2]

theorem kappaC_perm {D D' : List Cond} (h : D.Perm D') (imp : Cond → Nat) (w : World) : kappaC D' imp w = kappaC D imp w := by
  unfold kappaC cost fset
  exact (sumL_perm ((h.filter _).map imp)).symm

/-- the listing order of the base is irrelevant for skeptical c-inference -/
theorem C12_c_order_invariance (Ω : List World) {D D' : List Cond} (h : D.Perm D') (q : Cond) : specC Ω D' q ↔ specC Ω D q := by
  unfold specC IsCRep
  have e : ∀ imp, kappaC D' imp = kappaC D imp := fun imp => funext fun w => kappaC_perm h imp w
  have hm : ∀ κ, Models Ω κ D' ↔ Models Ω κ D := by
    intro κ; unfold Models
    exact ⟨fun H c hc => H c (h.mem_iff.mp hc), fun H c hc => H c (h.mem_iff.mpr hc)⟩
  constructor
  · rintro (H | H)
    · exact Or.inl H
    · exact Or.inr fun imp hi => by have := H imp (by rw [e]; exact (hm _).mpr hi); rw [e] at this; exact this
  · rintro (H | H)
    · exact Or.inl H
    · exact Or.inr fun imp hi => by rw [e] at hi ⊢; exact H imp ((hm _).mp hi)

/-- non-vacuity of `C12_c_key_formula_invariance`: the penguin base under two keyings, with `f` rewritten as `¬¬f` -/
def exC12a : List Cond := [⟨.atom 2, .atom 0, 1⟩, ⟨.neg (.atom 2), .atom 1, 2⟩, ⟨.atom 0, .atom 1, 3⟩]
def exC12b : List Cond := [⟨.neg (.neg (.atom 2)), .atom 0, 7⟩, ⟨.neg (.atom 2), .atom 1, 0⟩, ⟨.atom 0, .atom 1, 30⟩]

example : exC12a.Nodup ∧ exC12b.Nodup ∧ BaseEq exC12a exC12b := by
  refine ⟨by decide, by decide, ?_⟩
  refine Rel2.cons ?_ (Rel2.cons ?_ (Rel2.cons ?_ Rel2.nil)) <;> intro w <;>
    simp [Cond.ver, Cond.fal, Fm.eval]

end InfOCF
