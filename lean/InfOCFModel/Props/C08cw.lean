import InfOCFModel.Props.C08ext
/-!
# C08: c-inference ⊆ System W (strict mode), completed

If System W does not infer `(B|A)`, some falsifying world `w'` has no verifying world `<_w`-below it.
`kapW w'` (CW.lean) is then an explicit ranking that accepts every conditional of the base and ranks
every verifying world at least as high as `w'`. Here it is shown to be the ranking of a *positional
impact assignment* (`impT`), i.e. a c-representation, which closes the chain p ≤ c ≤ W.
-/
namespace InfOCF

/-- impact of a conditional according to the layer it sits in (layers top-first) -/
def impT (w' : World) : List (List Cond) → Cond → Nat
  | [], _ => 0
  | L :: lower, c => if L.contains c then impW w' (totalW w' lower) L c else impT w' lower c

theorem sumL_append (a b : List Nat) : sumL (a ++ b) = sumL a + sumL b := by
  induction a with
  | nil => simp [sumL]
  | cons x xs ih => simp only [List.cons_append, sumL, List.foldr_cons] at ih ⊢; omega

theorem sumL_eq_sum (l : List Nat) : sumL l = l.sum := by
  induction l with
  | nil => rfl
  | cons x xs ih => simp only [sumL, List.foldr_cons, List.sum_cons] at ih ⊢; omega

theorem cost_perm (f : Cond → Nat) {l1 l2 : List Cond} (h : l1.Perm l2) : cost f l1 = cost f l2 := by
  unfold cost
  rw [sumL_eq_sum, sumL_eq_sum]
  exact (h.map f).sum_nat

theorem kapW_eq_cost (w' : World) : ∀ (T : List (List Cond)), T.flatten.Nodup → ∀ w,
    kapW w' T w = cost (impT w' T) (fset T.flatten w) := by
  intro T
  induction T with
  | nil => intro _ w; simp [kapW, cost, fset, sumL]
  | cons L lower ih =>
    intro hnd w
    simp only [List.flatten_cons] at hnd
    obtain ⟨_, hlow, hdisj⟩ := List.nodup_append.mp hnd
    simp only [kapW, List.flatten_cons, fset, List.filter_append, cost, List.map_append, sumL_append]
    have h1 : (L.filter (·.fal w)).map (impT w' (L :: lower)) = (L.filter (·.fal w)).map (impW w' (totalW w' lower) L) := by
      apply List.map_congr_left
      intro c hc
      have hm : c ∈ L := (List.mem_filter.mp hc).1
      simp [impT, hm]
    have h2 : (lower.flatten.filter (·.fal w)).map (impT w' (L :: lower)) = (lower.flatten.filter (·.fal w)).map (impT w' lower) := by
      apply List.map_congr_left
      intro c hc
      have hcl : c ∈ lower.flatten := (List.mem_filter.mp hc).1
      have hnm : c ∉ L := fun hcL => hdisj c hcL c hcl rfl
      simp [impT, hnm]
    rw [h1, h2]
    have := ih hlow w
    simp only [cost, fset] at this
    rw [this]

theorem GreedyRun_perm (Ω : List World) : ∀ (fin : List (List Cond)) (cs rem : List Cond),
    GreedyRun Ω cs fin rem → (fin.flatten ++ rem).Perm cs := by
  intro fin
  induction fin with
  | nil => intro cs rem h; simp only [GreedyRun] at h; subst h; simp
  | cons L rest ih =>
    intro cs rem h
    obtain ⟨_, hL, hrun⟩ := h
    have h1 := ih _ rem hrun
    simp only [List.flatten_cons, List.append_assoc]
    rw [hL]
    exact (List.Perm.append (List.Perm.refl _) h1).trans (List.filter_append_perm _ _)

theorem isTolPart_split (Ω : List World) : ∀ (P : List (List Cond)), IsTolPart Ω P → ∀ c ∈ P.flatten,
    ∃ pre L post, P = pre ++ L :: post ∧ c ∈ L ∧ Tol Ω (L ++ post.flatten) c := by
  intro P
  induction P with
  | nil => intro _ c hc; simp at hc
  | cons L rest ih =>
    intro hP c hc
    obtain ⟨_, htol, hrest⟩ := hP
    simp only [List.flatten_cons, List.mem_append] at hc
    rcases hc with hc | hc
    · exact ⟨[], L, rest, rfl, hc, htol c hc⟩
    · obtain ⟨pre, M, post, hsplit, hcM, ht⟩ := ih hrest c hc
      exact ⟨L :: pre, M, post, by rw [hsplit]; rfl, hcM, ht⟩

/-- **c ≤ W** (strict mode): whatever skeptical c-inference infers, System W infers -/
theorem C08_c_le_W (Ω : List World) (D : List Cond) (q : Cond) (P : List (List Cond))
    (hnd : D.Nodup) (hP : partS Ω D = some P) (hc : specC Ω D q) :
    specW P.reverse (Ω.filter q.ver) (Ω.filter q.fal) = true := by
  apply Classical.byContradiction
  intro hnot
  have hfalse : specW P.reverse (Ω.filter q.ver) (Ω.filter q.fal) = false := by simpa using hnot
  simp only [specW, List.all_eq_false, List.any_eq_true, not_exists, not_and, Bool.not_eq_true] at hfalse
  obtain ⟨w', hw'mem, hnone⟩ := hfalse
  obtain ⟨hw', hf'⟩ := List.mem_filter.mp hw'mem
  have hnone' : ∀ w ∈ Ω, q.ver w = true → wless P.reverse w w' = false :=
    fun w hw hv => hnone w (List.mem_filter.mpr ⟨hw, hv⟩)
  obtain ⟨hnacc, haccs⟩ := C08_chain_partial Ω q w' hw' hf' P.reverse hnone'
  -- the partition is a permutation of the base
  obtain ⟨hTP, hmem⟩ := tolPart_sound Ω D.length D P hP
  have hrun := (C06_greedy Ω D P).mp hP
  have hperm1 : P.flatten.Perm D := by simpa using GreedyRun_perm Ω P D [] hrun
  have hperm2 : P.reverse.flatten.Perm P.flatten := (List.reverse_perm P).flatten
  have hperm : P.reverse.flatten.Perm D := hperm2.trans hperm1
  have hTnd : P.reverse.flatten.Nodup := (hperm.nodup_iff).mpr hnd
  -- kapW w' is the ranking of the positional impact assignment impT
  have hfun : kappaC D (impT w' P.reverse) = kapW w' P.reverse := by
    funext w
    rw [kapW_eq_cost w' P.reverse hTnd w]
    unfold kappaC fset
    exact cost_perm _ (hperm.symm.filter _)
  -- it is a c-representation
  have hrep : IsCRep Ω D (impT w' P.reverse) := by
    intro c hcD
    rw [hfun]
    obtain ⟨pre, L, post, hsplit, hcL, htol⟩ := isTolPart_split Ω P hTP c ((hmem c).mpr hcD)
    apply haccs post.reverse L pre.reverse c
    · rw [hsplit]; simp
    · exact hcL
    · apply htol.mono
      intro d hd
      rcases List.mem_append.mp hd with h | h
      · exact List.mem_append.mpr (Or.inl h)
      · exact List.mem_append.mpr (Or.inr (((List.reverse_perm post).flatten).mem_iff.mp h))
  rcases hc with hno | hall
  · rw [hno w' hw'] at hf'; cases hf'
  · have := hall _ hrep
    rw [hfun] at this
    exact hnacc this

/-- the chain **p ≤ c ≤ W** for the models of the operators (strict mode): p-entailment ⟹ skeptical c-inference ⟹ System W -/
theorem C08_chain (Ω : List World) (D : List Cond) (q : Cond) (P : List (List Cond))
    (hD : D ≠ []) (hnd : D.Nodup) (hP : partS Ω D = some P) :
    (ansP false Ω D q = .val true → specC Ω D q) ∧ (specC Ω D q → ansW false Ω D q = .val true) := by
  constructor
  · intro hp
    by_cases hA : ∃ w ∈ Ω, q.ante.eval w = true
    · exact C08_P_le_C Ω D q ((C01_models Ω D q P hD hP hA).mp hp)
    · left
      intro w hw
      cases hq : q.ante.eval w with
      | false => simp [Cond.fal, hq]
      | true => exact absurd ⟨w, hw, hq⟩ hA
  · intro hc
    rw [C03_main Ω D q P hD hP, C08_c_le_W Ω D q P hnd hP hc]

end InfOCF
