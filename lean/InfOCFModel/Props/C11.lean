import InfOCFModel.Props.C07
import InfOCFModel.Mcs
/-!
# C11  Answers do not depend on the chosen solver back-end

The recursions of System W and lexicographic inference use the optimizer only through the *set* of
correction sets one call returns. `algWWith opt` / `algLexWith opt` are the recursions over an
arbitrary optimizer `opt`; if `opt` returns, in any order and with any repetitions, exactly the
inclusion-minimal falsification sets (`famMin` — the contract each back-end's enumeration loop meets,
`enumLoop_spec` + `minimal_of_enum`, C15), the answer is that of the reference recursion, hence the
same for every back-end and SAT engine.
-/
namespace InfOCF

def SetEq (X Y : List (List Cond)) : Prop := ∀ s, s ∈ X ↔ s ∈ Y

abbrev Optimizer := List Cond → List World → List (List Cond)

def MeetsContract (opt : Optimizer) : Prop := ∀ L H, SetEq (opt L H) (famMin L H)

def algWWith (opt : Optimizer) : List (List Cond) → List World → List World → Bool
  | [], _, _ => false
  | L :: rest, Hv, Hf =>
    let Xv := opt L Hv
    let Xf := opt L Hf
    if !(Xf.all fun b => Xv.any fun a => subsetL a b) then false
    else (Xv.filter (Xf.contains ·)).all fun x =>
      match rest with
      | [] => false
      | _ => algWWith opt rest (Hv.filter (fset L · == x)) (Hf.filter (fset L · == x))

theorem all_setEq {X Y : List (List Cond)} (h : SetEq X Y) (p : List Cond → Bool) : X.all p = Y.all p := by
  rw [Bool.eq_iff_iff]
  simp only [List.all_eq_true]
  exact ⟨fun hx s hs => hx s ((h s).mpr hs), fun hy s hs => hy s ((h s).mp hs)⟩

theorem any_setEq {X Y : List (List Cond)} (h : SetEq X Y) (p : List Cond → Bool) : X.any p = Y.any p := by
  rw [Bool.eq_iff_iff]
  simp only [List.any_eq_true]
  exact ⟨fun ⟨s, hs, hp⟩ => ⟨s, (h s).mp hs, hp⟩, fun ⟨s, hs, hp⟩ => ⟨s, (h s).mpr hs, hp⟩⟩

theorem filter_setEq {X Y : List (List Cond)} (h : SetEq X Y) (p q : List Cond → Bool) (hpq : ∀ s, p s = q s) :
    SetEq (X.filter p) (Y.filter q) := by
  intro s; simp only [List.mem_filter, hpq]; rw [h s]

theorem contains_setEq {X Y : List (List Cond)} (h : SetEq X Y) (s : List Cond) : X.contains s = Y.contains s := by
  rw [Bool.eq_iff_iff, List.contains_iff_mem, List.contains_iff_mem]; exact h s

/-- **System W is back-end independent** -/
theorem C11_W_backend_free (opt : Optimizer) (hopt : MeetsContract opt) :
    ∀ (layers : List (List Cond)) (Hv Hf : List World), algWWith opt layers Hv Hf = algWCode layers Hv Hf := by
  intro layers
  induction layers with
  | nil => intro _ _; rfl
  | cons L rest ih =>
    intro Hv Hf
    simp only [algWWith, algWCode]
    have hv := hopt L Hv
    have hf := hopt L Hf
    have h1 : ((opt L Hf).all fun b => (opt L Hv).any fun a => subsetL a b) =
        ((famMin L Hf).all fun b => (famMin L Hv).any fun a => subsetL a b) := by
      rw [all_setEq hf]
      congr 1; funext b; exact any_setEq hv _
    rw [h1]
    split
    · rfl
    · have hfil : SetEq ((opt L Hv).filter ((opt L Hf).contains ·)) ((famMin L Hv).filter ((famMin L Hf).contains ·)) :=
        filter_setEq hv _ _ (fun s => contains_setEq hf s)
      rw [all_setEq hfil]
      congr 1; funext x
      cases rest with
      | nil => rfl
      | cons L' rest' => exact ih _ _

def algLexWith (opt : Optimizer) : List (List Cond) → List World → List World → Bool
  | [], _, _ => false
  | L :: rest, Hv, Hf =>
    let Xv := opt L Hv
    let Xf := opt L Hf
    if Xv.isEmpty then false else if Xf.isEmpty then true else
    let mv := minLen Xv
    let mf := minLen Xf
    if mv < mf then true else if mf < mv then false else
    (Xv.filter (·.length == mv)).any fun xv => (Xf.filter (·.length == mf)).all fun xf =>
      algLexWith opt rest (Hv.filter (fset L · == xv)) (Hf.filter (fset L · == xf))

theorem isEmpty_setEq {X Y : List (List Cond)} (h : SetEq X Y) : X.isEmpty = Y.isEmpty := by
  cases X with
  | nil =>
    cases Y with
    | nil => rfl
    | cons a t => have := (h a).mpr (by simp); simp at this
  | cons a t =>
    cases Y with
    | nil => have := (h a).mp (by simp); simp at this
    | cons b u => rfl

theorem minLen_setEq {X Y : List (List Cond)} (h : SetEq X Y) (hne : X ≠ []) : minLen X = minLen Y := by
  have hneY : Y ≠ [] := by
    intro hy
    cases X with
    | nil => exact hne rfl
    | cons a t => have := (h a).mp (by simp); rw [hy] at this; simp at this
  obtain ⟨s, hs, hsl⟩ := minLen_mem X hne
  obtain ⟨t, ht, htl⟩ := minLen_mem Y hneY
  have a := minLen_le_mem Y s ((h s).mp hs)
  have b := minLen_le_mem X t ((h t).mpr ht)
  omega

/-- **lexicographic inference is back-end independent** -/
theorem C11_Lex_backend_free (opt : Optimizer) (hopt : MeetsContract opt) :
    ∀ (layers : List (List Cond)) (Hv Hf : List World), algLexWith opt layers Hv Hf = algLex layers Hv Hf := by
  intro layers
  induction layers with
  | nil => intro _ _; rfl
  | cons L rest ih =>
    intro Hv Hf
    simp only [algLexWith, algLex]
    have hv := hopt L Hv
    have hf := hopt L Hf
    rw [isEmpty_setEq hv, isEmpty_setEq hf]
    split
    · rfl
    · rename_i hve
      split
      · rfl
      · rename_i hfe
        have hvne : opt L Hv ≠ [] := by
          intro h; apply hve; rw [← isEmpty_setEq hv, h]; rfl
        have hfne : opt L Hf ≠ [] := by
          intro h; apply hfe; rw [← isEmpty_setEq hf, h]; rfl
        rw [minLen_setEq hv hvne, minLen_setEq hf hfne]
        split
        · rfl
        · split
          · rfl
          · rw [any_setEq (filter_setEq hv _ _ (fun _ => rfl))]
            congr 1; funext xv
            rw [all_setEq (filter_setEq hf _ _ (fun _ => rfl))]
            congr 1; funext xf
            exact ih _ _

/-- the result of an enumeration loop, after superset removal in any form, meets the contract:
its inclusion-minimal members are exactly `famMin` (restating `minimal_of_enum` with the loop's
invariants from `enumLoop_spec`) -/
theorem C11_loop_meets_contract {L : List Cond} {H : List World} (o : Oracle L H) (s : List Cond) :
    let res := enumLoop o (unblockedCount L H [] + 1) []
    (s ∈ res ∧ ∀ t ∈ res, subsetL t s = true → t = s) ↔ s ∈ famMin L H := by
  intro res
  obtain ⟨hreal, hcov⟩ := enumLoop_spec o (unblockedCount L H [] + 1) [] (Nat.lt_succ_self _) (by simp)
  exact minimal_of_enum res hreal hcov s

end InfOCF
