import InfOCFModel.Budget
/-!
# C14  Time budgets never produce an unflagged wrong answer
-/
namespace InfOCF

/-- **fail-stop**: whatever the schedule, a run either raises `TimeoutError` or returns exactly what the
run without any expiry returns; it never ends in another exception -/
theorem C14_failstop {α} (σ : Schedule) : ∀ (p : Prog α) (i j i' j' : Nat),
    p.run σ i j = .timeout ∨ p.run σ i j = p.run Schedule.none i' j' := by
  intro p
  induction p with
  | ret a => intro i j i' j'; right; rfl
  | poll next ih =>
    intro i j i' j'
    simp only [Prog.run, Schedule.none]
    split
    · left; rfl
    · simpa [Schedule.none] using ih (i + 1) j (i' + 1) j'
  | solve v s u ihs ihu =>
    intro i j i' j'
    simp only [Prog.run, Schedule.none]
    split
    · left; rfl
    · cases v
      · simpa [Schedule.none] using ihu i (j + 1) i' (j' + 1)
      · simpa [Schedule.none] using ihs i (j + 1) i' (j' + 1)

theorem run_none_val {α} : ∀ (p : Prog α) (i j : Nat), ∃ a, p.run Schedule.none i j = .val a := by
  intro p
  induction p with
  | ret a => intro i j; exact ⟨a, rfl⟩
  | poll next ih => intro i j; simpa [Prog.run, Schedule.none] using ih (i + 1) j
  | solve v s u ihs ihu =>
    intro i j
    cases v
    · simpa [Prog.run, Schedule.none] using ihu i (j + 1)
    · simpa [Prog.run, Schedule.none] using ihs i (j + 1)

/-- **rows**: under every schedule a query's row exists (no exception escapes), and it is either flagged
with answer False or equal to the row of the run without budgets -/
theorem C14_rows_failstop (σ : Schedule) (p : Prog Bool) :
    ∃ r r0, rowOfRes (p.run σ 0 0) = some r ∧ rowOfRes (p.run Schedule.none 0 0) = some r0 ∧
      r0.flagged = false ∧ ((r.flagged = true ∧ r.result = false) ∨ r = r0) := by
  obtain ⟨a, ha⟩ := run_none_val p 0 0
  rcases C14_failstop σ p 0 0 0 0 with h | h
  · exact ⟨⟨false, true, false⟩, ⟨a, false, false⟩, by rw [h]; rfl, by rw [ha]; rfl, rfl, Or.inl ⟨rfl, rfl⟩⟩
  · exact ⟨⟨a, false, false⟩, ⟨a, false, false⟩, by rw [h, ha]; rfl, by rw [ha]; rfl, rfl, Or.inr rfl⟩

theorem preStep_good (P : Option (List (List Cond))) (preProg : Prog Unit) (σpre : Schedule) (s : BState)
    (hs : s.pre = none ∨ s.pre = some P) :
    (preStep P preProg σpre s).pre = none ∨ (preStep P preProg σpre s).pre = some P := by
  unfold preStep
  rcases hs with h | h
  · rw [h]
    cases preProg.run σpre 0 0 <;> simp [h]
  · rw [h]; simp [h]

def RowOk (q : Prog Bool × Schedule) (r : BRow) : Prop :=
  (r.flagged = true ∧ r.result = false) ∨ rowOfRes (q.1.run Schedule.none 0 0) = some r

theorem queryRows_ok : ∀ (qs : List (Prog Bool × Schedule)), ∃ rows, queryRows qs = some rows ∧ rows.length = qs.length ∧
    ∀ (i : Nat) (r : BRow), rows[i]? = some r → ∃ q : Prog Bool × Schedule, qs[i]? = some q ∧ RowOk q r := by
  intro qs
  induction qs with
  | nil => exact ⟨[], rfl, rfl, by intro i r h; simp at h⟩
  | cons q rest ih =>
    obtain ⟨rows, h1, h2, h3⟩ := ih
    obtain ⟨r, r0, hr, hr0, _, hcase⟩ := C14_rows_failstop q.2 q.1
    refine ⟨r :: rows, ?_, by simp [h2], ?_⟩
    · simp only [queryRows, hr, h1]
    · intro i r' hi
      cases i with
      | zero =>
        simp only [List.getElem?_cons_zero, Option.some.injEq] at hi
        subst hi
        refine ⟨q, rfl, ?_⟩
        rcases hcase with h | h
        · exact Or.inl h
        · right; rw [h]; exact hr0
      | succ i =>
        simp only [List.getElem?_cons_succ] at hi ⊢
        exact h3 i r' hi

/-- **whole call and state**: every row of a call is flagged-False or equal to the fault-free row, no
exception escapes, and the cache afterwards is empty or holds the fault-free preprocessing result — so
later calls on the same manager are unaffected (C13_history applies to them) -/
theorem C14_state_good (P : Option (List (List Cond))) (preProg : Prog Unit) (σpre : Schedule)
    (queries : List (Prog Bool × Schedule)) (s : BState) (hs : s.pre = none ∨ s.pre = some P) :
    ((bcall P preProg σpre queries s).1.pre = none ∨ (bcall P preProg σpre queries s).1.pre = some P) ∧
    ∃ rows, (bcall P preProg σpre queries s).2 = some rows ∧ rows.length = queries.length ∧
      ∀ (i : Nat) (r : BRow), rows[i]? = some r → ∃ q : Prog Bool × Schedule, queries[i]? = some q ∧ RowOk q r := by
  have hgood := preStep_good P preProg σpre s hs
  unfold bcall
  simp only
  split
  · refine ⟨hgood, _, rfl, by simp, ?_⟩
    intro i r hr
    simp only [List.getElem?_map] at hr
    cases hq : queries[i]? with
    | none => simp [hq] at hr
    | some q =>
      simp only [hq, Option.map_some, Option.some.injEq] at hr
      exact ⟨q, rfl, Or.inl (by subst hr; exact ⟨rfl, rfl⟩)⟩
  · exact ⟨hgood, queryRows_ok queries⟩

/-- effective budgets never exceed the total budget -/
theorem C14_budget_le_total (total pre inf : Nat) (preTimeMs : Int) (ht : total ≠ 0) :
    effPre total pre ≤ total ∧ effInfMs total inf preTimeMs ≤ (total : Int) * 1000 - preTimeMs := by
  constructor
  · unfold effPre
    by_cases hp : pre ≠ 0
    · simp only [ne_eq, ht, not_false_eq_true, hp, and_self, ↓reduceIte]; exact Nat.min_le_left _ _
    · simp only [ne_eq, ht, not_false_eq_true, hp, and_false, ↓reduceIte]; exact Nat.le_refl _
  · unfold effInfMs
    by_cases hi : inf ≠ 0
    · simp only [ne_eq, ht, not_false_eq_true, hi, and_self, ↓reduceIte]; exact Int.min_le_left _ _
    · simp only [ne_eq, ht, not_false_eq_true, hi, and_false, ↓reduceIte]; exact Int.le_refl _

/-- the z3 loops before the repair: a single `unknown` verdict makes an exception escape -/
theorem C14_unknown_as_sat_wrong :
    let p : Prog Bool := .solve true (.solve false (.ret true) (.ret false)) (.ret true)
    let σ : Schedule := ⟨fun _ => false, fun j => j == 1⟩
    rowOfRes (p.runOld σ 0 0) = none ∧ rowOfRes (p.run σ 0 0) = some ⟨false, true, false⟩ ∧
    rowOfRes (p.run Schedule.none 0 0) = some ⟨false, false, false⟩ := by
  decide

end InfOCF
