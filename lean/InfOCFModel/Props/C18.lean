import InfOCFModel.Rank
/-!
# C18  Ranking-function operations obey their defining laws for every ranking
-/
namespace InfOCF

/-! ### formula rank -/

def frStep (κ : World → Nat) (φ : Fm) (acc : Option Nat) (w : World) : Option Nat :=
  if φ.eval w then
    match acc with
    | none => some (κ w)
    | some m => if κ w < m then some (κ w) else some m
  else acc

theorem formulaRank_eq_foldl (Ω : List World) (κ : World → Nat) (φ : Fm) :
    formulaRank Ω κ φ = Ω.foldl (frStep κ φ) none := rfl

theorem frFold_none (κ : World → Nat) (φ : Fm) : ∀ (l : List World) (acc : Option Nat),
    l.foldl (frStep κ φ) acc = none ↔ acc = none ∧ ∀ w ∈ l, φ.eval w = false := by
  intro l
  induction l with
  | nil => intro acc; simp
  | cons a t ih =>
    intro acc
    simp only [List.foldl_cons, ih, List.mem_cons, forall_eq_or_imp]
    unfold frStep
    cases ha : φ.eval a
    · simp
    · cases acc with
      | none => simp
      | some m => simp only [↓reduceIte]; split <;> simp

theorem frFold_some (κ : World → Nat) (φ : Fm) : ∀ (l : List World) (acc : Option Nat) (m : Nat),
    l.foldl (frStep κ φ) acc = some m ↔
      ((acc = some m ∨ ∃ w ∈ l, φ.eval w = true ∧ κ w = m) ∧
       (∀ a, acc = some a → m ≤ a) ∧ ∀ w ∈ l, φ.eval w = true → m ≤ κ w) := by
  intro l
  induction l with
  | nil =>
    intro acc m
    simp only [List.foldl_nil, List.not_mem_nil, false_and, exists_false, or_false, false_imp_iff, implies_true, and_true]
    constructor
    · intro h; exact ⟨h, fun a ha => by rw [h] at ha; cases ha; exact Nat.le_refl _⟩
    · intro h; exact h.1
  | cons x t ih =>
    intro acc m
    simp only [List.foldl_cons]
    rw [ih]
    unfold frStep
    cases hx : φ.eval x
    · simp only [Bool.false_eq_true, ↓reduceIte, List.mem_cons, exists_eq_or_imp, hx, false_and, false_or,
        forall_eq_or_imp, false_imp_iff, true_and]
    · simp only [↓reduceIte, List.mem_cons, exists_eq_or_imp, hx, true_and, forall_eq_or_imp, forall_const]
      cases acc with
      | none =>
        simp only [Option.some.injEq, reduceCtorEq, false_or, false_imp_iff, implies_true, true_and]
        constructor
        · rintro ⟨h1, h2, h3⟩
          refine ⟨?_, ?_, h3⟩
          · rcases h1 with h | h
            · exact Or.inl h
            · exact Or.inr h
          · exact h2 _ rfl
        · rintro ⟨h1, h2, h3⟩
          refine ⟨?_, ?_, h3⟩
          · rcases h1 with h | h
            · exact Or.inl h
            · exact Or.inr h
          · intro a ha; subst ha; exact h2
      | some a0 =>
        by_cases hlt : κ x < a0
        · simp only [hlt, ↓reduceIte, Option.some.injEq]
          constructor
          · rintro ⟨h1, h2, h3⟩
            have hm := h2 _ rfl
            refine ⟨?_, ?_, hm, h3⟩
            · rcases h1 with h | h
              · exact Or.inr (Or.inl h)
              · exact Or.inr (Or.inr h)
            · intro a ha; subst ha; omega
          · rintro ⟨h1, h2, h3, h4⟩
            refine ⟨?_, ?_, h4⟩
            · rcases h1 with h | h | h
              · have := h2 _ rfl; subst h; omega
              · exact Or.inl h
              · exact Or.inr h
            · intro a ha; subst ha; exact h3
        · simp only [hlt, ↓reduceIte, Option.some.injEq]
          constructor
          · rintro ⟨h1, h2, h3⟩
            have hm := h2 _ rfl
            refine ⟨?_, ?_, by omega, h3⟩
            · rcases h1 with h | h
              · exact Or.inl h
              · exact Or.inr (Or.inr h)
            · intro a ha; subst ha; exact hm
          · rintro ⟨h1, h2, h3, h4⟩
            refine ⟨?_, ?_, h4⟩
            · rcases h1 with h | h | h
              · exact Or.inl h
              · have := h2 _ rfl; left; omega
              · exact Or.inr h
            · intro a ha; subst ha; exact h2 _ rfl

/-- **the rank of a formula is undefined exactly when it has no model** -/
theorem C18_formulaRank_none (Ω : List World) (κ : World → Nat) (φ : Fm) :
    formulaRank Ω κ φ = none ↔ ∀ w ∈ Ω, φ.eval w = false := by
  rw [formulaRank_eq_foldl, frFold_none]; simp

/-- **… and otherwise it is the least rank of its models** -/
theorem C18_formulaRank_min (Ω : List World) (κ : World → Nat) (φ : Fm) (m : Nat) :
    formulaRank Ω κ φ = some m ↔
      (∃ w ∈ Ω, φ.eval w = true ∧ κ w = m) ∧ ∀ w ∈ Ω, φ.eval w = true → m ≤ κ w := by
  rw [formulaRank_eq_foldl, frFold_some]; simp

/-- **acceptance**: accepted exactly when the rank of `A∧B` is defined and smaller than that of `A∧¬B`
(or the latter is undefined) — i.e. some verifying world lies strictly below every falsifying one -/
theorem C18_accept_iff (Ω : List World) (κ : World → Nat) (c : Cond) :
    acceptCode Ω κ c = true ↔ Accepts Ω κ c := by
  have ev1 : ∀ w, (Fm.and c.ante c.cons).eval w = c.ver w := fun w => rfl
  have ev2 : ∀ w, (Fm.and c.ante (.neg c.cons)).eval w = c.fal w := fun w => rfl
  unfold acceptCode Accepts
  cases hv : formulaRank Ω κ (.and c.ante c.cons) with
  | none =>
    have := (C18_formulaRank_none Ω κ _).mp hv
    simp only [Bool.false_eq_true, false_iff, not_exists, not_and]
    intro w hw hver
    rw [← ev1, this w hw] at hver; cases hver
  | some v =>
    obtain ⟨⟨wv, hwv, hev, hκ⟩, hvmin⟩ := (C18_formulaRank_min Ω κ _ v).mp hv
    cases hf : formulaRank Ω κ (.and c.ante (.neg c.cons)) with
    | none =>
      have hnf := (C18_formulaRank_none Ω κ _).mp hf
      simp only [true_iff]
      refine ⟨wv, hwv, by rw [← ev1]; exact hev, ?_⟩
      intro w' hw' hfal
      rw [← ev2, hnf w' hw'] at hfal; cases hfal
    | some f =>
      obtain ⟨⟨wf, hwf, hef, hκf⟩, hfmin⟩ := (C18_formulaRank_min Ω κ _ f).mp hf
      simp only [decide_eq_true_eq]
      constructor
      · intro hlt
        refine ⟨wv, hwv, by rw [← ev1]; exact hev, ?_⟩
        intro w' hw' hfal
        have := hfmin w' hw' (by rw [ev2]; exact hfal)
        omega
      · rintro ⟨w, hw, hver, hall⟩
        have h1 := hvmin w hw (by rw [ev1]; exact hver)
        have h2 := hall wf hwf (by rw [← ev2]; exact hef)
        omega

/-! ### marginalisation -/

def mlookup (acc : List (World × Nat)) (v : World) : Option Nat := (acc.find? (·.1 == v)).map (·.2)

def margStep (κ : World → Nat) (drop : List Nat) (acc : List (World × Nat)) (w : World) : List (World × Nat) :=
  let v := project drop w
  match acc.find? (·.1 == v) with
  | none => acc ++ [(v, κ w)]
  | some _ => acc.map fun p => if p.1 == v then (p.1, min p.2 (κ w)) else p

theorem marginalize_eq_foldl (Ω : List World) (κ : World → Nat) (drop : List Nat) :
    marginalize Ω κ drop = Ω.foldl (margStep κ drop) [] := rfl

theorem mlookup_append_single (acc : List (World × Nat)) (u v : World) (r : Nat) :
    mlookup (acc ++ [(u, r)]) v = match mlookup acc v with
      | some a => some a
      | none => if u == v then some r else none := by
  unfold mlookup
  rw [List.find?_append]
  cases h : acc.find? (·.1 == v) with
  | some p => simp
  | none =>
    simp only [Option.none_or, List.find?_cons, List.find?_nil, Option.map_none]
    by_cases huv : (u == v) = true
    · simp [huv]
    · simp [huv]

theorem mlookup_map_update (acc : List (World × Nat)) (u v : World) (g : Nat → Nat) :
    mlookup (acc.map fun p => if p.1 == u then (p.1, g p.2) else p) v =
      if u == v then (mlookup acc v).map g else mlookup acc v := by
  unfold mlookup
  induction acc with
  | nil => simp
  | cons p t ih =>
    simp only [List.map_cons, List.find?_cons]
    by_cases hpu : (p.1 == u) = true
    · have hpu' : p.1 = u := by simpa using hpu
      by_cases huv : (u == v) = true
      · have huv' : u = v := by simpa using huv
        simp [hpu, hpu', huv']
      · have hne : ¬ (p.1 == v) = true := by
          intro h; apply huv; have : p.1 = v := by simpa using h
          simp [← hpu', this]
        simp only [hpu, ↓reduceIte, hne, Bool.false_eq_true, huv] at ih ⊢
        exact ih
    · simp only [hpu, Bool.false_eq_true, ↓reduceIte]
      by_cases hpv : (p.1 == v) = true
      · have hne : ¬ (u == v) = true := by
          intro h; apply hpu
          have h1 : u = v := by simpa using h
          have h2 : p.1 = v := by simpa using hpv
          simp [h1, h2]
        simp [hpv, hne]
      · simp only [hpv, Bool.false_eq_true, ↓reduceIte]
        exact ih

theorem mlookup_margStep (κ : World → Nat) (drop : List Nat) (acc : List (World × Nat)) (w v : World) :
    mlookup (margStep κ drop acc w) v =
      if project drop w = v then
        (match mlookup acc v with | none => some (κ w) | some a => some (min a (κ w)))
      else mlookup acc v := by
  unfold margStep
  cases hf : acc.find? (·.1 == project drop w) with
  | none =>
    simp only [hf]
    rw [mlookup_append_single]
    by_cases hv : project drop w = v
    · subst hv
      have : mlookup acc (project drop w) = none := by simp [mlookup, hf]
      simp [this]
    · have hv' : (project drop w == v) = false := by simpa using hv
      simp only [hv', Bool.false_eq_true, ↓reduceIte, hv]
      cases mlookup acc v <;> rfl
  | some p0 =>
    simp only [hf]
    rw [mlookup_map_update acc (project drop w) v (fun x => min x (κ w))]
    by_cases hv : project drop w = v
    · subst hv
      have hsome : mlookup acc (project drop w) = some p0.2 := by simp [mlookup, hf]
      simp [hsome]
    · have hv' : (project drop w == v) = false := by simpa using hv
      simp [hv', hv]

theorem margFold_none (κ : World → Nat) (drop : List Nat) (v : World) : ∀ (l : List World) (acc : List (World × Nat)),
    mlookup (l.foldl (margStep κ drop) acc) v = none ↔ mlookup acc v = none ∧ ∀ w ∈ l, project drop w ≠ v := by
  intro l
  induction l with
  | nil => intro acc; simp
  | cons a t ih =>
    intro acc
    simp only [List.foldl_cons, ih, List.mem_cons, forall_eq_or_imp, mlookup_margStep]
    by_cases ha : project drop a = v
    · simp only [ha, ↓reduceIte, ne_eq, not_true_eq_false, false_and, and_false, iff_false, not_and]
      intro h; cases hm : mlookup acc v <;> simp [hm] at h
    · simp [ha]

theorem margFold_some (κ : World → Nat) (drop : List Nat) (v : World) :
    ∀ (l : List World) (acc : List (World × Nat)) (m : Nat),
    mlookup (l.foldl (margStep κ drop) acc) v = some m ↔
      ((mlookup acc v = some m ∨ ∃ w ∈ l, project drop w = v ∧ κ w = m) ∧
       (∀ a, mlookup acc v = some a → m ≤ a) ∧ ∀ w ∈ l, project drop w = v → m ≤ κ w) := by
  intro l
  induction l with
  | nil =>
    intro acc m
    simp only [List.foldl_nil, List.not_mem_nil, false_and, exists_false, or_false, false_imp_iff, implies_true, and_true]
    constructor
    · intro h; exact ⟨h, fun a ha => by rw [h] at ha; cases ha; exact Nat.le_refl _⟩
    · intro h; exact h.1
  | cons x t ih =>
    intro acc m
    simp only [List.foldl_cons]
    rw [ih, mlookup_margStep]
    by_cases hx : project drop x = v
    · simp only [hx, ↓reduceIte, List.mem_cons, exists_eq_or_imp, true_and, forall_eq_or_imp, forall_const]
      cases hacc : mlookup acc v with
      | none =>
        simp only [Option.some.injEq, reduceCtorEq, false_or, false_imp_iff, implies_true, true_and]
        constructor
        · rintro ⟨h1, h2, h3⟩
          exact ⟨h1, h2 _ rfl, h3⟩
        · rintro ⟨h1, h2, h3⟩
          exact ⟨h1, fun a ha => by subst ha; exact h2, h3⟩
      | some a0 =>
        simp only [Option.some.injEq]
        constructor
        · rintro ⟨h1, h2, h3⟩
          have hm := h2 _ rfl
          refine ⟨?_, fun a ha => by subst ha; omega, by omega, h3⟩
          rcases h1 with h | h
          · by_cases hle : a0 ≤ κ x
            · left; omega
            · right; left; omega
          · exact Or.inr (Or.inr h)
        · rintro ⟨h1, h2, h3, h4⟩
          have ha0 := h2 _ rfl
          refine ⟨?_, fun a ha => by subst ha; omega, h4⟩
          rcases h1 with h | h | h
          · left; omega
          · left; omega
          · exact Or.inr h
    · simp only [hx, ↓reduceIte, List.mem_cons, exists_eq_or_imp, false_and, false_or, forall_eq_or_imp,
        false_imp_iff, true_and]

/-- **marginalisation**: each remaining world gets the least rank of its extensions -/
theorem C18_marginalize_spec (Ω : List World) (κ : World → Nat) (drop : List Nat) (v : World) :
    (mlookup (marginalize Ω κ drop) v = none ↔ ∀ w ∈ Ω, project drop w ≠ v) ∧
    ∀ m, mlookup (marginalize Ω κ drop) v = some m ↔
      (∃ w ∈ Ω, project drop w = v ∧ κ w = m) ∧ ∀ w ∈ Ω, project drop w = v → m ≤ κ w := by
  rw [marginalize_eq_foldl]
  refine ⟨by rw [margFold_none]; simp [mlookup], fun m => by rw [margFold_some]; simp [mlookup]⟩

/-- the worlds of the marginal object are exactly the projections -/
theorem marginal_keys (Ω : List World) (κ : World → Nat) (drop : List Nat) (v : World) :
    (∃ r, (v, r) ∈ marginalize Ω κ drop ∧ mlookup (marginalize Ω κ drop) v = some r) ↔ ∃ w ∈ Ω, project drop w = v := by
  constructor
  · rintro ⟨r, _, hr⟩
    obtain ⟨⟨w, hw, hp, _⟩, _⟩ := ((C18_marginalize_spec Ω κ drop v).2 r).mp hr
    exact ⟨w, hw, hp⟩
  · rintro ⟨w, hw, hp⟩
    cases hl : mlookup (marginalize Ω κ drop) v with
    | none => exact absurd hp ((C18_marginalize_spec Ω κ drop v).1.mp hl w hw)
    | some r =>
      refine ⟨r, ?_, rfl⟩
      unfold mlookup at hl
      cases hf : (marginalize Ω κ drop).find? (·.1 == v) with
      | none => simp [hf] at hl
      | some p =>
        simp only [hf, Option.map_some, Option.some.injEq] at hl
        have hmem := List.mem_of_find?_eq_some hf
        have hkey : p.1 = v := by simpa using List.find?_some hf
        rw [← hkey, ← hl]; exact hmem

/-- **ranks of formulas over the remaining atoms are preserved**: for any property `p` of marginal worlds,
`m` is the least marginal rank of a `p`-world iff it is the least rank of a world whose projection has `p` -/
theorem C18_marginal_formula_rank (Ω : List World) (κ : World → Nat) (drop : List Nat) (p : World → Bool) (m : Nat) :
    ((∃ v, p v = true ∧ mlookup (marginalize Ω κ drop) v = some m) ∧
      ∀ v r, p v = true → mlookup (marginalize Ω κ drop) v = some r → m ≤ r) ↔
    ((∃ w ∈ Ω, p (project drop w) = true ∧ κ w = m) ∧ ∀ w ∈ Ω, p (project drop w) = true → m ≤ κ w) := by
  constructor
  · rintro ⟨⟨v, hpv, hv⟩, hall⟩
    obtain ⟨⟨w, hw, hpw, hκ⟩, _⟩ := ((C18_marginalize_spec Ω κ drop v).2 m).mp hv
    refine ⟨⟨w, hw, by rw [hpw]; exact hpv, hκ⟩, ?_⟩
    intro w' hw' hp'
    cases hl : mlookup (marginalize Ω κ drop) (project drop w') with
    | none => exact absurd rfl ((C18_marginalize_spec Ω κ drop _).1.mp hl w' hw')
    | some r =>
      have h1 := hall _ r hp' hl
      have h2 := (((C18_marginalize_spec Ω κ drop _).2 r).mp hl).2 w' hw' rfl
      omega
  · rintro ⟨⟨w, hw, hpw, hκ⟩, hall⟩
    cases hl : mlookup (marginalize Ω κ drop) (project drop w) with
    | none => exact absurd rfl ((C18_marginalize_spec Ω κ drop _).1.mp hl w hw)
    | some r =>
      obtain ⟨⟨w2, hw2, hp2, hκ2⟩, hmin⟩ := ((C18_marginalize_spec Ω κ drop _).2 r).mp hl
      have h1 := hmin w hw rfl
      have h2 := hall w2 hw2 (by rw [hp2]; exact hpw)
      have : r = m := by omega
      subst this
      refine ⟨⟨_, hpw, hl⟩, ?_⟩
      intro v r' hpv hv
      obtain ⟨⟨w3, hw3, hp3, hκ3⟩, _⟩ := ((C18_marginalize_spec Ω κ drop v).2 r').mp hv
      have := hall w3 hw3 (by rw [hp3]; exact hpv)
      omega

/-! ### conditionalisation -/

/-- **conditionalisation returns exactly the satisfying worlds with their ranks** -/
theorem C18_conditionalize_spec (Ω : List World) (κ : World → Nat) (φ : Fm) (w : World) (r : Nat) :
    (w, r) ∈ conditionalize Ω κ φ ↔ w ∈ Ω ∧ φ.eval w = true ∧ r = κ w := by
  simp only [conditionalize, List.mem_map, List.mem_filter, Prod.mk.injEq]
  constructor
  · rintro ⟨w', ⟨hw', he⟩, rfl, rfl⟩; exact ⟨hw', he, rfl⟩
  · rintro ⟨hw, he, rfl⟩; exact ⟨w, ⟨hw, he⟩, rfl, rfl⟩

/-! ### ranks ↔ layered total preorder -/

def SSorted : List Nat → Prop
  | [] => True
  | a :: rest => (∀ b ∈ rest, a < b) ∧ SSorted rest

theorem mem_insertNat (a : Nat) (l : List Nat) (x : Nat) : x ∈ insertNat a l ↔ x = a ∨ x ∈ l := by
  induction l with
  | nil => simp [insertNat]
  | cons b rest ih =>
    simp only [insertNat]
    split
    · simp
    · split
      · rename_i hab
        have : a = b := by simpa using hab
        subst this; simp
      · simp only [List.mem_cons, ih]
        constructor
        · rintro (h | h | h)
          · exact Or.inr (Or.inl h)
          · exact Or.inl h
          · exact Or.inr (Or.inr h)
        · rintro (h | h | h)
          · exact Or.inr (Or.inl h)
          · exact Or.inl h
          · exact Or.inr (Or.inr h)

theorem insertNat_sorted (a : Nat) (l : List Nat) (h : SSorted l) : SSorted (insertNat a l) := by
  induction l with
  | nil => simp [insertNat, SSorted]
  | cons b rest ih =>
    obtain ⟨hb, hrest⟩ := h
    simp only [insertNat]
    split
    · rename_i hlt
      refine ⟨?_, hb, hrest⟩
      intro c hc
      rcases List.mem_cons.mp hc with rfl | hc'
      · exact hlt
      · exact Nat.lt_trans hlt (hb c hc')
    · rename_i hnlt
      split
      · exact ⟨hb, hrest⟩
      · rename_i hne
        have hne' : a ≠ b := by simpa using hne
        refine ⟨?_, ih hrest⟩
        intro c hc
        rcases (mem_insertNat a rest c).mp hc with rfl | hc'
        · omega
        · exact hb c hc'

theorem distinctFold_spec (κ : World → Nat) : ∀ (l : List World) (acc : List Nat), SSorted acc →
    SSorted (l.foldl (fun acc w => insertNat (κ w) acc) acc) ∧
    ∀ x, x ∈ l.foldl (fun acc w => insertNat (κ w) acc) acc ↔ (x ∈ acc ∨ ∃ w ∈ l, κ w = x) := by
  intro l
  induction l with
  | nil => intro acc h; simp [h]
  | cons a t ih =>
    intro acc h
    simp only [List.foldl_cons]
    obtain ⟨h1, h2⟩ := ih (insertNat (κ a) acc) (insertNat_sorted _ _ h)
    refine ⟨h1, ?_⟩
    intro x
    rw [h2, mem_insertNat]
    simp only [List.mem_cons, exists_eq_or_imp]
    constructor
    · rintro ((h | h) | h)
      · exact Or.inr (Or.inl h.symm)
      · exact Or.inl h
      · exact Or.inr (Or.inr h)
    · rintro (h | h | h)
      · exact Or.inl (Or.inr h)
      · exact Or.inl (Or.inl h.symm)
      · exact Or.inr h

theorem distinctRanks_spec (Ω : List World) (κ : World → Nat) :
    SSorted (distinctRanks Ω κ) ∧ ∀ x, x ∈ distinctRanks Ω κ ↔ ∃ w ∈ Ω, κ w = x := by
  have := distinctFold_spec κ Ω [] trivial
  exact ⟨this.1, fun x => by rw [distinctRanks, this.2]; simp⟩

theorem ssorted_get_lt : ∀ (l : List Nat), SSorted l → ∀ (i j a b : Nat), i < j → l[i]? = some a → l[j]? = some b → a < b := by
  intro l
  induction l with
  | nil => intro _ i j a b _ h; simp at h
  | cons x t ih =>
    intro hs i j a b hij hi hj
    obtain ⟨hx, ht⟩ := hs
    cases j with
    | zero => omega
    | succ j =>
      simp only [List.getElem?_cons_succ] at hj
      cases i with
      | zero =>
        simp only [List.getElem?_cons_zero, Option.some.injEq] at hi
        subst hi
        exact hx b (List.mem_of_getElem? hj)
      | succ i =>
        simp only [List.getElem?_cons_succ] at hi
        exact ih ht i j a b (by omega) hi hj

theorem ssorted_get_inj (l : List Nat) (h : SSorted l) (i j a : Nat) (hi : l[i]? = some a) (hj : l[j]? = some a) : i = j := by
  rcases Nat.lt_trichotomy i j with hlt | heq | hgt
  · have := ssorted_get_lt l h i j a a hlt hi hj; omega
  · exact heq
  · have := ssorted_get_lt l h j i a a hgt hj hi; omega

/-- **`ranks2tpo`**: layer `i` consists of exactly the worlds whose rank is the `i`-th distinct rank, and
the distinct ranks are strictly ascending -/
theorem C18_tpo_layers (Ω : List World) (κ : World → Nat) (i : Nat) (L : List World) :
    (ranks2tpo Ω κ)[i]? = some L ↔ ∃ d, (distinctRanks Ω κ)[i]? = some d ∧ L = Ω.filter fun w => κ w == d := by
  simp only [ranks2tpo, List.getElem?_map]
  cases h : (distinctRanks Ω κ)[i]? with
  | none => simp
  | some d =>
    simp only [Option.map_some, Option.some.injEq, exists_eq_left']
    exact eq_comm

theorem mem_tpo2ranks (Ω : List World) (κ : World → Nat) (f : Nat → Nat) (w : World) (r : Nat) :
    (w, r) ∈ tpo2ranks (ranks2tpo Ω κ) f ↔
      ∃ i d, (distinctRanks Ω κ)[i]? = some d ∧ w ∈ Ω ∧ κ w = d ∧ r = f i := by
  simp only [tpo2ranks, List.mem_flatMap, List.mem_map, Prod.mk.injEq]
  constructor
  · rintro ⟨⟨L, i⟩, hp, w', hw', rfl, rfl⟩
    have hL := List.mk_mem_zipIdx_iff_getElem?.mp hp
    obtain ⟨d, hd, rfl⟩ := (C18_tpo_layers Ω κ i L).mp hL
    simp only [List.mem_filter, beq_iff_eq] at hw'
    exact ⟨i, d, hd, hw'.1, hw'.2, rfl⟩
  · rintro ⟨i, d, hd, hw, hκ, rfl⟩
    refine ⟨(Ω.filter fun w => κ w == d, i), ?_, w, ?_, rfl, rfl⟩
    · apply List.mk_mem_zipIdx_iff_getElem?.mpr
      exact (C18_tpo_layers Ω κ i _).mpr ⟨d, hd, rfl⟩
    · simp [List.mem_filter, hw, hκ]

/-- **round trip, exact**: numbering the layers by their ranks gives back exactly the ranks -/
theorem C18_tpo_roundtrip_exact (Ω : List World) (κ : World → Nat) (f : Nat → Nat)
    (hf : ∀ i d, (distinctRanks Ω κ)[i]? = some d → f i = d) (w : World) (r : Nat) :
    (w, r) ∈ tpo2ranks (ranks2tpo Ω κ) f ↔ w ∈ Ω ∧ r = κ w := by
  rw [mem_tpo2ranks]
  constructor
  · rintro ⟨i, d, hd, hw, hκ, rfl⟩
    exact ⟨hw, by rw [hf i d hd, hκ]⟩
  · rintro ⟨hw, rfl⟩
    obtain ⟨i, hi⟩ := List.mem_iff_getElem?.mp (((distinctRanks_spec Ω κ).2 (κ w)).mpr ⟨w, hw, rfl⟩)
    exact ⟨i, κ w, hi, hw, rfl, (hf i _ hi).symm⟩

/-- **round trip, order**: for any strictly increasing layer numbering the order of worlds is preserved -/
theorem C18_tpo_roundtrip_order (Ω : List World) (κ : World → Nat) (f : Nat → Nat)
    (hf : ∀ i j, i < j → f i < f j) (w1 w2 : World) (r1 r2 : Nat)
    (h1 : (w1, r1) ∈ tpo2ranks (ranks2tpo Ω κ) f) (h2 : (w2, r2) ∈ tpo2ranks (ranks2tpo Ω κ) f) :
    (r1 < r2 ↔ κ w1 < κ w2) ∧ (r1 = r2 ↔ κ w1 = κ w2) := by
  obtain ⟨i, d1, hd1, _, hκ1, rfl⟩ := (mem_tpo2ranks Ω κ f w1 r1).mp h1
  obtain ⟨j, d2, hd2, _, hκ2, rfl⟩ := (mem_tpo2ranks Ω κ f w2 r2).mp h2
  have hs := (distinctRanks_spec Ω κ).1
  rw [hκ1, hκ2]
  rcases Nat.lt_trichotomy i j with hlt | heq | hgt
  · have a := hf i j hlt
    have b := ssorted_get_lt _ hs i j d1 d2 hlt hd1 hd2
    constructor <;> constructor <;> intro <;> omega
  · subst heq
    have : d1 = d2 := by rw [hd1] at hd2; exact Option.some.inj hd2
    subst this
    constructor <;> constructor <;> intro <;> omega
  · have a := hf j i hgt
    have b := ssorted_get_lt _ hs j i d2 d1 hgt hd2 hd1
    constructor <;> constructor <;> intro <;> omega

/-! non-vacuity: an asymmetric ranking over two atoms -/
section Example
def exκ : World → Nat := fun w => match w with
  | [false, false] => 3 | [true, false] => 1 | [false, true] => 2 | _ => 0
example : formulaRank (allWorlds 2) exκ (.or (.atom 0) (.atom 1)) = some 0 := by decide
example : formulaRank (allWorlds 2) exκ (.and (.atom 0) (.neg (.atom 0))) = none := by decide
example : marginalize (allWorlds 2) exκ [0] = [([false], 1), ([true], 0)] := by decide
example : ranks2tpo (allWorlds 2) exκ = [[[true, true]], [[true, false]], [[false, true]], [[false, false]]] := by decide
end Example

end InfOCF
