import InfOCFModel.RemoveSup
/-!
# C15  CNF encodings are faithful and correction-set enumeration is exact

* z3's `tseitin-cnf` tactic is **not** modelled. Its output is validated per instance: the real clause
  lists go through the executable checker `cnfFaithfulB`, which `C15_cnf_check_sound` proves to
  decide faithfulness (`CnfFaithful`) — every total assignment to the atoms is extendable to a model
  of the clauses exactly when it verifies / falsifies / does not falsify the conditional.
* `get_violated_conditional` with its early exit is exact (`C15_getViolated_exact`).
* For **every** MaxSAT oracle that returns some unblocked feasible world (or `none` iff there is
  none), the blocking loop followed by `remove_supersets` returns exactly the inclusion-minimal
  falsification sets, each once, and nothing when the hard clauses are unsatisfiable
  (`C15_loop_exact`).
-/
namespace InfOCF

theorem mem_allWorlds : ∀ (n : Nat) (w : World), w ∈ allWorlds n ↔ w.length = n := by
  intro n
  induction n with
  | zero => intro w; simp [allWorlds, List.length_eq_zero_iff]
  | succ n ih =>
    intro w
    simp only [allWorlds, List.mem_flatMap, List.mem_cons, List.not_mem_nil, or_false]
    constructor
    · rintro ⟨v, hv, rfl | rfl⟩ <;> simp [(ih v).mp hv]
    · intro h
      cases w with
      | nil => simp at h
      | cons b t =>
        refine ⟨t, (ih t).mpr (by simpa using h), ?_⟩
        cases b <;> simp

theorem C15_cnf_check_sound (n aux : Nat) (F : CNF) (sem : World → Bool) :
    cnfFaithfulB n aux F sem = true ↔ CnfFaithful n aux F sem :=
  cnfFaithful_check_sound n aux F sem

/-- with a faithful non-falsification encoding, a world that falsifies the conditional violates a
clause of it under *every* assignment to the auxiliaries (so its key is reported) -/
theorem C15_falsified_violated (n aux : Nat) (F : CNF) (c : Cond)
    (hF : CnfFaithful n aux F (fun w => !(c.fal w))) (w a : List Bool) (hw : w.length = n) (ha : a.length = aux)
    (hf : c.fal w = true) : cnfSat (w ++ a) F = false := by
  cases h : cnfSat (w ++ a) F with
  | false => rfl
  | true =>
    have := (hF w ((mem_allWorlds n w).mpr hw)).mp ⟨a, (mem_allWorlds aux a).mpr ha, h⟩
    simp [hf] at this

theorem C15_getViolated_exact (model : List Int) (cost : Nat) (ignore : List Nat) (dict : List (Nat × CNF))
    (hcost : violatedCount model (flatClauses ignore dict) ≤ cost) (k : Nat) :
    k ∈ getViolated model cost ignore dict ↔
      ∃ p ∈ flatClauses ignore dict, p.1 = k ∧ clauseViolated model p.2 = true :=
  getViolated_spec model cost ignore dict hcost k

theorem fset_nodup {L : List Cond} (hL : L.Nodup) (w : World) : (fset L w).Nodup :=
  List.Nodup.sublist List.filter_sublist hL

/-- **the enumeration is exact** for every oracle meeting the contract -/
theorem C15_loop_exact {L : List Cond} {H : List World} (hL : L.Nodup) (o : Oracle L H) :
    let R := removeSupersets (enumLoop o (unblockedCount L H [] + 1) [])
    (∀ s, s ∈ R ↔ s ∈ famMin L H) ∧ R.Pairwise (· ≠ ·) ∧ (H = [] → R = []) := by
  intro R
  have hspec := enumLoop_spec o (unblockedCount L H [] + 1) [] (Nat.lt_succ_self _) (by simp)
  obtain ⟨hreal, hcov⟩ := hspec
  have hnd : ∀ s ∈ enumLoop o (unblockedCount L H [] + 1) [], s.Nodup := by
    intro s hs; obtain ⟨w, _, rfl⟩ := hreal s hs; exact fset_nodup hL w
  obtain ⟨h1, h2, h3⟩ := removeSupersets_spec _ hnd
  refine ⟨?_, ?_, ?_⟩
  · intro s
    constructor
    · intro hs
      apply (minimal_of_enum _ hreal hcov s).mp
      refine ⟨h1 s hs, ?_⟩
      intro t ht hts
      obtain ⟨b, hb, hbt⟩ := h2 t ht
      have hbs : b = s := anti_eq_of_subset h3 hb hs (subsetL_trans hbt hts)
      subst hbs
      obtain ⟨wt, _, rfl⟩ := hreal t ht
      obtain ⟨wb, _, rfl⟩ := hreal _ (h1 _ hb)
      exact fset_antisymm hts hbt
    · intro hs
      obtain ⟨hres, hmin⟩ := (minimal_of_enum _ hreal hcov s).mpr hs
      obtain ⟨b, hb, hbs⟩ := h2 s hres
      have := hmin b (h1 b hb) hbs
      subst this
      exact hb
  · exact List.Pairwise.imp (fun {a b} h hab => by subst hab; rw [subsetL_refl] at h; cases h.1) h3
  · intro hH
    subst hH
    have : enumLoop o (unblockedCount L [] [] + 1) [] = [] := by
      simp only [unblockedCount, List.filter_nil, List.length_nil, Nat.zero_add, enumLoop]
      cases hp : o.pick [] with
      | none => rfl
      | some w => have := (o.sound [] w hp).1; simp at this
    show removeSupersets _ = []
    rw [this]; rfl

/-! non-vacuity: a faithful 2-clause encoding of `¬a ∨ b` with one auxiliary, checked by the checker -/
example : cnfFaithfulB 2 1 [[-1, 2, 3], [-3, -1], [-3, 2], [3, -1, 2]]
    (fun w => !((⟨.atom 1, .atom 0, 1⟩ : Cond).fal w)) = true := by decide
example : cnfFaithfulB 2 0 [[2]] (fun w => !((⟨.atom 1, .atom 0, 1⟩ : Cond).fal w)) = false := by decide
example : cnfFaithfulB 2 0 [[-1, 2]] (fun w => !((⟨.atom 1, .atom 0, 1⟩ : Cond).fal w)) = true := by decide

end InfOCF
