import InfOCFModel.Ops
/-! Helper lemmas shared by the property files (wrapper plumbing). -/
namespace InfOCF

theorem all_congr_mem {α} (l : List α) (p q : α → Bool) (h : ∀ x ∈ l, p x = q x) : l.all p = l.all q := by
  induction l with
  | nil => rfl
  | cons a t ih =>
    simp only [List.all_cons]
    rw [h a (by simp), ih (fun x hx => h x (List.mem_cons_of_mem _ hx))]

theorem nofal_nil (w : World) : nofal [] w = true := by simp [nofal]

theorem feasible_nil (Ω : List World) : feasible Ω [] = Ω := by
  simp [feasible, nofal]

/-- a trivial query has no falsifying world -/
theorem trivialQ_no_fal {Ω : List World} {q : Cond} (h : trivialQ Ω q = true) :
    ∀ w ∈ Ω, q.fal w = false := by
  intro w hw
  simp only [trivialQ, Bool.or_eq_true, Bool.not_eq_true', List.any_eq_false] at h
  rcases h with h | h
  · have := h w hw
    simp only [Cond.fal]
    cases ha : q.ante.eval w <;> simp_all
  · have := h w hw
    simpa using this

theorem not_trivialQ_fal {Ω : List World} {q : Cond} (h : trivialQ Ω q = false) :
    ∃ w ∈ Ω, q.fal w = true := by
  simp only [trivialQ, Bool.or_eq_false_iff, Bool.not_eq_false', List.any_eq_true] at h
  exact h.2

theorem partS_nonempty {Ω : List World} {D : List Cond} {P} (hD : D ≠ []) (h : partS Ω D = some P) : P ≠ [] := by
  intro hP
  subst hP
  have := (tolPart_sound Ω D.length D [] h).2
  cases D with
  | nil => exact hD rfl
  | cons a t => have := (this a).mpr (by simp); simp at this

/-- unfolding the wrapper for an accepted non-empty base -/
theorem wrap_some {weakly Ω} {D : List Cond} {q body P} (hD : D ≠ []) (hP : partFor weakly Ω D = some P) :
    wrap weakly Ω D q body =
      if trivialQ Ω q then .val true else .val (body (finLayers weakly P) (feasible Ω (infLayer weakly P))) := by
  cases D with
  | nil => exact absurd rfl hD
  | cons a t => simp only [wrap, hP]

theorem wrap_none {weakly Ω} {D : List Cond} {q body} (hD : D ≠ []) (hP : partFor weakly Ω D = none) :
    wrap weakly Ω D q body = .refuseIncons := by
  cases D with
  | nil => exact absurd rfl hD
  | cons a t => simp only [wrap, hP]

end InfOCF
