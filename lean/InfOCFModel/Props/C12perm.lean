import InfOCFModel.Props.C12
/-!
# C12: the order in which the conditionals are listed does not matter

Two bases that are permutations of each other get partitions whose layers are permutations of each
other (`PartPerm`), and every operator model gives the same answers.
-/
namespace InfOCF

abbrev PartPerm := Rel2 (fun (a b : List Cond) => a.Perm b)

theorem nofal_perm {cs cs' : List Cond} (h : cs.Perm cs') (w : World) : nofal cs' w = nofal cs w := by
  rw [Bool.eq_iff_iff]
  simp only [nofal, List.all_eq_true]
  exact ⟨fun hh c hc => hh c (h.mem_iff.mp hc), fun hh c hc => hh c (h.mem_iff.mpr hc)⟩

theorem tolerated_perm (Ω : List World) {cs cs' : List Cond} (h : cs.Perm cs') (c : Cond) :
    tolerated Ω cs' c = tolerated Ω cs c := by
  simp only [tolerated]; congr 1; funext w; rw [nofal_perm h w]

theorem perm_isEmpty {l l' : List Cond} (h : l.Perm l') : l.isEmpty = l'.isEmpty := by
  have := h.length_eq
  cases l <;> cases l' <;> simp_all

theorem tolPart_perm (Ω : List World) : ∀ (fuel : Nat) {cs cs' : List Cond}, cs.Perm cs' →
    (tolPart Ω fuel cs = none ∧ tolPart Ω fuel cs' = none) ∨
    ∃ P P', tolPart Ω fuel cs = some P ∧ tolPart Ω fuel cs' = some P' ∧ PartPerm P P' := by
  intro fuel
  induction fuel with
  | zero =>
    intro cs cs' h
    cases cs with
    | nil =>
      have : cs' = [] := List.Perm.eq_nil h.symm
      subst this; exact Or.inr ⟨[], [], rfl, rfl, Rel2.nil⟩
    | cons a t =>
      cases cs' with
      | nil => exact absurd (List.Perm.eq_nil h) (by simp)
      | cons b t' => exact Or.inl ⟨rfl, rfl⟩
  | succ n ih =>
    intro cs cs' h
    cases cs with
    | nil =>
      have : cs' = [] := List.Perm.eq_nil h.symm
      subst this; exact Or.inr ⟨[], [], rfl, rfl, Rel2.nil⟩
    | cons a t =>
      cases cs' with
      | nil => exact absurd (List.Perm.eq_nil h) (by simp)
      | cons b t' =>
        have hp : tolerated Ω (b :: t') = tolerated Ω (a :: t) := funext fun c => tolerated_perm Ω h c
        have hR : ((a :: t).filter (tolerated Ω (a :: t))).Perm ((b :: t').filter (tolerated Ω (b :: t'))) := by
          rw [hp]; exact h.filter _
        have hC : ((a :: t).filter fun c => !(tolerated Ω (a :: t) c)).Perm ((b :: t').filter fun c => !(tolerated Ω (b :: t') c)) := by
          rw [hp]; exact h.filter _
        simp only [tolPart]
        have hemp : ((a :: t).filter (tolerated Ω (a :: t))).isEmpty = ((b :: t').filter (tolerated Ω (b :: t'))).isEmpty :=
          perm_isEmpty hR
        rw [← hemp]
        split
        · exact Or.inl ⟨rfl, rfl⟩
        · rcases ih hC with ⟨h1, h2⟩ | ⟨P, P', h1, h2, hP⟩
          · left; simp [h1, h2]
          · right
            exact ⟨_ :: P, _ :: P', by simp [h1], by simp [h2], Rel2.cons hR hP⟩

theorem tolPartExt_perm (Ω : List World) : ∀ (fuel : Nat) {cs cs' : List Cond}, cs.Perm cs' →
    (tolPartExt Ω fuel cs = none ∧ tolPartExt Ω fuel cs' = none) ∨
    ∃ P P', tolPartExt Ω fuel cs = some P ∧ tolPartExt Ω fuel cs' = some P' ∧ PartPerm P P' := by
  intro fuel
  induction fuel with
  | zero =>
    intro cs cs' h
    cases cs with
    | nil =>
      have : cs' = [] := List.Perm.eq_nil h.symm
      subst this; exact Or.inr ⟨[[]], [[]], rfl, rfl, Rel2.cons (List.Perm.refl _) Rel2.nil⟩
    | cons a t =>
      cases cs' with
      | nil => exact absurd (List.Perm.eq_nil h) (by simp)
      | cons b t' => exact Or.inl ⟨rfl, rfl⟩
  | succ n ih =>
    intro cs cs' h
    cases cs with
    | nil =>
      have : cs' = [] := List.Perm.eq_nil h.symm
      subst this; exact Or.inr ⟨[[]], [[]], rfl, rfl, Rel2.cons (List.Perm.refl _) Rel2.nil⟩
    | cons a t =>
      cases cs' with
      | nil => exact absurd (List.Perm.eq_nil h) (by simp)
      | cons b t' =>
        have hp : tolerated Ω (b :: t') = tolerated Ω (a :: t) := funext fun c => tolerated_perm Ω h c
        have hR : ((a :: t).filter (tolerated Ω (a :: t))).Perm ((b :: t').filter (tolerated Ω (b :: t'))) := by
          rw [hp]; exact h.filter _
        have hC : ((a :: t).filter fun c => !(tolerated Ω (a :: t) c)).Perm ((b :: t').filter fun c => !(tolerated Ω (b :: t') c)) := by
          rw [hp]; exact h.filter _
        simp only [tolPartExt]
        have hemp : ((a :: t).filter (tolerated Ω (a :: t))).isEmpty = ((b :: t').filter (tolerated Ω (b :: t'))).isEmpty :=
          perm_isEmpty hR
        have hany : Ω.any (nofal (b :: t')) = Ω.any (nofal (a :: t)) := by
          congr 1; funext w; exact nofal_perm h w
        rw [← hemp, hany]
        split
        · split
          · exact Or.inr ⟨_, _, rfl, rfl, Rel2.cons h Rel2.nil⟩
          · exact Or.inl ⟨rfl, rfl⟩
        · rcases ih hC with ⟨h1, h2⟩ | ⟨P, P', h1, h2, hP⟩
          · left; simp [h1, h2]
          · right
            exact ⟨_ :: P, _ :: P', by simp [h1], by simp [h2], Rel2.cons hR hP⟩

/-- partitions of permuted bases are layer-wise permutations of each other -/
theorem C12_order_invariance_part (weakly : Bool) (Ω : List World) {D D' : List Cond} (h : D.Perm D') :
    (partFor weakly Ω D = none ∧ partFor weakly Ω D' = none) ∨
    ∃ P P', partFor weakly Ω D = some P ∧ partFor weakly Ω D' = some P' ∧ PartPerm P P' := by
  have hl := h.length_eq
  cases weakly
  · simp only [partFor, Bool.false_eq_true, ↓reduceIte, partS]
    rw [← hl]; exact tolPart_perm Ω D.length h
  · simp only [partFor, ↓reduceIte, partE]
    rw [← hl]; exact tolPartExt_perm Ω (D.length + 1) h

/-! the comparisons only look at membership in the layers -/

theorem anyfal_perm {L L' : List Cond} (h : L.Perm L') (w : World) : L'.any (·.fal w) = L.any (·.fal w) := by
  rw [Bool.eq_iff_iff]
  simp only [List.any_eq_true]
  exact ⟨fun ⟨c, hc, hf⟩ => ⟨c, h.mem_iff.mpr hc, hf⟩, fun ⟨c, hc, hf⟩ => ⟨c, h.mem_iff.mp hc, hf⟩⟩

theorem zrk_perm {P P' : List (List Cond)} (h : PartPerm P P') (w : World) : zrk P' w = zrk P w := by
  induction h with
  | nil => rfl
  | cons hL _ ih => simp only [zrk]; rw [ih, anyfal_perm hL w]

theorem forall_mem_perm {L L' : List Cond} (h : L.Perm L') (φ : Cond → Prop) : (∀ c ∈ L', φ c) ↔ (∀ c ∈ L, φ c) :=
  ⟨fun hh c hc => hh c (h.mem_iff.mp hc), fun hh c hc => hh c (h.mem_iff.mpr hc)⟩

theorem wless_perm {T T' : List (List Cond)} (h : PartPerm T T') (w w' : World) : wless T' w w' = wless T w w' := by
  induction h with
  | nil => rfl
  | @cons L L' r r' hL _ ih =>
    simp only [wless]
    have h1 : (fset L' w = fset L' w') ↔ (fset L w = fset L w') := by
      rw [fset_eq_iff, fset_eq_iff]; exact forall_mem_perm hL _
    have h2 : subsetL (fset L' w) (fset L' w') = subsetL (fset L w) (fset L w') := by
      rw [Bool.eq_iff_iff, subset_fset_iff, subset_fset_iff]; exact forall_mem_perm hL _
    by_cases hq : fset L w = fset L w'
    · rw [if_pos hq, if_pos (h1.mpr hq), ih]
    · rw [if_neg hq, if_neg (fun hh => hq (h1.mp hh)), h2]

theorem lexVec_perm {T T' : List (List Cond)} (h : PartPerm T T') (w : World) : lexVec T' w = lexVec T w := by
  induction h with
  | nil => rfl
  | cons hL _ ih =>
    simp only [lexVec, List.map_cons] at ih ⊢
    rw [ih]
    congr 1
    simp only [cnt, fset]
    exact ((hL.filter _).length_eq).symm

theorem feasible_perm {inf inf' : List Cond} (h : inf.Perm inf') (Ω : List World) : feasible Ω inf' = feasible Ω inf := by
  simp only [feasible]; congr 1; funext w; exact nofal_perm h w

theorem finLayers_perm (weakly : Bool) {P P' : List (List Cond)} (h : PartPerm P P') :
    PartPerm (finLayers weakly P) (finLayers weakly P') := by
  cases weakly
  · simpa [finLayers] using h
  · simpa [finLayers] using h.dropLast

theorem infLayer_perm (weakly : Bool) {P P' : List (List Cond)} (h : PartPerm P P') :
    (infLayer weakly P).Perm (infLayer weakly P') := by
  cases weakly
  · exact List.Perm.refl _
  · simp only [infLayer, ↓reduceIte]; exact h.getLastD (List.Perm.refl _)

theorem perm_ne_nil {D D' : List Cond} (h : D.Perm D') (hD : D ≠ []) : D' ≠ [] := by
  intro h'; subst h'; exact hD (List.Perm.eq_nil h)

theorem wrap_perm (weakly : Bool) (Ω : List World) {D D' : List Cond} (h : D.Perm D') (q : Cond)
    (body body' : List (List Cond) → List World → Bool)
    (hb : ∀ fin fin' Ωf, PartPerm fin fin' → body' fin' Ωf = body fin Ωf) :
    wrap weakly Ω D' q body' = wrap weakly Ω D q body := by
  cases D with
  | nil =>
    have : D' = [] := List.Perm.eq_nil h.symm
    subst this; rfl
  | cons a t =>
    have hD : (a :: t) ≠ [] := by simp
    have hD' := perm_ne_nil h hD
    rcases C12_order_invariance_part weakly Ω h with ⟨h1, h2⟩ | ⟨P, P', h1, h2, hP⟩
    · rw [wrap_none hD h1, wrap_none hD' h2]
    · rw [wrap_some hD h1, wrap_some hD' h2]
      split
      · rfl
      · rw [feasible_perm (infLayer_perm weakly hP), hb _ _ _ (finLayers_perm weakly hP)]

/-- **System Z, System W, lexicographic inference: the listing order of the base is irrelevant** (both modes) -/
theorem C12_order_invariance (weakly : Bool) (Ω : List World) {D D' : List Cond} (h : D.Perm D') (q : Cond) :
    ansZ weakly Ω D' q = ansZ weakly Ω D q ∧ ansW weakly Ω D' q = ansW weakly Ω D q ∧
    ansLex weakly Ω D' q = ansLex weakly Ω D q := by
  refine ⟨?_, ?_, ?_⟩
  · unfold ansZ
    apply wrap_perm weakly Ω h q
    intro fin fin' Ωf hfin
    have key : specZ Ωf fin' q = specZ Ωf fin q := by
      simp only [specZ]; congr 1; funext w w'; rw [zrk_perm hfin w, zrk_perm hfin w']
    cases weakly
    · -- strict: go through the specification where a falsifying world exists, else both recursions answer alike
      cases hfin with
      | nil => rfl
      | @cons L L' r r' hL hr =>
        simp only [bodyZ, Bool.false_and, Bool.false_eq_true, ↓reduceIte]
        by_cases hf : ∃ w' ∈ Ωf, q.fal w' = true
        · rw [algZ_eq_specZ Ωf (L :: r) (by simp) q hf, algZ_eq_specZ Ωf (L' :: r') (by simp) q hf]
          exact key
        · have hnf : ∀ w ∈ Ωf, q.fal w = false := by
            intro w hw; cases hfw : q.fal w with
            | false => rfl
            | true => exact absurd ⟨w, hw, hfw⟩ hf
          have e1 : ∀ (Lr : List (List Cond)), Lr ≠ [] →
              algZ Lr Ωf q = (match Lr with | [] => false | L0 :: _ => (Ωf.filter (nofal L0)).any q.ver) := by
            intro Lr hLr
            cases Lr with
            | nil => exact absurd rfl hLr
            | cons L0 rest =>
              simp only [algZ]
              have : (Ωf.filter (nofal L0)).any q.fal = false := by
                simp only [List.any_eq_false, List.mem_filter]; intro w hw; simp [hnf w hw.1]
              rw [this]
              cases (Ωf.filter (nofal L0)).any q.ver <;> simp
          have hrev := (Rel2.cons hL hr : PartPerm (L :: r) (L' :: r')).reverse
          rw [e1 _ (by simp), e1 _ (by simp)]
          generalize (L :: r).reverse = A at hrev
          generalize (L' :: r').reverse = B at hrev
          cases hrev with
          | nil => rfl
          | @cons L0 L0' _ _ hL0 _ =>
            simp only
            have e : Ωf.filter (nofal L0') = Ωf.filter (nofal L0) := by
              congr 1; funext w; exact nofal_perm hL0 w
            rw [e]
    · rw [bodyZ_ext_eq, bodyZ_ext_eq]; exact key
  · unfold ansW
    apply wrap_perm weakly Ω h q
    intro fin fin' Ωf hfin
    have key : specW' fin' Ωf q = specW' fin Ωf q := by
      simp only [specW', specW]
      congr 1; funext w'; congr 1; funext w
      exact wless_perm hfin.reverse w w'
    cases weakly
    · cases hfin with
      | nil => rfl
      | @cons L L' r r' hL hr =>
        rw [bodyW_strict_eq _ _ _ (by simp), bodyW_strict_eq _ _ _ (by simp)]; exact key
    · rw [bodyW_ext_eq, bodyW_ext_eq]; exact key
  · unfold ansLex
    apply wrap_perm weakly Ω h q
    intro fin fin' Ωf hfin
    rw [bodyLex_eq, bodyLex_eq]
    simp only [specLex', specLex]
    congr 1; funext w'; congr 1; funext w
    rw [lexVec_perm hfin.reverse w, lexVec_perm hfin.reverse w']

/-- p-entailment: order invariance -/
theorem C12_order_invariance_P (weakly : Bool) (Ω : List World) {D D' : List Cond} (h : D.Perm D') (q : Cond) :
    ansP weakly Ω D' q = ansP weakly Ω D q := by
  unfold ansP
  have hb : bodyP weakly Ω D' q = bodyP weakly Ω D q := by
    cases weakly
    · simp only [bodyP, Bool.false_eq_true, ↓reduceIte]
      have := tolPart_perm Ω (D.length + 1) (List.Perm.cons (negq q) h)
      rw [← h.length_eq]
      rcases this with ⟨h1, h2⟩ | ⟨P, P', h1, h2, _⟩
      · rw [h1, h2]
      · rw [h1, h2]; rfl
    · simp only [bodyP, ↓reduceIte, algPExt]
      have := tolPartExt_perm Ω (D.length + 2) (List.Perm.append_right [negq q] h)
      rw [← h.length_eq]
      rcases this with ⟨h1, h2⟩ | ⟨P, P', h1, h2, hP⟩
      · rw [h1, h2]
      · rw [h1, h2]
        simp only
        have hl : (P.getLastD []).Perm (P'.getLastD []) := hP.getLastD (List.Perm.refl _)
        congr 2; funext w
        rw [nofal_perm hl w]
  apply wrap_perm weakly Ω h q
  intro _ _ _ _
  exact hb

end InfOCF
