import InfOCFModel.CCert
/-!
# C05, direction "True": an accepted refutation certificate implies skeptical c-inference

`C05_cert_sound`: if `cCertCheck Ω D q pool = true` then `specC Ω D q`, for every base (distinct
conditionals), query and pool. The harness finds the multipliers (z3 as an LP search); the driver runs
`cCertCheck`; so on every input where the implementation answers True and a certificate is found, the
statement "every c-representation accepts the query" is established by this theorem and not by an SMT
solver's `unsat`.
-/
namespace InfOCF

theorem sumL_cons (a : Nat) (l : List Nat) : sumL (a :: l) = a + sumL l := rfl
theorem sumL_nil : sumL [] = 0 := rfl

/-! ### linear forms -/

theorem valF_zero (D : List Cond) (imp : Cond → Nat) : valF D imp (fun _ => 0) = 0 := by
  unfold valF
  induction D with
  | nil => rfl
  | cons a t ih => simp only [List.map_cons, sumL_cons, ih]; omega

theorem valF_add (D : List Cond) (imp f g : Cond → Nat) :
    valF D imp (fun c => f c + g c) = valF D imp f + valF D imp g := by
  unfold valF
  induction D with
  | nil => rfl
  | cons a t ih =>
    simp only [List.map_cons, sumL_cons]
    have ih' : sumL (t.map fun c => (f c + g c) * imp c) =
        sumL (t.map fun c => f c * imp c) + sumL (t.map fun c => g c * imp c) := ih
    rw [ih', Nat.add_mul]; omega

theorem valF_smul (D : List Cond) (imp f : Cond → Nat) (m : Nat) :
    valF D imp (fun c => m * f c) = m * valF D imp f := by
  unfold valF
  induction D with
  | nil => rfl
  | cons a t ih =>
    simp only [List.map_cons, sumL_cons]
    have ih' : sumL (t.map fun c => (m * f c) * imp c) = m * sumL (t.map fun c => f c * imp c) := ih
    rw [ih', Nat.mul_add, Nat.mul_assoc]

theorem valF_mono (D : List Cond) (imp f g : Cond → Nat) (h : ∀ c ∈ D, f c ≤ g c) :
    valF D imp f ≤ valF D imp g := by
  unfold valF
  induction D with
  | nil => exact Nat.le_refl _
  | cons a t ih =>
    simp only [List.map_cons, sumL_cons]
    have h1 := Nat.mul_le_mul_right (imp a) (h a (by simp))
    have h2 := ih (fun c hc => h c (List.mem_cons_of_mem _ hc))
    omega

/-- the value of a weighted sum of forms is the weighted sum of the values -/
theorem valF_tot (sel : Ineq → Cond → Nat) (D : List Cond) (imp : Cond → Nat) (L : List (Nat × Ineq)) :
    valF D imp (fun c => sumL (L.map fun p => p.1 * sel p.2 c)) = sumL (L.map fun p => p.1 * valF D imp (sel p.2)) := by
  induction L with
  | nil => simp only [List.map_nil, sumL_nil]; exact valF_zero D imp
  | cons p t ih =>
    simp only [List.map_cons, sumL_cons]
    rw [valF_add D imp (fun c => p.1 * sel p.2 c) (fun c => sumL (t.map fun p => p.1 * sel p.2 c)), ih, valF_smul]

theorem weighted_le (D : List Cond) (imp : Cond → Nat) (L : List (Nat × Ineq)) (h : ∀ p ∈ L, p.2.holds D imp) :
    sumL (L.map fun p => p.1 * valF D imp p.2.lhs) ≤ sumL (L.map fun p => p.1 * valF D imp p.2.rhs) := by
  induction L with
  | nil => exact Nat.le_refl _
  | cons p t ih =>
    simp only [List.map_cons, sumL_cons]
    have h2 := ih (fun x hx => h x (List.mem_cons_of_mem _ hx))
    have hp := h p (by simp)
    have hle : valF D imp p.2.lhs ≤ valF D imp p.2.rhs := by
      unfold Ineq.holds at hp
      split at hp <;> omega
    have := Nat.mul_le_mul_left p.1 hle
    omega

theorem weighted_lt (D : List Cond) (imp : Cond → Nat) (L : List (Nat × Ineq)) (h : ∀ p ∈ L, p.2.holds D imp)
    (hs : (L.any fun p => p.2.strict && decide (1 ≤ p.1)) = true) :
    sumL (L.map fun p => p.1 * valF D imp p.2.lhs) < sumL (L.map fun p => p.1 * valF D imp p.2.rhs) := by
  induction L with
  | nil => simp at hs
  | cons p t ih =>
    simp only [List.map_cons, sumL_cons]
    have hp := h p (by simp)
    have ht : ∀ x ∈ t, x.2.holds D imp := fun x hx => h x (List.mem_cons_of_mem _ hx)
    have hle_t := weighted_le D imp t ht
    have hle : valF D imp p.2.lhs ≤ valF D imp p.2.rhs := by
      unfold Ineq.holds at hp
      split at hp <;> omega
    have hmul := Nat.mul_le_mul_left p.1 hle
    simp only [List.any_cons, Bool.or_eq_true, Bool.and_eq_true, decide_eq_true_eq] at hs
    rcases hs with ⟨hstr, hpos⟩ | hrest
    · have hlt : valF D imp p.2.lhs + 1 ≤ valF D imp p.2.rhs := by
        unfold Ineq.holds at hp
        rw [if_pos hstr] at hp
        omega
      have h3 := Nat.mul_le_mul_left p.1 hlt
      rw [Nat.mul_add] at h3
      omega
    · have := ih ht (by simpa using hrest)
      omega

/-- **Farkas step**: weighted inequalities that all hold cannot pass `farkasOK` -/
theorem farkas_sound (D : List Cond) (imp : Cond → Nat) (L : List (Nat × Ineq)) (h : ∀ p ∈ L, p.2.holds D imp)
    (hok : farkasOK D L = true) : False := by
  unfold farkasOK at hok
  simp only [Bool.and_eq_true, List.all_eq_true, decide_eq_true_eq] at hok
  obtain ⟨hdom, hstrict⟩ := hok
  have h1 := weighted_lt D imp L h hstrict
  have h2 : valF D imp (totR L) ≤ valF D imp (totL L) := valF_mono D imp _ _ hdom
  have hL : valF D imp (totL L) = sumL (L.map fun p => p.1 * valF D imp p.2.lhs) := valF_tot Ineq.lhs D imp L
  have hR : valF D imp (totR L) = sumL (L.map fun p => p.1 * valF D imp p.2.rhs) := valF_tot Ineq.rhs D imp L
  omega

/-! ### indicator forms -/

theorem sum_ite_filter (imp : Cond → Nat) (p : Cond → Bool) (l : List Cond) :
    sumL (l.map fun c => (if p c then 1 else 0) * imp c) = sumL ((l.filter p).map imp) := by
  induction l with
  | nil => rfl
  | cons a t ih =>
    cases hp : p a <;> simp [hp, sumL_cons, ih]

/-- the value of the indicator form of a sub-list `D.filter p` is its cost -/
theorem valF_ind_filter (D : List Cond) (imp : Cond → Nat) (p : Cond → Bool) :
    valF D imp (ind (D.filter p)) = cost imp (D.filter p) := by
  unfold valF cost
  rw [← sum_ite_filter imp p D]
  congr 1
  apply List.map_congr_left
  intro c hc
  unfold ind
  have : (D.filter p).contains c = p c := by
    cases hp : p c
    · simp [List.mem_filter, hp]
    · simp [List.mem_filter, hp, hc]
  rw [this]

theorem valF_ind_single_notin (imp : Cond → Nat) (i : Cond) (t : List Cond) (h : i ∉ t) :
    valF t imp (ind [i]) = 0 := by
  unfold valF
  induction t with
  | nil => rfl
  | cons a t ih =>
    have hne : a ≠ i := by intro e; subst e; exact h (by simp)
    have hnt : i ∉ t := fun hx => h (List.mem_cons_of_mem _ hx)
    simp only [List.map_cons, sumL_cons, ih hnt]
    have : ind [i] a = 0 := by simp [ind, hne]
    rw [this]; omega

theorem valF_ind_single (D : List Cond) (hD : D.Nodup) (imp : Cond → Nat) (i : Cond) (hi : i ∈ D) :
    valF D imp (ind [i]) = imp i := by
  induction D with
  | nil => simp at hi
  | cons a t ih =>
    obtain ⟨hat, hnt⟩ := List.nodup_cons.mp hD
    rcases List.mem_cons.mp hi with rfl | hit
    · have h0 := valF_ind_single_notin imp i t hat
      unfold valF at h0 ⊢
      simp only [List.map_cons, sumL_cons, h0]
      have : ind [i] i = 1 := by simp [ind]
      rw [this]; omega
    · have hne : a ≠ i := by intro e; subst e; exact hat hit
      have h0 := ih hnt hit
      unfold valF at h0 ⊢
      simp only [List.map_cons, sumL_cons, h0]
      have : ind [i] a = 0 := by simp [ind, hne]
      rw [this]; omega

/-- `s` is a sub-list of `D` cut out by a predicate -/
def IsFilt (D s : List Cond) : Prop := ∃ p : Cond → Bool, s = D.filter p

theorem famMin_isFilt (D : List Cond) (H : List World) (s : List Cond) (h : s ∈ famMin D H) : IsFilt D s := by
  obtain ⟨w, _, rfl⟩ := famMin_real h
  exact ⟨(·.fal w), rfl⟩

theorem famMin_others_isFilt (D : List Cond) (i : Cond) (H : List World) (s : List Cond)
    (h : s ∈ famMin (others D i) H) : IsFilt D s := by
  obtain ⟨w, _, rfl⟩ := famMin_real h
  refine ⟨fun c => (c != i) && c.fal w, ?_⟩
  unfold fset others
  rw [List.filter_filter]
  apply List.filter_congr
  intro c _
  exact Bool.and_comm _ _

theorem valF_ind_of_isFilt (D : List Cond) (imp : Cond → Nat) (s : List Cond) (h : IsFilt D s) :
    valF D imp (ind s) = cost imp s := by
  obtain ⟨p, rfl⟩ := h
  exact valF_ind_filter D imp p

/-! ### the choices hidden in the compiled constraints -/

theorem leastCost_none_nil (imp : Cond → Nat) (X : List (List Cond)) (h : leastCost imp X = none) : X = [] := by
  have := (leastNat_none _).mp h
  simpa using this

theorem compiledOne_choice (Ω : List World) (D : List Cond) (imp : Cond → Nat) (i : Cond)
    (h : CompiledOne Ω D imp i) :
    ∃ S ∈ famMin (others D i) (Ω.filter i.ver), ∀ T ∈ famMin (others D i) (Ω.filter i.fal),
      cost imp S < imp i + cost imp T := by
  unfold CompiledOne at h
  cases hv : leastCost imp (famMin (others D i) (Ω.filter i.ver)) with
  | none => rw [hv] at h; exact h.elim
  | some mv =>
    obtain ⟨hmem, _⟩ := (leastNat_some _ mv).mp hv
    obtain ⟨S, hS, hcS⟩ := List.mem_map.mp hmem
    refine ⟨S, hS, ?_⟩
    cases hf : leastCost imp (famMin (others D i) (Ω.filter i.fal)) with
    | none =>
      rw [leastCost_none_nil imp _ hf]
      intro T hT; simp at hT
    | some mf =>
      rw [hv, hf] at h
      obtain ⟨_, hmin⟩ := (leastNat_some _ mf).mp hf
      intro T hT
      have := hmin (cost imp T) (List.mem_map.mpr ⟨T, hT, rfl⟩)
      simp only at h
      omega

theorem query_choice (Ω : List World) (D : List Cond) (imp : Cond → Nat) (q : Cond)
    (hF : famMin D (Ω.filter q.fal) ≠ []) (h : ¬ CompiledQueryAccepts Ω D imp q) :
    ∃ T ∈ famMin D (Ω.filter q.fal), ∀ S ∈ famMin D (Ω.filter q.ver), cost imp T ≤ cost imp S := by
  unfold CompiledQueryAccepts at h
  cases hf : leastCost imp (famMin D (Ω.filter q.fal)) with
  | none => exact (hF (leastCost_none_nil imp _ hf)).elim
  | some mf =>
    obtain ⟨hmem, _⟩ := (leastNat_some _ mf).mp hf
    obtain ⟨T, hT, hcT⟩ := List.mem_map.mp hmem
    refine ⟨T, hT, ?_⟩
    cases hv : leastCost imp (famMin D (Ω.filter q.ver)) with
    | none =>
      rw [leastCost_none_nil imp _ hv]
      intro S hS; simp at hS
    | some mv =>
      rw [hv, hf] at h
      obtain ⟨_, hmin⟩ := (leastNat_some _ mv).mp hv
      intro S hS
      have := hmin (cost imp S) (List.mem_map.mpr ⟨S, hS, rfl⟩)
      simp only at h
      omega

theorem choices_exists {α β : Type} (V : β → List α) (P : β → α → Prop) :
    ∀ tab : List β, (∀ x ∈ tab, ∃ S ∈ V x, P x S) →
      ∃ ch ∈ choices (tab.map V), ∀ y ∈ tab.zip ch, P y.1 y.2 := by
  intro tab
  induction tab with
  | nil => intro _; exact ⟨[], by simp [choices], by simp⟩
  | cons x t ih =>
    intro h
    obtain ⟨S, hS, hP⟩ := h x (by simp)
    obtain ⟨ch, hch, hall⟩ := ih (fun y hy => h y (List.mem_cons_of_mem _ hy))
    refine ⟨S :: ch, ?_, ?_⟩
    · simp only [List.map_cons, choices, List.mem_flatMap, List.mem_map]
      exact ⟨S, hS, ch, hch, rfl⟩
    · intro y hy
      simp only [List.zip_cons_cons, List.mem_cons] at hy
      rcases hy with rfl | hy
      · exact hP
      · exact hall y hy

/-! ### the theorem -/

/-- **an accepted certificate proves the answer True**: if the checker accepts the pool of refutations, every
c-representation of `D` accepts `q` (or `q` has no falsifying world) -/
theorem C05_cert_sound (Ω : List World) (D : List Cond) (hD : D.Nodup) (q : Cond) (pool : List CLeaf)
    (h : cCertCheck Ω D q pool = true) : specC Ω D q := by
  unfold cCertCheck at h
  rcases Bool.or_eq_true_iff.mp h with h0 | h1
  · left
    intro w hw
    have := List.all_eq_true.mp h0 w hw
    simpa using this
  · by_cases hf : ∃ w ∈ Ω, q.fal w = true
    · right
      intro imp hrep
      apply Classical.byContradiction
      intro hna
      have hbase := (C05_base_iff Ω D hD imp).mp hrep
      have hq : ¬ CompiledQueryAccepts Ω D imp q := fun hc => hna ((C05_query_iff Ω D imp q).mpr hc)
      -- the query's falsifying family is non-empty
      have hFne : famMin D (Ω.filter q.fal) ≠ [] := by
        obtain ⟨w, hw, hfw⟩ := hf
        obtain ⟨s, hs, _⟩ := famMin_below (L := D) w (List.mem_filter.mpr ⟨hw, hfw⟩)
        intro e; rw [e] at hs; simp at hs
      obtain ⟨T, hT, hTfacts⟩ := query_choice Ω D imp q hFne hq
      -- the rows
      have hrows : ∀ x ∈ ctab Ω D, ∃ S ∈ x.V,
          (x.i ∈ D ∧ IsFilt D S ∧ ∀ T ∈ x.F, IsFilt D T ∧ cost imp S < imp x.i + cost imp T) := by
        intro x hx
        obtain ⟨i, hi, rfl⟩ := List.mem_map.mp hx
        obtain ⟨S, hS, hfacts⟩ := compiledOne_choice Ω D imp i (hbase i hi)
        exact ⟨S, hS, hi, famMin_others_isFilt D i _ S hS,
          fun T hT => ⟨famMin_others_isFilt D i _ T hT, hfacts T hT⟩⟩
      obtain ⟨ch, hch, hchfacts⟩ := choices_exists (fun x : CRow => x.V)
        (fun x S => x.i ∈ D ∧ IsFilt D S ∧ ∀ T ∈ x.F, IsFilt D T ∧ cost imp S < imp x.i + cost imp T) (ctab Ω D) hrows
      simp only [List.all_eq_true, List.any_eq_true] at h1
      obtain ⟨lf, _, hok⟩ := h1 ch hch T hT
      apply farkas_sound D imp _ _ hok
      intro p hp
      unfold leafIneqs at hp
      rcases List.mem_append.mp hp with hp | hp
      · obtain ⟨x, hx, hp⟩ := List.mem_flatMap.mp hp
        obtain ⟨y, hy, rfl⟩ := List.mem_map.mp hp
        have hx1 : x.1 ∈ (ctab Ω D).zip ch := (List.of_mem_zip (a := x.1) (b := x.2) hx).1
        have hy1 : y.1 ∈ x.1.1.F := (List.of_mem_zip (a := y.1) (b := y.2) hy).1
        obtain ⟨hiD, hSf, hTs⟩ := hchfacts x.1 hx1
        obtain ⟨hTf, hlt⟩ := hTs y.1 hy1
        show Ineq.holds D imp ⟨ind x.1.2, fun c => ind [x.1.1.i] c + ind y.1 c, true⟩
        unfold Ineq.holds
        simp only [if_true]
        rw [valF_add, valF_ind_single D hD imp _ hiD, valF_ind_of_isFilt D imp _ hSf, valF_ind_of_isFilt D imp _ hTf]
        exact hlt
      · obtain ⟨y, hy, rfl⟩ := List.mem_map.mp hp
        have hy1 : y.1 ∈ famMin D (Ω.filter q.ver) := (List.of_mem_zip (a := y.1) (b := y.2) hy).1
        show Ineq.holds D imp ⟨ind T, ind y.1, false⟩
        unfold Ineq.holds
        simp only [Bool.false_eq_true, if_false]
        rw [valF_ind_of_isFilt D imp _ (famMin_isFilt D _ T hT), valF_ind_of_isFilt D imp _ (famMin_isFilt D _ y.1 hy1)]
        exact hTfacts y.1 hy1
    · left
      intro w hw
      cases hfw : q.fal w with
      | false => rfl
      | true => exact (hf ⟨w, hw, hfw⟩).elim

/-! non-vacuity: the penguin base `(f|b), (¬f|p), (b|p)` c-entails `(¬f | p ∧ b)`; one refutation suffices:
with impacts `η₁ η₂ η₃` the rows give `η₂ > η₁` … the single combination below closes every choice. -/
section Example
def exCert : List Cond := [⟨.atom 2, .atom 0, 1⟩, ⟨.neg (.atom 2), .atom 1, 2⟩, ⟨.atom 0, .atom 1, 3⟩]
def exCertQ : Cond := ⟨.neg (.atom 2), .and (.atom 1) (.atom 0), 0⟩
def exCertPool : List CLeaf := [⟨[[0], [1], [1]], [1]⟩, ⟨[[0], [1], [1]], [0]⟩, ⟨[[0], [1], [0]], [1]⟩]
example : exCert.Nodup := by decide
example : cCertCheck (allWorlds 3) exCert exCertQ exCertPool = true := by decide +kernel
/-- hence, by the theorem, every c-representation of the penguin base accepts `(¬f | p ∧ b)` -/
example : specC (allWorlds 3) exCert exCertQ :=
  C05_cert_sound _ _ (by decide) _ exCertPool (by decide +kernel)
/-- the query `(f|p)` cannot be certified by the empty pool (and is in fact rejected, see Props/C05.lean) -/
example : cCertCheck (allWorlds 3) exCert ⟨.atom 2, .atom 1, 0⟩ [] = false := by decide +kernel
end Example

end InfOCF
