import InfOCFModel.Props.C12
import InfOCFModel.Props.C15
/-!
# C12 (continued)  Atom renaming and signature extension

`C12.lean` keeps the world list fixed. Here the world list itself changes: the atoms are renamed by an
injection `ρ` of the signature `{0..n-1}` into a signature `{0..n'-1}` (a permutation when `n' = n`, a
proper extension when `n' > n`). `pull ρ n` reads a world of the large signature as a world of the small
one; it is a *transport* (`Transport`): every large world is sent to a small world and every small world
is hit. Everything the operator models compute looks at worlds only through verification / falsification
of conditionals, so partitions keep their shape and all four operators give the same answers, in both
modes (`C12_atom_renaming_*`), and adding unused atoms changes nothing (`C12_signature_extension_*`).
-/
namespace InfOCF

structure Transport (Ω Ω' : List World) (σ : World → World) : Prop where
  into : ∀ w' ∈ Ω', σ w' ∈ Ω
  onto : ∀ w ∈ Ω, ∃ w' ∈ Ω', σ w' = w

theorem Transport.any {Ω Ω' : List World} {σ : World → World} (T : Transport Ω Ω' σ) {g g' : World → Bool}
    (h : ∀ w', g' w' = g (σ w')) : Ω'.any g' = Ω.any g := by
  rw [Bool.eq_iff_iff]; simp only [List.any_eq_true]
  constructor
  · rintro ⟨w', hw', hg⟩; exact ⟨σ w', T.into w' hw', by rw [← h]; exact hg⟩
  · rintro ⟨w, hw, hg⟩
    obtain ⟨w', hw', e⟩ := T.onto w hw
    exact ⟨w', hw', by rw [h, e]; exact hg⟩

theorem Transport.all {Ω Ω' : List World} {σ : World → World} (T : Transport Ω Ω' σ) {g g' : World → Bool}
    (h : ∀ w', g' w' = g (σ w')) : Ω'.all g' = Ω.all g := by
  rw [Bool.eq_iff_iff]; simp only [List.all_eq_true]
  constructor
  · intro H w hw
    obtain ⟨w', hw', e⟩ := T.onto w hw
    have := H w' hw'; rw [h, e] at this; exact this
  · intro H w' hw'; rw [h]; exact H _ (T.into w' hw')

theorem Transport.filter {Ω Ω' : List World} {σ : World → World} (T : Transport Ω Ω' σ) {p p' : World → Bool}
    (h : ∀ w', p' w' = p (σ w')) : Transport (Ω.filter p) (Ω'.filter p') σ := by
  constructor
  · intro w' hw'
    simp only [List.mem_filter] at hw' ⊢
    exact ⟨T.into w' hw'.1, by rw [← h]; exact hw'.2⟩
  · intro w hw
    simp only [List.mem_filter] at hw ⊢
    obtain ⟨w', hw', e⟩ := T.onto w hw.1
    exact ⟨w', ⟨hw', by rw [h, e]; exact hw.2⟩, e⟩

/-- `c'` behaves on a large world as `c` on its pull-back -/
def VFS (σ : World → World) (c c' : Cond) : Prop := ∀ w', c'.ver w' = c.ver (σ w') ∧ c'.fal w' = c.fal (σ w')

abbrev BaseRen (σ : World → World) := Rel2 (VFS σ)
abbrev PartRen (σ : World → World) := Rel2 (Rel2 (VFS σ))

section
variable {σ : World → World}

theorem nofal_ren {cs cs' : List Cond} (h : BaseRen σ cs cs') (w' : World) : nofal cs' w' = nofal cs (σ w') := by
  induction h with
  | nil => rfl
  | cons hab _ ih => simp only [nofal, List.all_cons] at ih ⊢; rw [(hab w').2, ih]

theorem anyfal_ren {cs cs' : List Cond} (h : BaseRen σ cs cs') (w' : World) :
    cs'.any (·.fal w') = cs.any (·.fal (σ w')) := by
  induction h with
  | nil => rfl
  | cons hab _ ih => simp only [List.any_cons]; rw [(hab w').2, ih]

theorem tolerated_ren {Ω Ω' : List World} (T : Transport Ω Ω' σ) {cs cs' : List Cond} (h : BaseRen σ cs cs')
    {c c' : Cond} (hc : VFS σ c c') : tolerated Ω' cs' c' = tolerated Ω cs c := by
  simp only [tolerated]
  exact T.any fun w' => by rw [(hc w').1, nofal_ren h w']

theorem tolPart_ren {Ω Ω' : List World} (T : Transport Ω Ω' σ) : ∀ (fuel : Nat) {cs cs' : List Cond}, BaseRen σ cs cs' →
    (tolPart Ω fuel cs = none ∧ tolPart Ω' fuel cs' = none) ∨
    ∃ P P', tolPart Ω fuel cs = some P ∧ tolPart Ω' fuel cs' = some P' ∧ PartRen σ P P' := by
  intro fuel
  induction fuel with
  | zero =>
    intro cs cs' h
    cases h with
    | nil => exact Or.inr ⟨[], [], rfl, rfl, Rel2.nil⟩
    | cons _ _ => exact Or.inl ⟨rfl, rfl⟩
  | succ n ih =>
    intro cs cs' h
    cases h with
    | nil => exact Or.inr ⟨[], [], rfl, rfl, Rel2.nil⟩
    | @cons a b l l' hab hl =>
      have hfull : BaseRen σ (a :: l) (b :: l') := Rel2.cons hab hl
      have hR : BaseRen σ ((a :: l).filter (tolerated Ω (a :: l))) ((b :: l').filter (tolerated Ω' (b :: l'))) :=
        Rel2.filter _ _ (fun x y hxy => (tolerated_ren T hfull hxy).symm) hfull
      have hC : BaseRen σ ((a :: l).filter fun c => !(tolerated Ω (a :: l) c)) ((b :: l').filter fun c => !(tolerated Ω' (b :: l') c)) :=
        Rel2.filter _ _ (fun x y hxy => by rw [tolerated_ren T hfull hxy]) hfull
      simp only [tolPart]
      have hemp : ((a :: l).filter (tolerated Ω (a :: l))).isEmpty = ((b :: l').filter (tolerated Ω' (b :: l'))).isEmpty := by
        have := hR.length_eq
        cases h1 : (a :: l).filter (tolerated Ω (a :: l)) <;> cases h2 : (b :: l').filter (tolerated Ω' (b :: l')) <;>
          simp_all
      rw [← hemp]
      split
      · exact Or.inl ⟨rfl, rfl⟩
      · rcases ih hC with ⟨h1, h2⟩ | ⟨P, P', h1, h2, hP⟩
        · left; simp [h1, h2]
        · right
          exact ⟨_ :: P, _ :: P', by simp [h1], by simp [h2], Rel2.cons hR hP⟩

theorem tolPartExt_ren {Ω Ω' : List World} (T : Transport Ω Ω' σ) : ∀ (fuel : Nat) {cs cs' : List Cond}, BaseRen σ cs cs' →
    (tolPartExt Ω fuel cs = none ∧ tolPartExt Ω' fuel cs' = none) ∨
    ∃ P P', tolPartExt Ω fuel cs = some P ∧ tolPartExt Ω' fuel cs' = some P' ∧ PartRen σ P P' := by
  intro fuel
  induction fuel with
  | zero =>
    intro cs cs' h
    cases h with
    | nil => exact Or.inr ⟨[[]], [[]], rfl, rfl, Rel2.cons Rel2.nil Rel2.nil⟩
    | cons _ _ => exact Or.inl ⟨rfl, rfl⟩
  | succ n ih =>
    intro cs cs' h
    cases h with
    | nil => exact Or.inr ⟨[[]], [[]], rfl, rfl, Rel2.cons Rel2.nil Rel2.nil⟩
    | @cons a b l l' hab hl =>
      have hfull : BaseRen σ (a :: l) (b :: l') := Rel2.cons hab hl
      have hR : BaseRen σ ((a :: l).filter (tolerated Ω (a :: l))) ((b :: l').filter (tolerated Ω' (b :: l'))) :=
        Rel2.filter _ _ (fun x y hxy => (tolerated_ren T hfull hxy).symm) hfull
      have hC : BaseRen σ ((a :: l).filter fun c => !(tolerated Ω (a :: l) c)) ((b :: l').filter fun c => !(tolerated Ω' (b :: l') c)) :=
        Rel2.filter _ _ (fun x y hxy => by rw [tolerated_ren T hfull hxy]) hfull
      simp only [tolPartExt]
      have hemp : ((a :: l).filter (tolerated Ω (a :: l))).isEmpty = ((b :: l').filter (tolerated Ω' (b :: l'))).isEmpty := by
        have := hR.length_eq
        cases h1 : (a :: l).filter (tolerated Ω (a :: l)) <;> cases h2 : (b :: l').filter (tolerated Ω' (b :: l')) <;>
          simp_all
      have hany : Ω'.any (nofal (b :: l')) = Ω.any (nofal (a :: l)) := T.any fun w' => nofal_ren hfull w'
      rw [← hemp, hany]
      split
      · split
        · exact Or.inr ⟨_, _, rfl, rfl, Rel2.cons hfull Rel2.nil⟩
        · exact Or.inl ⟨rfl, rfl⟩
      · rcases ih hC with ⟨h1, h2⟩ | ⟨P, P', h1, h2, hP⟩
        · left; simp [h1, h2]
        · right
          exact ⟨_ :: P, _ :: P', by simp [h1], by simp [h2], Rel2.cons hR hP⟩

/-- partitions keep their shape under a transport -/
theorem partFor_ren (weakly : Bool) {Ω Ω' : List World} (T : Transport Ω Ω' σ) {D D' : List Cond} (h : BaseRen σ D D') :
    (partFor weakly Ω D = none ∧ partFor weakly Ω' D' = none) ∨
    ∃ P P', partFor weakly Ω D = some P ∧ partFor weakly Ω' D' = some P' ∧ PartRen σ P P' := by
  have hl := h.length_eq
  cases weakly
  · simp only [partFor, Bool.false_eq_true, ↓reduceIte, partS]
    rw [← hl]; exact tolPart_ren T D.length h
  · simp only [partFor, ↓reduceIte, partE]
    rw [← hl]; exact tolPartExt_ren T (D.length + 1) h

/-! ### the three orders -/

theorem zrk_ren {P P' : List (List Cond)} (h : PartRen σ P P') (w' : World) : zrk P' w' = zrk P (σ w') := by
  induction h with
  | nil => rfl
  | cons hL _ ih => simp only [zrk]; rw [ih, anyfal_ren hL w']

theorem forall_fal_ren {L L' : List Cond} (h : BaseRen σ L L') (φ : Bool → Bool → Prop) (w w' : World) :
    (∀ c ∈ L', φ (c.fal w) (c.fal w')) ↔ (∀ c ∈ L, φ (c.fal (σ w)) (c.fal (σ w'))) := by
  induction h with
  | nil => simp
  | cons hab _ ih =>
    simp only [List.mem_cons, forall_eq_or_imp]
    rw [ih, (hab w).2, (hab w').2]

theorem wless_ren {T T' : List (List Cond)} (h : PartRen σ T T') (w w' : World) :
    wless T' w w' = wless T (σ w) (σ w') := by
  induction h with
  | nil => rfl
  | @cons L L' r r' hL _ ih =>
    simp only [wless]
    have h1 : (fset L' w = fset L' w') ↔ (fset L (σ w) = fset L (σ w')) := by
      rw [fset_eq_iff, fset_eq_iff]
      exact forall_fal_ren hL (fun x y => x = y) w w'
    have h2 : subsetL (fset L' w) (fset L' w') = subsetL (fset L (σ w)) (fset L (σ w')) := by
      rw [Bool.eq_iff_iff, subset_fset_iff, subset_fset_iff]
      exact forall_fal_ren hL (fun x y => x = true → y = true) w w'
    by_cases hq : fset L (σ w) = fset L (σ w')
    · rw [if_pos hq, if_pos (h1.mpr hq), ih]
    · rw [if_neg hq, if_neg (fun hh => hq (h1.mp hh)), h2]

theorem cnt_ren {L L' : List Cond} (h : BaseRen σ L L') (w' : World) : cnt L' w' = cnt L (σ w') := by
  induction h with
  | nil => rfl
  | cons hab _ ih =>
    simp only [cnt, fset, List.filter_cons] at ih ⊢
    rw [(hab w').2]
    split <;> simp [ih]

theorem lexVec_ren {T T' : List (List Cond)} (h : PartRen σ T T') (w' : World) : lexVec T' w' = lexVec T (σ w') := by
  induction h with
  | nil => rfl
  | cons hL _ ih => simp only [lexVec, List.map_cons] at ih ⊢; rw [cnt_ren hL w', ih]

/-! ### queries, feasible worlds, the wrapper -/

theorem ante_ren {q q' : Cond} (hq : VFS σ q q') (w' : World) : q'.ante.eval w' = q.ante.eval (σ w') := by
  rw [ante_of_vf, ante_of_vf, (hq w').1, (hq w').2]

theorem trivialQ_ren {Ω Ω' : List World} (T : Transport Ω Ω' σ) {q q' : Cond} (hq : VFS σ q q') :
    trivialQ Ω' q' = trivialQ Ω q := by
  simp only [trivialQ]
  rw [T.any (g := fun w => q.ante.eval w) (fun w' => ante_ren hq w'), T.any (g := q.fal) (fun w' => (hq w').2)]

theorem prefEnt_ren {Ω Ω' : List World} (T : Transport Ω Ω' σ) {q q' : Cond} (hq : VFS σ q q')
    (lt lt' : World → World → Bool) (hlt : ∀ a b, lt' a b = lt (σ a) (σ b)) :
    prefEnt Ω' lt' q' = prefEnt Ω lt q := by
  simp only [prefEnt]
  have Tf := T.filter (p := q.fal) (p' := q'.fal) (fun w' => (hq w').2)
  have Tv := T.filter (p := q.ver) (p' := q'.ver) (fun w' => (hq w').1)
  exact Tf.all (g := fun x => (Ω.filter q.ver).any fun w => lt w x)
    fun w' => Tv.any (g := fun w => lt w (σ w')) fun w0 => hlt w0 w'

theorem spec2_ren {Hv Hv' Hf Hf' : List World} (Tv : Transport Hv Hv' σ) (Tf : Transport Hf Hf' σ)
    (lt lt' : World → World → Bool) (hlt : ∀ a b, lt' a b = lt (σ a) (σ b)) :
    (Hf'.all fun w' => Hv'.any fun w => lt' w w') = (Hf.all fun w' => Hv.any fun w => lt w w') :=
  Tf.all (g := fun x => Hv.any fun w => lt w x) fun w' => Tv.any (g := fun w => lt w (σ w')) fun w0 => hlt w0 w'

theorem feasible_ren {Ω Ω' : List World} (T : Transport Ω Ω' σ) {inf inf' : List Cond} (h : BaseRen σ inf inf') :
    Transport (feasible Ω inf) (feasible Ω' inf') σ :=
  T.filter fun w' => nofal_ren h w'

theorem finLayers_ren (weakly : Bool) {P P' : List (List Cond)} (h : PartRen σ P P') :
    PartRen σ (finLayers weakly P) (finLayers weakly P') := by
  cases weakly
  · simpa [finLayers] using h
  · simpa [finLayers] using h.dropLast

theorem infLayer_ren (weakly : Bool) {P P' : List (List Cond)} (h : PartRen σ P P') :
    BaseRen σ (infLayer weakly P) (infLayer weakly P') := by
  cases weakly
  · exact Rel2.nil
  · simp only [infLayer, ↓reduceIte]; exact h.getLastD Rel2.nil

theorem BaseRen_ne_nil {D D' : List Cond} (h : BaseRen σ D D') (hD : D ≠ []) : D' ≠ [] := by
  cases h with
  | nil => exact absurd rfl hD
  | cons _ _ => simp

theorem wrap_ren (weakly : Bool) {Ω Ω' : List World} (T : Transport Ω Ω' σ) {D D' : List Cond} (h : BaseRen σ D D')
    {q q' : Cond} (hq : VFS σ q q') (body body' : List (List Cond) → List World → Bool)
    (hb : ∀ fin fin' Ωf Ωf', PartRen σ fin fin' → Transport Ωf Ωf' σ → body' fin' Ωf' = body fin Ωf) :
    wrap weakly Ω' D' q' body' = wrap weakly Ω D q body := by
  cases D with
  | nil => cases h; rfl
  | cons a t =>
    have hD : (a :: t) ≠ [] := by simp
    have hD' := BaseRen_ne_nil h hD
    rcases partFor_ren weakly T h with ⟨h1, h2⟩ | ⟨P, P', h1, h2, hP⟩
    · rw [wrap_none hD h1, wrap_none hD' h2]
    · rw [wrap_some hD h1, wrap_some hD' h2, trivialQ_ren T hq]
      split
      · rfl
      · rw [hb _ _ _ _ (finLayers_ren weakly hP) (feasible_ren T (infLayer_ren weakly hP))]

/-! ### the four operators -/

theorem algZ_ren {q q' : Cond} (hq : VFS σ q q') : ∀ {Lr Lr' : List (List Cond)}, PartRen σ Lr Lr' →
    ∀ {H H' : List World}, Transport H H' σ → algZ Lr' H' q' = algZ Lr H q := by
  intro Lr Lr' h
  induction h with
  | nil => intro _ _ _; rfl
  | @cons L L' r r' hL hr ih =>
    intro H H' T
    have TF := T.filter (p := nofal L) (p' := nofal L') (fun w' => nofal_ren hL w')
    simp only [algZ]
    rw [TF.any (g := q.ver) (fun w' => (hq w').1), TF.any (g := q.fal) (fun w' => (hq w').2)]
    cases hr with
    | nil => rfl
    | cons hab hl => simp only; rw [ih TF]

theorem bodyZ_ren (weakly : Bool) {q q' : Cond} (hq : VFS σ q q') {fin fin' : List (List Cond)} (hfin : PartRen σ fin fin')
    {Ωf Ωf' : List World} (T : Transport Ωf Ωf' σ) : bodyZ weakly fin' Ωf' q' = bodyZ weakly fin Ωf q := by
  simp only [bodyZ]
  rw [T.any (g := q.fal) (fun w' => (hq w').2)]
  cases hfin with
  | nil => rfl
  | cons hL hr => simp only; rw [algZ_ren hq (Rel2.cons hL hr).reverse T]

/-- **System Z** is invariant under a transport -/
theorem ansZ_ren (weakly : Bool) {Ω Ω' : List World} (T : Transport Ω Ω' σ) {D D' : List Cond} (h : BaseRen σ D D')
    {q q' : Cond} (hq : VFS σ q q') : ansZ weakly Ω' D' q' = ansZ weakly Ω D q := by
  unfold ansZ
  exact wrap_ren weakly T h hq _ _ fun _ _ _ _ hfin TΩ => bodyZ_ren weakly hq hfin TΩ

theorem algWCode_spec (fin : List (List Cond)) (hne : fin ≠ []) (Hv Hf : List World) :
    algWCode fin.reverse Hv Hf = specW fin.reverse Hv Hf := by
  rw [algWCode_eq_algW _ _ _ (by simpa using hne), algW_eq_specW]

theorem bodyW_ren (weakly : Bool) {q q' : Cond} (hq : VFS σ q q') {fin fin' : List (List Cond)} (hfin : PartRen σ fin fin')
    {Ωf Ωf' : List World} (T : Transport Ωf Ωf' σ) : bodyW weakly fin' Ωf' q' = bodyW weakly fin Ωf q := by
  simp only [bodyW]
  rw [T.any (g := q.fal) (fun w' => (hq w').2), T.any (g := fun w => q.ante.eval w) (fun w' => ante_ren hq w')]
  cases hfin with
  | nil => rfl
  | @cons L L' r r' hL hr =>
    have hP : PartRen σ (L :: r) (L' :: r') := Rel2.cons hL hr
    simp only
    rw [algWCode_spec (L' :: r') (by simp), algWCode_spec (L :: r) (by simp)]
    simp only [specW]
    rw [spec2_ren (T.filter (p := q.ver) (p' := q'.ver) fun w' => (hq w').1)
      (T.filter (p := q.fal) (p' := q'.fal) fun w' => (hq w').2) (wless (L :: r).reverse) (wless (L' :: r').reverse)
      (fun a b => wless_ren hP.reverse a b)]

/-- **System W** (both back-ends) -/
theorem ansW_ren (weakly : Bool) {Ω Ω' : List World} (T : Transport Ω Ω' σ) {D D' : List Cond} (h : BaseRen σ D D')
    {q q' : Cond} (hq : VFS σ q q') : ansW weakly Ω' D' q' = ansW weakly Ω D q := by
  unfold ansW
  exact wrap_ren weakly T h hq _ _ fun _ _ _ _ hfin TΩ => bodyW_ren weakly hq hfin TΩ

/-- **lexicographic inference** (both back-ends) -/
theorem ansLex_ren (weakly : Bool) {Ω Ω' : List World} (T : Transport Ω Ω' σ) {D D' : List Cond} (h : BaseRen σ D D')
    {q q' : Cond} (hq : VFS σ q q') : ansLex weakly Ω' D' q' = ansLex weakly Ω D q := by
  unfold ansLex
  apply wrap_ren weakly T h hq
  intro fin fin' Ωf Ωf' hfin TΩ
  rw [bodyLex_eq, bodyLex_eq]
  simp only [specLex', specLex]
  exact spec2_ren (TΩ.filter (p := q.ver) (p' := q'.ver) fun w' => (hq w').1)
    (TΩ.filter (p := q.fal) (p' := q'.fal) fun w' => (hq w').2)
    (fun w w' => lexLt (lexVec fin.reverse w) (lexVec fin.reverse w'))
    (fun w w' => lexLt (lexVec fin'.reverse w) (lexVec fin'.reverse w'))
    (fun a b => by rw [lexVec_ren hfin.reverse a, lexVec_ren hfin.reverse b])

theorem negq_VFS {q q' : Cond} (hq : VFS σ q q') : VFS σ (negq q) (negq q') := by
  intro w; simp only [negq_ver, negq_fal]; exact ⟨(hq w).2, (hq w).1⟩

/-- **p-entailment** -/
theorem ansP_ren (weakly : Bool) {Ω Ω' : List World} (T : Transport Ω Ω' σ) {D D' : List Cond} (h : BaseRen σ D D')
    {q q' : Cond} (hq : VFS σ q q') : ansP weakly Ω' D' q' = ansP weakly Ω D q := by
  unfold ansP
  have hb : bodyP weakly Ω' D' q' = bodyP weakly Ω D q := by
    cases weakly
    · simp only [bodyP, Bool.false_eq_true, ↓reduceIte]
      have := tolPart_ren T (D.length + 1) (Rel2.cons (negq_VFS hq) h)
      rw [← h.length_eq]
      rcases this with ⟨h1, h2⟩ | ⟨P, P', h1, h2, _⟩
      · rw [h1, h2]
      · rw [h1, h2]; rfl
    · simp only [bodyP, ↓reduceIte, algPExt]
      have := tolPartExt_ren T (D.length + 2) (Rel2.append h (Rel2.cons (negq_VFS hq) Rel2.nil))
      rw [← h.length_eq]
      rcases this with ⟨h1, h2⟩ | ⟨P, P', h1, h2, hP⟩
      · rw [h1, h2]
      · rw [h1, h2]
        simp only
        have hl : BaseRen σ (P.getLastD []) (P'.getLastD []) := hP.getLastD Rel2.nil
        rw [T.any (g := fun w => q.ante.eval w && nofal (P.getLastD []) w)
          (fun w' => by rw [nofal_ren hl w', ante_ren hq w'])]
  apply wrap_ren weakly T h hq
  intro _ _ _ _ _ _
  exact hb

end

/-! ## Instantiation: renaming the atoms by an injection of signatures -/

def Fm.ren (ρ : Nat → Nat) : Fm → Fm
  | .top => .top
  | .bot => .bot
  | .atom i => .atom (ρ i)
  | .neg a => .neg (a.ren ρ)
  | .and a b => .and (a.ren ρ) (b.ren ρ)
  | .or a b => .or (a.ren ρ) (b.ren ρ)

def Cond.ren (ρ : Nat → Nat) (c : Cond) : Cond := ⟨c.cons.ren ρ, c.ante.ren ρ, c.key⟩

/-- all atoms of the formula belong to the signature `{0..n-1}` -/
def Fm.within (n : Nat) : Fm → Bool
  | .top => true
  | .bot => true
  | .atom i => decide (i < n)
  | .neg a => a.within n
  | .and a b => a.within n && b.within n
  | .or a b => a.within n && b.within n

def Cond.within (n : Nat) (c : Cond) : Bool := c.cons.within n && c.ante.within n

/-- read a world of the large signature as a world over `{0..n-1}` -/
def pull (ρ : Nat → Nat) (n : Nat) (w' : World) : World := (List.range n).map fun i => w'.getD (ρ i) false

theorem pull_getD (ρ : Nat → Nat) (n : Nat) (w' : World) (i : Nat) (hi : i < n) :
    (pull ρ n w').getD i false = w'.getD (ρ i) false := by
  simp [pull, List.getD_eq_getElem?_getD, hi]

theorem eval_ren (ρ : Nat → Nat) (n : Nat) (w' : World) : ∀ (f : Fm), f.within n = true →
    (f.ren ρ).eval w' = f.eval (pull ρ n w') := by
  intro f
  induction f with
  | top => intro _; rfl
  | bot => intro _; rfl
  | atom i =>
    intro h
    simp only [Fm.within, decide_eq_true_eq] at h
    simp only [Fm.ren, Fm.eval]
    rw [pull_getD ρ n w' i h]
  | neg a ih => intro h; simp only [Fm.within] at h; simp only [Fm.ren, Fm.eval, ih h]
  | and a b iha ihb =>
    intro h; simp only [Fm.within, Bool.and_eq_true] at h
    simp only [Fm.ren, Fm.eval, iha h.1, ihb h.2]
  | or a b iha ihb =>
    intro h; simp only [Fm.within, Bool.and_eq_true] at h
    simp only [Fm.ren, Fm.eval, iha h.1, ihb h.2]

theorem cond_ren_VFS (ρ : Nat → Nat) (n : Nat) (c : Cond) (h : c.within n = true) : VFS (pull ρ n) c (c.ren ρ) := by
  simp only [Cond.within, Bool.and_eq_true] at h
  intro w'
  simp [Cond.ver, Cond.fal, Cond.ren, eval_ren ρ n w' _ h.1, eval_ren ρ n w' _ h.2]

theorem base_ren_BaseRen (ρ : Nat → Nat) (n : Nat) : ∀ (D : List Cond), (∀ c ∈ D, c.within n = true) →
    BaseRen (pull ρ n) D (D.map (Cond.ren ρ)) := by
  intro D
  induction D with
  | nil => intro _; exact Rel2.nil
  | cons c t ih =>
    intro h
    exact Rel2.cons (cond_ren_VFS ρ n c (h c (by simp))) (ih fun d hd => h d (by simp [hd]))

/-- the pull-back along an injection of signatures is a transport between the two sets of all worlds -/
theorem pull_transport (ρ ρinv : Nat → Nat) (n n' : Nat) (hρ : ∀ i, i < n → ρ i < n' ∧ ρinv (ρ i) = i) :
    Transport (allWorlds n) (allWorlds n') (pull ρ n) := by
  constructor
  · intro w' _
    rw [mem_allWorlds]; simp [pull]
  · intro w hw
    rw [mem_allWorlds] at hw
    refine ⟨(List.range n').map fun j => w.getD (ρinv j) false, by rw [mem_allWorlds]; simp, ?_⟩
    apply List.ext_getElem
    · simp [pull, hw]
    · intro i h1 h2
      have hi : i < n := by simpa [pull] using h1
      obtain ⟨hlt, hinv⟩ := hρ i hi
      simp only [pull, List.getElem_map, List.getElem_range]
      simp [List.getD_eq_getElem?_getD, hlt, hinv, hw ▸ hi]

/-- **C12, atom renaming / signature change**: renaming the atoms of the signature `{0..n-1}` by an injection `ρ` into
`{0..n'-1}` (left inverse `ρinv`) changes no answer of any operator in either mode -/
theorem C12_atom_renaming (ρ ρinv : Nat → Nat) (n n' : Nat) (hρ : ∀ i, i < n → ρ i < n' ∧ ρinv (ρ i) = i)
    (weakly : Bool) (D : List Cond) (q : Cond) (hD : ∀ c ∈ D, c.within n = true) (hq : q.within n = true) :
    ansP weakly (allWorlds n') (D.map (Cond.ren ρ)) (q.ren ρ) = ansP weakly (allWorlds n) D q ∧
    ansZ weakly (allWorlds n') (D.map (Cond.ren ρ)) (q.ren ρ) = ansZ weakly (allWorlds n) D q ∧
    ansW weakly (allWorlds n') (D.map (Cond.ren ρ)) (q.ren ρ) = ansW weakly (allWorlds n) D q ∧
    ansLex weakly (allWorlds n') (D.map (Cond.ren ρ)) (q.ren ρ) = ansLex weakly (allWorlds n) D q := by
  have T := pull_transport ρ ρinv n n' hρ
  have hB := base_ren_BaseRen ρ n D hD
  have hQ := cond_ren_VFS ρ n q hq
  exact ⟨ansP_ren weakly T hB hQ, ansZ_ren weakly T hB hQ, ansW_ren weakly T hB hQ, ansLex_ren weakly T hB hQ⟩

/-- the partition keeps its shape under atom renaming -/
theorem C12_atom_renaming_part (ρ ρinv : Nat → Nat) (n n' : Nat) (hρ : ∀ i, i < n → ρ i < n' ∧ ρinv (ρ i) = i)
    (weakly : Bool) (D : List Cond) (hD : ∀ c ∈ D, c.within n = true) :
    (partFor weakly (allWorlds n) D = none ∧ partFor weakly (allWorlds n') (D.map (Cond.ren ρ)) = none) ∨
    ∃ P P', partFor weakly (allWorlds n) D = some P ∧ partFor weakly (allWorlds n') (D.map (Cond.ren ρ)) = some P' ∧
      PartRen (pull ρ n) P P' :=
  partFor_ren weakly (pull_transport ρ ρinv n n' hρ) (base_ren_BaseRen ρ n D hD)

theorem Fm.ren_id : ∀ (f : Fm), f.ren id = f := by
  intro f
  induction f with
  | top => rfl
  | bot => rfl
  | atom i => rfl
  | neg a ih => simp only [Fm.ren, ih]
  | and a b iha ihb => simp only [Fm.ren, iha, ihb]
  | or a b iha ihb => simp only [Fm.ren, iha, ihb]

theorem Cond.ren_id (c : Cond) : c.ren id = c := by
  cases c; simp [Cond.ren, Fm.ren_id]

/-- **C12, signature extension**: evaluating over a larger signature whose extra atoms the base and the query do not
mention changes no answer -/
theorem C12_signature_extension (n n' : Nat) (hn : n ≤ n') (weakly : Bool) (D : List Cond) (q : Cond)
    (hD : ∀ c ∈ D, c.within n = true) (hq : q.within n = true) :
    ansP weakly (allWorlds n') D q = ansP weakly (allWorlds n) D q ∧
    ansZ weakly (allWorlds n') D q = ansZ weakly (allWorlds n) D q ∧
    ansW weakly (allWorlds n') D q = ansW weakly (allWorlds n) D q ∧
    ansLex weakly (allWorlds n') D q = ansLex weakly (allWorlds n) D q := by
  have := C12_atom_renaming id id n n' (fun i hi => ⟨Nat.lt_of_lt_of_le hi hn, rfl⟩) weakly D q hD hq
  have hmap : D.map (Cond.ren id) = D := by
    rw [show Cond.ren id = id from funext Cond.ren_id]; simp
  rw [hmap, Cond.ren_id] at this
  exact this

/-- non-vacuity: swapping the two atoms of the penguin-free base `(a1|a0)` is a renaming in the sense of the theorem -/
example : (∀ i, i < 2 → (fun i => 1 - i) i < 2 ∧ (fun i => 1 - i) ((fun i => 1 - i) i) = i) ∧
    (⟨.atom 1, .atom 0, 1⟩ : Cond).within 2 = true ∧
    ansZ false (allWorlds 2) [⟨.atom 1, .atom 0, 1⟩] ⟨.atom 1, .atom 0, 0⟩ = .val true := by
  refine ⟨?_, by decide, by decide⟩
  intro i hi
  have : i = 0 ∨ i = 1 := by omega
  rcases this with rfl | rfl <;> simp

end InfOCF
