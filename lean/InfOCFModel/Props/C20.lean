import InfOCFModel.Persist
import InfOCFModel.Props.C16
/-!
# C20  Saved ranking functions reload to behaviourally identical objects; failed saves are harmless
-/
namespace InfOCF

/-- **a save never changes the in-memory object**, whether it succeeds or fails at any byte -/
theorem C20_save_atomic (ser : PObj → List Nat) (failAfter : Option Nat) (o : PObj) :
    (saveOcf ser failAfter o).1 = o := by
  cases o; rfl

/-- **round trip**: a completed save followed by a load yields the saved state without its solver members -/
theorem C20_roundtrip (ser : PObj → List Nat) (deser : List Nat → Option PObj)
    (hcodec : ∀ x, deser (ser x) = some x) (o : PObj) :
    ∃ file, (saveOcf ser none o).2 = some file ∧ loadOcf deser file = some { o with solver := none } := by
  refine ⟨ser { o with solver := none }, rfl, ?_⟩
  simp [loadOcf, hcodec]

/-- a failed write leaves no loadable garbage claim: nothing is reported as written -/
theorem C20_failed_write (ser : PObj → List Nat) (o : PObj) (k : Nat) (hk : k < (ser { o with solver := none }).length) :
    (saveOcf ser (some k) o).2 = none := by
  simp [saveOcf, hk]

/-- **continued lazy computation**: on the loaded object (same partition, the saved partial cache) every
sequence of rank requests returns the same values as on the original with *its* cache -/
theorem C20_continue_lazy (Ω : List World) (o l : PObj) (hP : l.P = o.P)
    (ho : CacheOk o.P o.cache) (hl : CacheOk l.P l.cache) (ops : List ZOp) :
    zRun Ω l.P l.cache ops = zRun Ω o.P o.cache ops := by
  apply List.ext_getElem?
  intro i
  cases h1 : (zRun Ω l.P l.cache ops)[i]? with
  | none =>
    cases h2 : (zRun Ω o.P o.cache ops)[i]? with
    | none => rfl
    | some v =>
      have hlen : ∀ (P : List (List Cond)) (c : List (World × Nat)) (ops : List ZOp), (zRun Ω P c ops).length = ops.length := by
        intro P c ops
        induction ops generalizing c with
        | nil => rfl
        | cons x t ih => simp [zRun, ih]
      have a := List.getElem?_eq_none_iff.mp h1
      have b := (List.getElem?_eq_some_iff.mp h2).1
      rw [hlen] at a b; omega
  | some v =>
    have hlen : ∀ (P : List (List Cond)) (c : List (World × Nat)) (ops : List ZOp), (zRun Ω P c ops).length = ops.length := by
      intro P c ops
      induction ops generalizing c with
      | nil => rfl
      | cons x t ih => simp [zRun, ih]
    have hi : i < ops.length := by
      have := (List.getElem?_eq_some_iff.mp h1).1; rw [hlen] at this; exact this
    have hop : ops[i]? = some ops[i] := List.getElem?_eq_getElem hi
    have hv := C16_cache Ω l.P ops l.cache hl i ops[i] v hop h1
    have h2 : ∃ v', (zRun Ω o.P o.cache ops)[i]? = some v' := by
      have : i < (zRun Ω o.P o.cache ops).length := by rw [hlen]; exact hi
      exact ⟨_, List.getElem?_eq_getElem this⟩
    obtain ⟨v', hv'⟩ := h2
    have hv2 := C16_cache Ω o.P ops o.cache ho i ops[i] v' hop hv'
    rw [hv', hv, hv2, hP]

/-- the loaded object's cache is as good as the saved one (so `C20_continue_lazy` applies to it) -/
theorem C20_loaded_cache_ok (ser : PObj → List Nat) (deser : List Nat → Option PObj)
    (hcodec : ∀ x, deser (ser x) = some x) (o : PObj) (ho : CacheOk o.P o.cache) :
    ∃ file l, (saveOcf ser none o).2 = some file ∧ loadOcf deser file = some l ∧ l.P = o.P ∧ l.cache = o.cache ∧
      l.impacts = o.impacts ∧ l.signature = o.signature ∧ l.metadata = o.metadata ∧ CacheOk l.P l.cache := by
  obtain ⟨file, h1, h2⟩ := C20_roundtrip ser deser hcodec o
  exact ⟨file, _, h1, h2, rfl, rfl, rfl, rfl, rfl, ho⟩

/-- **impacts round trip** -/
theorem C20_impacts_roundtrip (o fresh : PObj) (n : Nat) :
    importImpacts (exportImpacts o n) n fresh = some { fresh with impacts := o.impacts } := by
  simp [importImpacts, exportImpacts]

/-- **impacts validation**: a record for a different number of conditionals is refused; a list of the wrong
length or with a negative entry is refused -/
theorem C20_impacts_validation (f : ImpactFile) (n : Nat) (o : PObj) (l : List Int) :
    (f.count ≠ n → importImpacts f n o = none) ∧
    (l.length ≠ n → loadImpactsList l n o = none) ∧
    ((∃ x ∈ l, x < 0) → loadImpactsList l n o = none) := by
  refine ⟨fun h => by simp [importImpacts, h], fun h => by simp [loadImpactsList, h], ?_⟩
  rintro ⟨x, hx, hneg⟩
  have : l.all (fun x => decide (0 ≤ x)) = false := by
    rw [List.all_eq_false]; exact ⟨x, hx, by simp; omega⟩
  simp [loadImpactsList, this]

/-! non-vacuity -/
example : (saveOcf (fun _ => [1, 2, 3]) (some 1) ⟨2, [], [1, 0], [([true, false], 1)], [], some 7⟩).1.solver = some 7 := by decide

end InfOCF
