import InfOCFModel.LinCert
import InfOCFModel.Props.C17cert
import InfOCFModel.Props.C18
/-!
# C19, "returns nothing only if no such parameters exist": an accepted certificate proves that no parameters exist

`C19_none_cert_sound`: if `revCertCheck Ω κ R gpz pool = true` then for **all** parameter vectors `γ⁺ γ⁻` (with
`γ⁺ = 0` when `gpz`) the revised ranking fails to accept some revision conditional, i.e. `revOkB … = false`.
The checker enumerates every choice of one verifying world per revision conditional; for each choice the system
`κ*(v_i) + 1 ≤ κ*(f)` (all falsifying worlds `f` of conditional `i`) must be refuted by a non-negative combination
(`linRefute`). The multipliers are found by the harness; only their check is trusted.
-/
namespace InfOCF

theorem dotL_append : ∀ (a b x y : List Nat), a.length = x.length →
    dotL (a ++ b) (x ++ y) = dotL a x + dotL b y := by
  intro a
  induction a with
  | nil =>
    intro b x y h
    have : x = [] := by cases x with
      | nil => rfl
      | cons _ _ => simp at h
    subst this
    simp [dotL]
  | cons a0 as ih =>
    intro b x y h
    cases x with
    | nil => simp at h
    | cons x0 xs =>
      simp only [List.length_cons, Nat.add_right_cancel_iff] at h
      simp only [List.cons_append, dotL, ih b xs y h]
      omega

theorem cost_eq_dot (R : List Cond) (imp : Cond → Nat) (p : Cond → Bool) :
    cost imp (R.filter p) = dotL (indV R (R.filter p)) (R.map imp) := by
  rw [indV, dotL_map, valF_ind_filter]

/-- the revised rank of a world is its prior rank plus a linear form in the parameters -/
theorem kappaRev_dot (κ : World → Nat) (R : List Cond) (gp gm : List Nat) (w : World) :
    kappaRev κ R gp gm w = κ w + dotL (revRowV R w) (R.map (impOf R gp) ++ R.map (impOf R gm)) := by
  unfold kappaRev revRowV
  rw [dotL_append _ _ _ _ (by simp [indV]), ← cost_eq_dot, ← cost_eq_dot]
  omega

theorem ones_dot_zero (f : Cond → Nat) (y : List Nat) (h : ∀ c, f c = 0) :
    ∀ R : List Cond, dotL (List.replicate R.length 1) (R.map f ++ y) = 0 := by
  intro R
  induction R with
  | nil => simp [dotL]
  | cons a t ih =>
    simp only [List.length_cons, List.replicate_succ, List.map_cons, List.cons_append, dotL, ih, h a]

/-- **an accepted certificate proves that no parameters exist** -/
theorem C19_none_cert_sound (Ω : List World) (κ : World → Nat) (R : List Cond) (gpz : Bool) (pool : List RLeaf)
    (h : revCertCheck Ω κ R gpz pool = true) (gp gm : List Nat) (hz : gpz = true → ∀ c, impOf R gp c = 0) :
    acceptsAll Ω (kappaRev κ R gp gm) R = false := by
  cases hacc : acceptsAll Ω (kappaRev κ R gp gm) R with
  | false => rfl
  | true =>
    exfalso
    unfold acceptsAll at hacc
    have hrows : ∀ i ∈ R, ∃ v ∈ Ω.filter i.ver,
        ∀ f ∈ Ω.filter i.fal, kappaRev κ R gp gm v < kappaRev κ R gp gm f := by
      intro i hi
      have hA := (C18_accept_iff Ω _ i).mp (List.all_eq_true.mp hacc i hi)
      obtain ⟨v, hv, hver, hall⟩ := hA
      refine ⟨v, List.mem_filter.mpr ⟨hv, hver⟩, ?_⟩
      intro f hf
      obtain ⟨hfΩ, hffal⟩ := List.mem_filter.mp hf
      exact hall f hfΩ hffal
    obtain ⟨ch, hch, hfacts⟩ := choices_exists (fun i : Cond => Ω.filter i.ver)
      (fun i v => ∀ f ∈ Ω.filter i.fal, kappaRev κ R gp gm v < kappaRev κ R gp gm f) R hrows
    unfold revCertCheck at h
    simp only [List.all_eq_true, List.any_eq_true] at h
    obtain ⟨lf, _, hok⟩ := h ch hch
    apply linRefute_sound (R.map (impOf R gp) ++ R.map (impOf R gm)) _ _ hok
    intro p hp
    unfold revIneqs at hp
    rcases List.mem_append.mp hp with hp | hp
    · obtain ⟨x, hx, hp⟩ := List.mem_flatMap.mp hp
      obtain ⟨y, hy, rfl⟩ := List.mem_map.mp hp
      have hx1 : x.1 ∈ R.zip ch := (List.of_mem_zip (a := x.1) (b := x.2) hx).1
      have hy1 : y.1 ∈ Ω.filter x.1.1.fal := (List.of_mem_zip (a := y.1) (b := y.2) hy).1
      have hlt := hfacts x.1 hx1 y.1 hy1
      rw [kappaRev_dot, kappaRev_dot] at hlt
      show LIneq.holds _ ⟨revRowV R x.1.2, κ x.1.2 + 1, revRowV R y.1, κ y.1⟩
      unfold LIneq.holds
      simp only
      omega
    · cases hg : gpz with
      | false => rw [hg] at hp; simp at hp
      | true =>
        rw [hg] at hp
        simp only [if_true, List.mem_singleton] at hp
        subst hp
        show LIneq.holds _ ⟨List.replicate R.length 1, 0, [], 0⟩
        unfold LIneq.holds
        simp only [ones_dot_zero (impOf R gp) _ (hz hg) R, dotL]
        omega

/-- in terms of the executable check used for returned parameters: no vectors pass `revOkB` -/
theorem C19_none_cert_revOk (Ω : List World) (κ : World → Nat) (R : List Cond) (gpz : Bool) (pool : List RLeaf)
    (h : revCertCheck Ω κ R gpz pool = true) (gp gm : List Nat) (hz : gpz = true → ∀ c, impOf R gp c = 0) :
    revOkB Ω κ R gp gm = false := by
  unfold revOkB
  rw [C19_none_cert_sound Ω κ R gpz pool h gp gm hz]
  simp

/-! non-vacuity: zero prior over two atoms, `(a|b)` and `(¬a|b)` contradict each other: with one verifying world per
conditional (`b∧a` for the first, `b∧¬a` for the second) adding the two strict inequalities gives `2 ≤ 0` -/
section Example
def exRev : List Cond := [⟨.atom 0, .atom 1, 1⟩, ⟨.neg (.atom 0), .atom 1, 2⟩]
example : revCertCheck (allWorlds 2) (fun _ => 0) exRev false [⟨[[1], [1]], 0⟩] = true := by decide +kernel
example (gp gm : List Nat) : revOkB (allWorlds 2) (fun _ => 0) exRev gp gm = false :=
  C19_none_cert_revOk _ _ _ false [⟨[[1], [1]], 0⟩] (by decide +kernel) gp gm (by intro h; cases h)
/-- a single satisfiable conditional is not refuted by that pool -/
example : revCertCheck (allWorlds 2) (fun _ => 0) [⟨.atom 0, .atom 1, 1⟩] false [⟨[[1], [1]], 0⟩] = false := by decide +kernel
end Example

end InfOCF
