import InfOCFModel.Props.Common
/-!
# C04  Lexicographic inference equals the lexicographic definition (both back-ends)

`algLex` is the recursion of `lex_inf.py` / `lex_inf_z3.py` after the repair (some
minimum-cardinality verifying set must win against every minimum-cardinality falsifying set);
`algLexAllPairs` is the recursion before the repair, refuted by `C04_allpairs_wrong`.
-/
namespace InfOCF

/-- **C04 (main)** -/
theorem C04_main (Ω : List World) (D : List Cond) (q : Cond) (P : List (List Cond))
    (hD : D ≠ []) (hP : partS Ω D = some P) :
    ansLex false Ω D q = .val (specLex P.reverse (Ω.filter q.ver) (Ω.filter q.fal)) := by
  have hPF : partFor false Ω D = some P := by simpa [partFor] using hP
  rw [ansLex, wrap_some hD hPF]
  simp only [finLayers, infLayer, Bool.false_eq_true, ↓reduceIte, feasible_nil]
  split
  · rename_i ht
    congr 1
    have := trivialQ_no_fal ht
    have hnil : Ω.filter q.fal = [] := by
      simp only [List.filter_eq_nil_iff]; intro w hw; simp [this w hw]
    simp [specLex, hnil]
  · rename_i ht
    have ht : trivialQ Ω q = false := by simpa using ht
    congr 1
    have hne := partS_nonempty hD hP
    obtain ⟨w', hw', hf'⟩ := not_trivialQ_fal ht
    have hHf : Ω.filter q.fal ≠ [] := by
      intro h
      have : w' ∈ Ω.filter q.fal := by simp [List.mem_filter, hw', hf']
      rw [h] at this; simp at this
    have ht' : (!(Ω.any fun w => q.ante.eval w) || !(Ω.any q.fal)) = false := by simpa [trivialQ] using ht
    simp only [bodyLex, ht', Bool.false_eq_true, ↓reduceIte]
    split
    · rename_i hv
      have hHv : Ω.filter q.ver = [] := by
        simp only [Bool.not_eq_true', List.any_eq_false] at hv
        simp only [List.filter_eq_nil_iff]; intro w hw; simpa using hv w hw
      simp only [specLex, hHv, List.any_nil]
      cases hfe : Ω.filter q.fal with
      | nil => exact absurd hfe hHf
      | cons a t => simp
    · cases P with
      | nil => exact absurd rfl hne
      | cons L rest =>
        exact algLex_eq_specLex _ _ _ hHf

/-- the `∀∃` form of `specLex` is the comparison of lexicographically least vectors -/
theorem C04_min_form (layers : List (List Cond)) (Hv Hf : List World) (hv : Hv ≠ []) (hf : Hf ≠ []) :
    specLex layers Hv Hf = true ↔
      ∃ mv ∈ Hv, (∀ w ∈ Hv, lexLt (lexVec layers w) (lexVec layers mv) = false) ∧
      ∃ mf ∈ Hf, (∀ w ∈ Hf, lexLt (lexVec layers w) (lexVec layers mf) = false) ∧
        lexLt (lexVec layers mv) (lexVec layers mf) = true := by
  have hlen : ∀ w, (lexVec layers w).length = layers.length := by intro w; simp [lexVec]
  obtain ⟨mv, hmv, hminv⟩ := exists_lexmin (lexVec layers) layers.length hlen Hv hv
  obtain ⟨mf, hmf, hminf⟩ := exists_lexmin (lexVec layers) layers.length hlen Hf hf
  simp only [specLex, List.all_eq_true, List.any_eq_true]
  constructor
  · intro h
    obtain ⟨w, hw, hlt⟩ := h mf hmf
    refine ⟨mv, hmv, hminv, mf, hmf, hminf, ?_⟩
    rcases lexLt_total (lexVec layers mv) (lexVec layers w) (by rw [hlen, hlen]) with h1 | h1 | h1
    · exact lexLt_trans _ _ _ h1 hlt
    · rw [h1]; exact hlt
    · rw [hminv w hw] at h1; cases h1
  · rintro ⟨mv', hmv', _, mf', hmf', hminf', hlt⟩ w' hw'
    refine ⟨mv', hmv', ?_⟩
    rcases lexLt_total (lexVec layers mf') (lexVec layers w') (by rw [hlen, hlen]) with h1 | h1 | h1
    · exact lexLt_trans _ _ _ hlt h1
    · rw [← h1]; exact hlt
    · rw [hminf' w' hw'] at h1; cases h1

/-- edge cases of the property: True if A∧¬B is unsatisfiable, False if only A∧B is -/
theorem C04_edges (layers : List (List Cond)) (Hv Hf : List World) :
    (Hf = [] → specLex layers Hv Hf = true) ∧ (Hv = [] → Hf ≠ [] → specLex layers Hv Hf = false) := by
  constructor
  · rintro rfl; simp [specLex]
  · rintro rfl hf
    cases Hf with
    | nil => exact absurd rfl hf
    | cons a t => simp [specLex]

theorem C04_refuse (Ω : List World) (D : List Cond) (q : Cond) :
    (D = [] → ansLex false Ω D q = .refuseEmpty) ∧
    (D ≠ [] → partS Ω D = none → ansLex false Ω D q = .refuseIncons) := by
  constructor
  · rintro rfl; rfl
  · intro hD hP
    rw [ansLex, wrap_none hD (by simpa [partFor] using hP)]

/-! ### the recursion before the repair is wrong (defect D5): concrete witness

signature a,b,c (atoms 0,1,2); base `(!a|(a;!a)), (b|c), (!c|(a;!a)), (c|a;!b), (!c|(a;!a))`;
query `(!a|!b)`. The all-pairs recursion answers False, the definition (and the repaired
recursion) True. The same input was replayed on the implementation before the `fix:` commit. -/
section Witness
def d5Ω := allWorlds 3
def d5taut : Fm := .or (.atom 0) (.neg (.atom 0))
def d5D : List Cond :=
  [⟨.neg (.atom 0), d5taut, 1⟩, ⟨.atom 1, .atom 2, 2⟩, ⟨.neg (.atom 2), d5taut, 3⟩,
   ⟨.atom 2, .or (.atom 0) (.neg (.atom 1)), 4⟩, ⟨.neg (.atom 2), d5taut, 5⟩]
def d5q : Cond := ⟨.neg (.atom 0), .neg (.atom 1), 0⟩

theorem C04_allpairs_wrong :
    ∃ P, partS d5Ω d5D = some P ∧
      algLexAllPairs P.reverse (d5Ω.filter d5q.ver) (d5Ω.filter d5q.fal) = false ∧
      specLex P.reverse (d5Ω.filter d5q.ver) (d5Ω.filter d5q.fal) = true ∧
      ansLex false d5Ω d5D d5q = .val true := by
  decide
end Witness

end InfOCF
