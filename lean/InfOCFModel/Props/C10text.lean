import InfOCFModel.Lexer
import InfOCFModel.Props.C10
import InfOCFModel.Props.C12ren
/-!
# C10 at the level of text: print, lex, parse is the identity

`text names f` writes the formula `f` (atoms named by `names`) in the concrete syntax of the grammar with
minimal parentheses, one blank after every token. `C10_text_roundtrip`: for every formula whose atoms are
named by valid identifiers (a letter followed by letters, digits, `_`, `-`; not a reserved word), the
lexer model followed by the parser model (`parseFormulaText`, the model of `parse_formula`) reads that text
back as exactly the same named formula. This ties the lexer model to the grammar theorems of `C10.lean`.
-/
namespace InfOCF

/-- a letter followed by identifier characters -/
def ValidId (s : String) : Prop :=
  ∃ c a, s.toList = c :: a ∧ isIdStart c = true ∧ ∀ x ∈ a, isIdChar x = true

/-- usable as an atom name: valid and none of the four reserved words -/
def AtomName (s : String) : Prop :=
  ValidId s ∧ s ≠ "signature" ∧ s ≠ "conditionals" ∧ s ≠ "Top" ∧ s ≠ "Bottom"

/-- tokens of the formula vocabulary -/
def FTok : LTok → Prop
  | .id s => ValidId s ∧ s ≠ "signature" ∧ s ≠ "conditionals"
  | .comma | .semi | .not | .lpar | .rpar => True
  | _ => False

theorem alpha_ne (c x : Char) (hx : x.isAlpha = false) (hc : c.isAlpha = true) : (c == x) = false := by
  cases h : c == x with
  | false => rfl
  | true =>
    have := eq_of_beq h
    subst this
    rw [hx] at hc; cases hc

theorem takeId_stop : ∀ (a R : List Char), (∀ x ∈ a, isIdChar x = true) → takeId (a ++ ' ' :: R) = (a, ' ' :: R) := by
  intro a R
  induction a with
  | nil => intro _; simp [takeId, isIdChar]
  | cons x t ih =>
    intro h
    have hx := h x (by simp)
    have := ih (fun y hy => h y (by simp [hy]))
    simp [takeId, hx, this]

theorem lexFuel_space (fuel : Nat) (R : List Char) : lexFuel (fuel + 1) (' ' :: R) = lexFuel fuel R := by
  simp [lexFuel]

theorem lexFuel_id (fuel : Nat) (s : String) (R : List Char) (hs : ValidId s) (h1 : s ≠ "signature") (h2 : s ≠ "conditionals") :
    lexFuel (fuel + 1) (s.toList ++ ' ' :: R) = (lexFuel fuel (' ' :: R)).map (LTok.id s :: ·) := by
  obtain ⟨c, a, hca, hc, ha⟩ := hs
  have hc' : c.isAlpha = true := hc
  rw [hca]
  simp only [List.cons_append, lexFuel]
  rw [alpha_ne c ' ' (by decide) hc', alpha_ne c '\t' (by decide) hc', alpha_ne c '\r' (by decide) hc',
    alpha_ne c '\n' (by decide) hc', alpha_ne c '/' (by decide) hc', alpha_ne c ',' (by decide) hc',
    alpha_ne c ';' (by decide) hc', alpha_ne c '!' (by decide) hc', alpha_ne c '(' (by decide) hc',
    alpha_ne c ')' (by decide) hc', alpha_ne c '|' (by decide) hc', alpha_ne c '{' (by decide) hc',
    alpha_ne c '}' (by decide) hc']
  simp only [Bool.or_self, Bool.false_eq_true, ↓reduceIte, hc, takeId_stop a R ha]
  have hstr : String.ofList (c :: a) = s := by rw [← hca]; simp
  rw [hstr]
  have e1 : (s == "signature") = false := by simpa using h1
  have e2 : (s == "conditionals") = false := by simpa using h2
  simp [e1, e2]

theorem lexFuel_comma (fuel : Nat) (R : List Char) :
    lexFuel (fuel + 1) (',' :: ' ' :: R) = (lexFuel fuel (' ' :: R)).map (LTok.comma :: ·) := by
  simp only [lexFuel]; simp (decide := true) only [↓reduceIte]
theorem lexFuel_semi (fuel : Nat) (R : List Char) :
    lexFuel (fuel + 1) (';' :: ' ' :: R) = (lexFuel fuel (' ' :: R)).map (LTok.semi :: ·) := by
  simp only [lexFuel]; simp (decide := true) only [↓reduceIte]
theorem lexFuel_not (fuel : Nat) (R : List Char) :
    lexFuel (fuel + 1) ('!' :: ' ' :: R) = (lexFuel fuel (' ' :: R)).map (LTok.not :: ·) := by
  simp only [lexFuel]; simp (decide := true) only [↓reduceIte]
theorem lexFuel_lpar (fuel : Nat) (R : List Char) :
    lexFuel (fuel + 1) ('(' :: ' ' :: R) = (lexFuel fuel (' ' :: R)).map (LTok.lpar :: ·) := by
  simp only [lexFuel]; simp (decide := true) only [↓reduceIte]
theorem lexFuel_rpar (fuel : Nat) (R : List Char) :
    lexFuel (fuel + 1) (')' :: ' ' :: R) = (lexFuel fuel (' ' :: R)).map (LTok.rpar :: ·) := by
  simp only [lexFuel]; simp (decide := true) only [↓reduceIte]

theorem tokChars_pos (t : LTok) (ht : FTok t) : 0 < (tokChars t).length := by
  cases t with
  | id s => obtain ⟨c, a, hca, _⟩ := ht.1; simp only [tokChars, hca, List.length_cons]; omega
  | comma => simp only [tokChars, List.length_cons, List.length_nil]; omega
  | semi => simp only [tokChars, List.length_cons, List.length_nil]; omega
  | not => simp only [tokChars, List.length_cons, List.length_nil]; omega
  | lpar => simp only [tokChars, List.length_cons, List.length_nil]; omega
  | rpar => simp only [tokChars, List.length_cons, List.length_nil]; omega
  | kwSignature => exact absurd ht (by simp [FTok])
  | kwConditionals => exact absurd ht (by simp [FTok])
  | bar => exact absurd ht (by simp [FTok])
  | lbrace => exact absurd ht (by simp [FTok])
  | rbrace => exact absurd ht (by simp [FTok])
  | newline => exact absurd ht (by simp [FTok])

/-- **the lexer model reads back what `unlexChars` writes** -/
theorem lex_unlex : ∀ (ts : List LTok), (∀ t ∈ ts, FTok t) → ∀ fuel, (unlexChars ts).length < fuel →
    lexFuel fuel (unlexChars ts) = some ts := by
  intro ts
  induction ts with
  | nil =>
    intro _ fuel hf
    cases fuel with
    | zero => simp [unlexChars] at hf
    | succ n => simp [unlexChars, lexFuel]
  | cons t r ih =>
    intro h fuel hf
    have ht := h t (by simp)
    have hr : ∀ u ∈ r, FTok u := fun u hu => h u (by simp [hu])
    simp only [unlexChars, List.length_append, List.length_cons] at hf
    obtain ⟨f1, rfl⟩ : ∃ f1, fuel = f1 + 1 := ⟨fuel - 1, by omega⟩
    obtain ⟨f2, rfl⟩ : ∃ f2, f1 = f2 + 1 := ⟨f1 - 1, by omega⟩
    have hstep : lexFuel (f2 + 1 + 1) (tokChars t ++ ' ' :: unlexChars r) =
        (lexFuel (f2 + 1) (' ' :: unlexChars r)).map (t :: ·) := by
      cases t with
      | id s => exact lexFuel_id _ s _ ht.1 ht.2.1 ht.2.2
      | comma => exact lexFuel_comma _ _
      | semi => exact lexFuel_semi _ _
      | not => exact lexFuel_not _ _
      | lpar => exact lexFuel_lpar _ _
      | rpar => exact lexFuel_rpar _ _
      | kwSignature => exact absurd ht (by simp [FTok])
      | kwConditionals => exact absurd ht (by simp [FTok])
      | bar => exact absurd ht (by simp [FTok])
      | lbrace => exact absurd ht (by simp [FTok])
      | rbrace => exact absurd ht (by simp [FTok])
      | newline => exact absurd ht (by simp [FTok])
    simp only [unlexChars]
    have hpos := tokChars_pos t ht
    rw [hstep, lexFuel_space, ih hr f2 (by omega)]
    rfl

/-! ### from formulas to text and back -/

theorem validId_Top : ValidId "Top" := ⟨'T', ['o', 'p'], by decide, by decide, by decide⟩
theorem validId_Bottom : ValidId "Bottom" := ⟨'B', ['o', 't', 't', 'o', 'm'], by decide, by decide, by decide⟩

/-- every identifier token of the printed formula is an atom the formula mentions -/
theorem pp_id_mentions : ∀ (f : Fm) (lvl n : Nat), Tok.id n ∈ pp lvl f → f.mentions n = true := by
  intro f
  induction f with
  | top => intro lvl n h; simp [pp] at h
  | bot => intro lvl n h; simp [pp] at h
  | atom i => intro lvl n h; simp only [pp, List.mem_singleton, Tok.id.injEq] at h; simp [Fm.mentions, h]
  | neg a ih => intro lvl n h; simp only [pp, List.mem_cons, reduceCtorEq, false_or] at h; exact ih 0 n h
  | and a b iha ihb =>
    intro lvl n h
    simp only [Fm.mentions, Bool.or_eq_true]
    simp only [pp] at h
    split at h
    · simp only [List.cons_append, List.mem_cons, reduceCtorEq, List.mem_append, false_or, List.mem_nil_iff, or_false] at h
      rcases h with h | h
      · exact Or.inl (iha 1 n h)
      · exact Or.inr (ihb 0 n h)
    · simp only [List.mem_append, List.mem_cons, reduceCtorEq, false_or] at h
      rcases h with h | h
      · exact Or.inl (iha 1 n h)
      · exact Or.inr (ihb 0 n h)
  | or a b iha ihb =>
    intro lvl n h
    simp only [Fm.mentions, Bool.or_eq_true]
    simp only [pp] at h
    split at h
    · simp only [List.cons_append, List.mem_cons, reduceCtorEq, List.mem_append, false_or, List.mem_nil_iff, or_false] at h
      rcases h with h | h
      · exact Or.inl (iha 2 n h)
      · exact Or.inr (ihb 1 n h)
    · simp only [List.mem_append, List.mem_cons, reduceCtorEq, false_or] at h
      rcases h with h | h
      · exact Or.inl (iha 2 n h)
      · exact Or.inr (ihb 1 n h)

/-- and every mentioned atom is printed -/
theorem mentions_pp_id : ∀ (f : Fm) (lvl n : Nat), f.mentions n = true → Tok.id n ∈ pp lvl f := by
  intro f
  induction f with
  | top => intro lvl n h; simp [Fm.mentions] at h
  | bot => intro lvl n h; simp [Fm.mentions] at h
  | atom i => intro lvl n h; simp only [Fm.mentions, beq_iff_eq] at h; simp [pp, h]
  | neg a ih => intro lvl n h; simp only [pp, List.mem_cons, reduceCtorEq, false_or]; exact ih 0 n h
  | and a b iha ihb =>
    intro lvl n h
    simp only [Fm.mentions, Bool.or_eq_true] at h
    simp only [pp]
    split
    · simp only [List.cons_append, List.mem_cons, reduceCtorEq, List.mem_append, false_or, List.mem_nil_iff, or_false]
      rcases h with h | h
      · exact Or.inl (iha 1 n h)
      · exact Or.inr (ihb 0 n h)
    · simp only [List.mem_append, List.mem_cons, reduceCtorEq, false_or]
      rcases h with h | h
      · exact Or.inl (iha 1 n h)
      · exact Or.inr (ihb 0 n h)
  | or a b iha ihb =>
    intro lvl n h
    simp only [Fm.mentions, Bool.or_eq_true] at h
    simp only [pp]
    split
    · simp only [List.cons_append, List.mem_cons, reduceCtorEq, List.mem_append, false_or, List.mem_nil_iff, or_false]
      rcases h with h | h
      · exact Or.inl (iha 2 n h)
      · exact Or.inr (ihb 1 n h)
    · simp only [List.mem_append, List.mem_cons, reduceCtorEq, false_or]
      rcases h with h | h
      · exact Or.inl (iha 2 n h)
      · exact Or.inr (ihb 1 n h)

/-- renumbering the atoms commutes with printing -/
def tokRen (ρ : Nat → Nat) : Tok → Tok
  | .id n => .id (ρ n)
  | t => t

theorem pp_ren (ρ : Nat → Nat) : ∀ (f : Fm) (lvl : Nat), (pp lvl f).map (tokRen ρ) = pp lvl (f.ren ρ) := by
  intro f
  induction f with
  | top => intro lvl; rfl
  | bot => intro lvl; rfl
  | atom i => intro lvl; rfl
  | neg a ih => intro lvl; simp only [pp, Fm.ren, List.map_cons, ih]; rfl
  | and a b iha ihb =>
    intro lvl
    simp only [pp, Fm.ren]
    split <;> simp [List.map_append, iha, ihb, tokRen]
  | or a b iha ihb =>
    intro lvl
    simp only [pp, Fm.ren]
    split <;> simp [List.map_append, iha, ihb, tokRen]

theorem mapM_pointwise {α β γ : Type} (g1 : α → β) (h : β → Option γ) (g2 : α → γ) :
    ∀ (l : List α), (∀ t ∈ l, h (g1 t) = some (g2 t)) → (l.map g1).mapM h = some (l.map g2) := by
  intro l
  induction l with
  | nil => intro _; rfl
  | cons a t ih =>
    intro hh
    simp only [List.map_cons, List.mapM_cons, hh a (by simp), ih (fun u hu => hh u (by simp [hu]))]
    rfl

theorem ofFm_ren (names names' : List String) : ∀ (f : Fm),
    (∀ n, f.mentions n = true → names.getD n "" ∈ names') →
    PF.ofFm names' (f.ren fun n => names'.idxOf (names.getD n "")) = PF.ofFm names f := by
  intro f
  induction f with
  | top => intro _; rfl
  | bot => intro _; rfl
  | atom i =>
    intro h
    have hm := h i (by simp [Fm.mentions])
    simp only [Fm.ren, PF.ofFm, PF.var.injEq]
    have hlt := List.idxOf_lt_length_of_mem hm
    rw [List.getD_eq_getElem?_getD, List.getElem?_eq_getElem hlt, Option.getD_some, List.getElem_idxOf]
  | neg a ih => intro h; simp only [Fm.ren, PF.ofFm, ih (fun n hn => h n (by simpa [Fm.mentions] using hn))]
  | and a b iha ihb =>
    intro h
    simp only [Fm.ren, PF.ofFm, iha (fun n hn => h n (by simp [Fm.mentions, hn])), ihb (fun n hn => h n (by simp [Fm.mentions, hn]))]
  | or a b iha ihb =>
    intro h
    simp only [Fm.ren, PF.ofFm, iha (fun n hn => h n (by simp [Fm.mentions, hn])), ihb (fun n hn => h n (by simp [Fm.mentions, hn]))]

/-- **C10, text level**: the text of a formula over valid atom names is read back (lexer model, then parser model, as
`parse_formula` runs them) as exactly that formula -/
theorem C10_text_roundtrip (names : List String) (f : Fm) (hn : ∀ s ∈ names, AtomName s)
    (hf : ∀ n, f.mentions n = true → n < names.length) :
    parseFormulaText (text names f) = some (PF.ofFm names f) := by
  let ts := (pp 2 f).map (tokL names)
  have hname : ∀ n, f.mentions n = true → AtomName (names.getD n "") := by
    intro n hm
    have hlt := hf n hm
    rw [List.getD_eq_getElem?_getD, List.getElem?_eq_getElem hlt, Option.getD_some]
    exact hn _ (List.getElem_mem hlt)
  have hFT : ∀ t ∈ ts, FTok t := by
    intro t ht
    obtain ⟨u, hu, rfl⟩ := List.mem_map.mp ht
    cases u with
    | id n =>
      have := hname n (pp_id_mentions f 2 n hu)
      exact ⟨this.1, this.2.1, this.2.2.1⟩
    | top => exact ⟨validId_Top, by decide, by decide⟩
    | bot => exact ⟨validId_Bottom, by decide, by decide⟩
    | not => trivial
    | comma => trivial
    | semi => trivial
    | lpar => trivial
    | rpar => trivial
  have hlex : lex (text names f) = some ts := by
    unfold lex text
    rw [String.toList_ofList, String.length_ofList]
    exact lex_unlex ts hFT _ (Nat.lt_succ_self _)
  unfold parseFormulaText
  rw [hlex]
  simp only
  -- the names collected from the tokens contain every atom name of the formula
  have hmem : ∀ n, f.mentions n = true → names.getD n "" ∈ idNames ts := by
    intro n hm
    unfold idNames
    rw [List.mem_eraseDups, List.mem_filterMap]
    exact ⟨.id (names.getD n ""), List.mem_map.mpr ⟨.id n, mentions_pp_id f 2 n hm, rfl⟩, rfl⟩
  have hmap : ts.mapM (toFmTok (idNames ts)) =
      some ((pp 2 f).map (tokRen fun n => (idNames ts).idxOf (names.getD n ""))) := by
    apply mapM_pointwise
    intro t ht
    cases t with
    | id n =>
      have := hname n (pp_id_mentions f 2 n ht)
      have e1 : (names.getD n "" == "Top") = false := by simpa using this.2.2.2.1
      have e2 : (names.getD n "" == "Bottom") = false := by simpa using this.2.2.2.2
      simp only [tokL, toFmTok, tokRen, e1, e2, Bool.false_eq_true, ↓reduceIte]
    | top => simp [tokL, toFmTok, tokRen]
    | bot => simp [tokL, toFmTok, tokRen]
    | not => rfl
    | comma => rfl
    | semi => rfl
    | lpar => rfl
    | rpar => rfl
  rw [hmap]
  simp only
  rw [pp_ren, C10_print_parse]
  simp only [Option.map_some]
  rw [ofFm_ren names (idNames ts) f hmem]

/-- non-vacuity: the names `b`, `p`, `f-1` are atom names, and a concrete text -/
example : AtomName "b" ∧ AtomName "f-1" ∧ ¬ AtomName "Top" ∧ ¬ AtomName "1a" := by
  refine ⟨⟨⟨'b', [], by decide, by decide, by simp⟩, by decide, by decide, by decide, by decide⟩,
    ⟨⟨'f', ['-', '1'], by decide, by decide, by decide⟩, by decide, by decide, by decide, by decide⟩, ?_, ?_⟩
  · intro h; exact h.2.2.2.1 rfl
  · rintro ⟨⟨c, a, hca, hc, _⟩, _⟩
    have : c = '1' := by
      have := congrArg List.head? hca
      simpa using this.symm
    subst this
    exact absurd hc (by decide)

end InfOCF
