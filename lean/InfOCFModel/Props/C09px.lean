import InfOCFModel.Props.C09pc
import InfOCFModel.Props.C07P
/-!
# C09 completed: System P for skeptical c-inference (all postulates) and for extended p-entailment

* `C09_C_is_intersection_full`: skeptical c-inference is the intersection of the preferential relations of all
  c-representations for **every** antecedent (an unsatisfiable antecedent makes both sides true), hence all of
  System P (`C09_systemP_C_full`).
* `C09_Pext_is_intersection`: in extended mode p-entailment is the intersection, over all ranking models of the
  finite layers on the feasible worlds, of their preferential relations on the feasible worlds; hence System P
  (`C09_systemP_Pext`).
-/
namespace InfOCF

theorem C09_C_is_intersection_full (Ω : List World) (D : List Cond) (A B : Fm) :
    InfersC Ω D A B ↔ InterEnt Ω (fun o => ∃ imp, IsCRep Ω D imp ∧ o = rankSPO (kappaC D imp)) A B := by
  by_cases hA : ∃ w ∈ Ω, A.eval w = true
  · exact C09_C_is_intersection Ω D A B hA
  · constructor
    · intro _ o _ w' hw' ha' _
      exact absurd ⟨w', hw', ha'⟩ hA
    · intro _
      unfold InfersC specC
      left
      intro w hw
      cases ha : A.eval w with
      | false => simp [Cond.fal, ha]
      | true => exact absurd ⟨w, hw, ha⟩ hA

/-- **System P for skeptical c-inference**, all seven postulates, no side condition -/
theorem C09_systemP_C_full (Ω : List World) (D : List Cond) :
    (∀ A, InfersC Ω D A A) ∧
    (∀ A A' B, (∀ w, A.eval w = A'.eval w) → InfersC Ω D A B → InfersC Ω D A' B) ∧
    (∀ A B C, (∀ w, B.eval w = true → C.eval w = true) → InfersC Ω D A B → InfersC Ω D A C) ∧
    (∀ A B C, InfersC Ω D A B → InfersC Ω D A C → InfersC Ω D A (.and B C)) ∧
    (∀ A B C, InfersC Ω D A C → InfersC Ω D B C → InfersC Ω D (.or A B) C) ∧
    (∀ A B C, InfersC Ω D A B → InfersC Ω D A C → InfersC Ω D (.and A B) C) ∧
    (∀ A B C, InfersC Ω D A B → InfersC Ω D (.and A B) C → InfersC Ω D A C) := by
  have key := fun A B => C09_C_is_intersection_full Ω D A B
  obtain ⟨h1, h2, h3, h4, h5, h6, h7⟩ :=
    interEnt_systemP Ω (fun o => ∃ imp, IsCRep Ω D imp ∧ o = rankSPO (kappaC D imp))
  refine ⟨?_, ?_, ?_, ?_, ?_, ?_, ?_⟩
  · intro A; rw [key]; exact h1 A
  · intro A A' B heq; rw [key, key]; exact h2 A A' B heq
  · intro A B C himp; rw [key, key]; exact h3 A B C himp
  · intro A B C; rw [key, key, key]; exact h4 A B C
  · intro A B C; rw [key, key, key]; exact h5 A B C
  · intro A B C; rw [key, key, key]; exact h6 A B C
  · intro A B C; rw [key, key, key]; exact h7 A B C

/-! ### extended p-entailment -/

/-- the tolerance test on `E ∪ {(¬B|A)}` fails exactly when every ranking model of `E` accepts `(B|A)`
(any world list, any base, `A` satisfiable) -/
theorem tolNone_iff_models (Ω : List World) (E cs : List Cond) (q : Cond) (fuel : Nat) (hlen : cs.length ≤ fuel)
    (hcs : ∀ c, c ∈ cs ↔ (c = negq q ∨ c ∈ E)) (hA : ∃ w ∈ Ω, q.ante.eval w = true) :
    (tolPart Ω fuel cs).isNone = true ↔ ∀ κ : World → Nat, Models Ω κ E → Accepts Ω κ q := by
  rw [Option.isNone_iff_eq_none]
  constructor
  · intro hnone κ hκ
    obtain ⟨S, hsub, hS⟩ := tolPart_none_stuck Ω fuel cs hlen hnone
    exact stuck_models_accept Ω E q S hS (fun c hc => (hcs c).mp (hsub c hc)) hA κ hκ
  · intro h
    cases hp : tolPart Ω fuel cs with
    | none => rfl
    | some P =>
      obtain ⟨h1, h2⟩ := tolPart_sound Ω fuel cs P hp
      have := part_gives_countermodel Ω E q P h1 (fun c => (h2 c).trans (hcs c))
      exact absurd (h _ this.1) this.2

/-- **extended p-entailment is an intersection of preferential relations over the feasible worlds** -/
theorem C09_Pext_is_intersection (Ω : List World) (D : List Cond) (fin : List (List Cond)) (inf : List Cond)
    (hD : D ≠ []) (hP : partE Ω D = some (fin ++ [inf])) (A B : Fm) :
    Infers (ansP true Ω D) A B ↔
      InterEnt (feasible Ω inf) (fun o => ∃ κ, Models (feasible Ω inf) κ fin.flatten ∧ o = rankSPO κ) A B := by
  have hPF : partFor true Ω D = some (fin ++ [inf]) := by simpa [partFor] using hP
  obtain ⟨fin0, inf0, heq, hrun, _, _⟩ := (C06_ext Ω D _).mp hP
  obtain ⟨e1, e2⟩ := List.append_inj' heq rfl
  simp only [List.cons.injEq, and_true] at e2
  subst e1; subst e2
  have hTP : IsTolPart (feasible Ω inf) fin := GreedyRun_isTolPart Ω fin D inf hrun
  have hlenD := GreedyRun_length Ω fin D inf hrun
  let q : Cond := ⟨B, A, 0⟩
  have hsub : ∀ w, w ∈ feasible Ω inf → w ∈ Ω := fun w hw => (List.mem_filter.mp hw).1
  unfold Infers InterEnt
  rw [ansP, wrap_some hD hPF]
  by_cases ht : trivialQ Ω q = true
  · -- no falsifying world at all
    simp only [q] at ht
    simp only [ht, ↓reduceIte, true_iff]
    have hnf := trivialQ_no_fal ht
    intro o _ w' hw' ha' hb'
    have := hnf w' (hsub w' hw')
    simp [Cond.fal, ha', hb'] at this
  · have ht' : trivialQ Ω ⟨B, A, 0⟩ = false := by simpa [q] using ht
    simp only [ht', Bool.false_eq_true, ↓reduceIte, Out.val.injEq, bodyP]
    have hspec := C07_P Ω D q fin inf hP
    have hval : specPExt Ω D q = some (algPExt Ω D q) := hspec.symm
    -- unfold the property's case distinction
    unfold specPExt at hval
    have hpe : tolPartExt Ω (D.length + 1) D = some (fin ++ [inf]) := hP
    rw [hpe] at hval
    simp only [List.getLastD_eq_getLast?, List.getLast?_append, List.getLast?_singleton, Option.some_or,
      Option.getD_some, List.dropLast_concat] at hval
    change (if !((feasible Ω inf).any fun w => q.ante.eval w) then some true
      else if !((feasible Ω inf).any q.fal) then some true
      else if !((feasible Ω inf).any q.ver) then some false
      else some (tolPart (feasible Ω inf) (D.length + 2) (fin.flatten ++ [negq q])).isNone) = some (algPExt Ω D q) at hval
    by_cases c1 : (feasible Ω inf).any (fun w => q.ante.eval w) = true
    · by_cases c2 : (feasible Ω inf).any q.fal = true
      · by_cases c3 : (feasible Ω inf).any q.ver = true
        · simp only [c1, c2, c3, Bool.not_true, Bool.false_eq_true, ↓reduceIte, Option.some.injEq] at hval
          rw [← hval]
          have hA : ∃ w ∈ feasible Ω inf, q.ante.eval w = true := by simpa [List.any_eq_true] using c1
          rw [tolNone_iff_models (feasible Ω inf) fin.flatten (fin.flatten ++ [negq q]) q (D.length + 2)
            (by simp only [List.length_append, List.length_singleton]; omega)
            (fun c => by simp [or_comm]) hA]
          constructor
          · rintro h o ⟨κ, hκ, rfl⟩
            exact (accepts_iff_ent _ κ A B 0 hA).mp (h κ hκ)
          · intro h κ hκ
            exact (accepts_iff_ent _ κ A B 0 hA).mpr (h _ ⟨κ, hκ, rfl⟩)
        · -- a feasible falsifier, no feasible verifier: answer False, and the Z-ranking of the finite layers is a witness
          simp only [c1, c2, c3, Bool.not_true, Bool.false_eq_true, ↓reduceIte, Bool.not_false, Option.some.injEq] at hval
          rw [← hval]
          simp only [Bool.false_eq_true, false_iff]
          intro h
          have hm : Models (feasible Ω inf) (zrk fin) fin.flatten := zrk_models _ fin hTP
          obtain ⟨w', hw', hf'⟩ : ∃ w' ∈ feasible Ω inf, q.fal w' = true := by simpa [List.any_eq_true] using c2
          simp only [Cond.fal, Bool.and_eq_true, Bool.not_eq_true', q] at hf'
          obtain ⟨w, hw, ha, hb, _⟩ := h _ ⟨zrk fin, hm, rfl⟩ w' hw' hf'.1 hf'.2
          refine absurd ?_ c3
          simp only [List.any_eq_true]
          exact ⟨w, hw, by simp [Cond.ver, q, ha, hb]⟩
      · simp only [c1, c2, Bool.not_true, Bool.false_eq_true, ↓reduceIte, Bool.not_false, Option.some.injEq] at hval
        rw [← hval]
        simp only [true_iff]
        intro o _ w' hw' ha' hb'
        refine absurd ?_ c2
        simp only [List.any_eq_true]
        exact ⟨w', hw', by simp [Cond.fal, q, ha', hb']⟩
    · simp only [c1, Bool.not_false, ↓reduceIte, Option.some.injEq] at hval
      rw [← hval]
      simp only [true_iff]
      intro o _ w' hw' ha' _
      refine absurd ?_ c1
      simp only [List.any_eq_true]
      exact ⟨w', hw', by simpa [q] using ha'⟩

/-- **System P for p-entailment in extended mode** -/
theorem C09_systemP_Pext (Ω : List World) (D : List Cond) (fin : List (List Cond)) (inf : List Cond)
    (hD : D ≠ []) (hP : partE Ω D = some (fin ++ [inf])) :
    (∀ A, Infers (ansP true Ω D) A A) ∧
    (∀ A A' B, (∀ w, A.eval w = A'.eval w) → Infers (ansP true Ω D) A B → Infers (ansP true Ω D) A' B) ∧
    (∀ A B C, (∀ w, B.eval w = true → C.eval w = true) → Infers (ansP true Ω D) A B → Infers (ansP true Ω D) A C) ∧
    (∀ A B C, Infers (ansP true Ω D) A B → Infers (ansP true Ω D) A C → Infers (ansP true Ω D) A (.and B C)) ∧
    (∀ A B C, Infers (ansP true Ω D) A C → Infers (ansP true Ω D) B C → Infers (ansP true Ω D) (.or A B) C) ∧
    (∀ A B C, Infers (ansP true Ω D) A B → Infers (ansP true Ω D) A C → Infers (ansP true Ω D) (.and A B) C) ∧
    (∀ A B C, Infers (ansP true Ω D) A B → Infers (ansP true Ω D) (.and A B) C → Infers (ansP true Ω D) A C) := by
  have key := fun A B => C09_Pext_is_intersection Ω D fin inf hD hP A B
  obtain ⟨h1, h2, h3, h4, h5, h6, h7⟩ := interEnt_systemP (feasible Ω inf)
    (fun o => ∃ κ, Models (feasible Ω inf) κ fin.flatten ∧ o = rankSPO κ)
  refine ⟨?_, ?_, ?_, ?_, ?_, ?_, ?_⟩
  · intro A; rw [key]; exact h1 A
  · intro A A' B heq; rw [key, key]; exact h2 A A' B heq
  · intro A B C himp; rw [key, key]; exact h3 A B C himp
  · intro A B C; rw [key, key, key]; exact h4 A B C
  · intro A B C; rw [key, key, key]; exact h5 A B C
  · intro A B C; rw [key, key, key]; exact h6 A B C
  · intro A B C; rw [key, key, key]; exact h7 A B C

/-- non-vacuity of `C09_systemP_Pext`: a weakly consistent base with a non-empty infinity layer, `(f|b)` and `(⊥|p)` -/
def exPx : List Cond := [⟨.atom 2, .atom 0, 1⟩, ⟨.bot, .atom 1, 2⟩]

example : exPx ≠ [] ∧ partE (allWorlds 3) exPx = some ([[⟨.atom 2, .atom 0, 1⟩]] ++ [[⟨.bot, .atom 1, 2⟩]]) := by
  constructor
  · decide
  · decide

/-- and the extended operator then infers `(f|b)` and does not infer `(b|f)` -/
example : ansP true (allWorlds 3) exPx ⟨.atom 2, .atom 0, 0⟩ = .val true ∧
    ansP true (allWorlds 3) exPx ⟨.atom 0, .atom 2, 0⟩ = .val false := by
  constructor <;> decide

end InfOCF
