import InfOCFModel.Props.C10sound
import InfOCFModel.Props.C10file
/-!
# C10, rule `condition`: completeness — every token list of the documented shape is accepted, with that meaning

`C10_conditions_complete`: if `consumed` has the documented shape `DConds` (groups `( B | A )` separated by `,` and optional
line ends, each side a derivation of the formula grammar) and what follows does not start with a comma, the model of rule
`condition` accepts `consumed ++ rest` and returns exactly those conditionals in order. With `C10_conditions_sound` this is
`C10_conditions_iff`: *accepted ⇔ documented shape* for the rule, so a malformed conditional list is rejected.
-/
namespace InfOCF

/-- parenthesis depth bookkeeping on formula tokens -/
def depT : Nat → List Tok → Option Nat
  | d, [] => some d
  | d, .lpar :: r => depT (d + 1) r
  | d, .rpar :: r => if d = 0 then none else depT (d - 1) r
  | d, _ :: r => depT d r

theorem depT_append : ∀ (a b : List Tok) (d : Nat), depT d (a ++ b) = (depT d a).bind fun d' => depT d' b := by
  intro a
  induction a with
  | nil => intro b d; simp [depT]
  | cons t r ih =>
    intro b d
    cases t <;> simp only [List.cons_append, depT, ih] <;> try rfl
    split <;> simp

/-- the tokens of a derivation are balanced -/
theorem depT_D : ∀ {lvl : Nat} {ts : List Tok} {f : Fm}, D lvl ts f → ∀ d, depT d ts = some d := by
  intro lvl ts f h
  induction h with
  | atom n => intro d; simp [depT]
  | top => intro d; simp [depT]
  | bot => intro d; simp [depT]
  | neg _ ih => intro d; simp only [depT]; exact ih d
  | paren _ ih =>
    intro d
    simp only [depT]
    rw [depT_append, ih (d + 1)]
    simp [depT]
  | up1 _ ih => exact ih
  | up2 _ ih => exact ih
  | conj _ _ ih1 ih2 =>
    intro d
    rw [depT_append, ih1 d]
    simp only [Option.bind_some, depT]
    exact ih2 d
  | disj _ _ ih1 ih2 =>
    intro d
    rw [depT_append, ih1 d]
    simp only [Option.bind_some, depT]
    exact ih2 d

/-- the file-level depth function agrees with `depT` on tokens of the formula vocabulary -/
theorem dep_eq_depT (names : List String) : ∀ (tb : List LTok) (fts : List Tok), tb.mapM (toFmTok names) = some fts →
    ∀ d, dep d tb = depT d fts := by
  intro tb
  induction tb with
  | nil => intro fts h d; simp at h; subst h; rfl
  | cons t r ih =>
    intro fts h d
    rw [List.mapM_cons] at h
    cases ht : toFmTok names t with
    | none => rw [ht] at h; simp at h
    | some t' =>
      rw [ht] at h
      cases hr : r.mapM (toFmTok names) with
      | none => rw [hr] at h; simp at h
      | some fr =>
        rw [hr] at h
        simp only [Option.pure_def, Option.bind_eq_bind, Option.bind_some, Option.some.injEq] at h
        subst h
        cases t with
        | id s =>
          simp only [toFmTok] at ht
          simp only [dep]
          split at ht
          · simp only [Option.some.injEq] at ht; subst ht; simp only [depT]; exact ih fr hr d
          · split at ht
            · simp only [Option.some.injEq] at ht; subst ht; simp only [depT]; exact ih fr hr d
            · simp only [Option.some.injEq] at ht; subst ht; simp only [depT]; exact ih fr hr d
        | comma => simp only [toFmTok, Option.some.injEq] at ht; subst ht; simp only [dep, depT]; exact ih fr hr d
        | semi => simp only [toFmTok, Option.some.injEq] at ht; subst ht; simp only [dep, depT]; exact ih fr hr d
        | not => simp only [toFmTok, Option.some.injEq] at ht; subst ht; simp only [dep, depT]; exact ih fr hr d
        | lpar => simp only [toFmTok, Option.some.injEq] at ht; subst ht; simp only [dep, depT]; exact ih fr hr (d + 1)
        | rpar =>
          simp only [toFmTok, Option.some.injEq] at ht; subst ht
          simp only [dep, depT]
          split
          · rfl
          · exact ih fr hr (d - 1)
        | kwSignature => simp [toFmTok] at ht
        | kwConditionals => simp [toFmTok] at ht
        | bar => simp [toFmTok] at ht
        | lbrace => simp [toFmTok] at ht
        | rbrace => simp [toFmTok] at ht
        | newline => simp [toFmTok] at ht

/-- a formula text followed by `|` or `)` at depth 0 is split off and parsed -/
theorem parseFmPrefix_complete (names : List String) (tb : List LTok) (pf : PF) (hd : DFm names tb pf) (t : LTok) (r : List LTok)
    (ht : t = .bar ∨ t = .rpar) : parseFmPrefix names (tb ++ t :: r) = some (pf, t :: r) := by
  obtain ⟨fts, f, hm, hD, rfl⟩ := hd
  have hdep : dep 0 tb = some 0 := by rw [dep_eq_depT names tb fts hm 0]; exact depT_D hD 0
  have hsplit : parseFmPrefix.split (tb ++ t :: r) 0 [] = some (tb, t :: r) := by
    rw [split_dep tb (t :: r) [] 0 0 hdep]
    rcases ht with rfl | rfl <;> simp [parseFmPrefix.split]
  unfold parseFmPrefix
  rw [hsplit]
  simp only [hm, parseFm_complete fts f hD, Option.map_some]

theorem skipNL_NLs_append : ∀ (nl x : List LTok), NLs nl → skipNL (nl ++ x) = skipNL x := by
  intro nl
  induction nl with
  | nil => intro x _; rfl
  | cons t r ih =>
    intro x h
    have : t = .newline := h t (by simp)
    subst this
    simp only [List.cons_append, skipNL]
    exact ih x (fun y hy => h y (List.mem_cons_of_mem _ hy))

theorem DConds_head (names : List String) : ∀ {ts : List LTok} {cs : List (PF × PF)}, DConds names ts cs →
    ∃ r, ts = .lpar :: r := by
  intro ts cs h
  cases h <;> exact ⟨_, rfl⟩

/-- **rule `condition`, completeness** -/
theorem C10_conditions_complete (names : List String) : ∀ {consumed : List LTok} {cs : List (PF × PF)},
    DConds names consumed cs → ∀ (rest : List LTok), (∀ r', rest ≠ .comma :: r') → ∀ fuel, cs.length < fuel →
    parseConditions names fuel (consumed ++ rest) = some (cs, skipNL rest) := by
  intro consumed cs h
  induction h with
  | @last tb ta b a hb ha =>
    intro rest hrest fuel hfuel
    cases fuel with
    | zero => simp at hfuel
    | succ fuel =>
      have e1 : (LTok.lpar :: (tb ++ .bar :: (ta ++ [.rpar]))) ++ rest = .lpar :: (tb ++ .bar :: (ta ++ .rpar :: rest)) := by
        simp [List.append_assoc]
      rw [e1]
      unfold parseConditions
      simp only [parseFmPrefix_complete names tb b hb .bar _ (Or.inl rfl),
        parseFmPrefix_complete names ta a ha .rpar _ (Or.inr rfl)]
  | @more tb ta nl rest0 b a cs0 hb ha hnl hrec ih =>
    intro rest hrest fuel hfuel
    cases fuel with
    | zero => simp at hfuel
    | succ fuel =>
      have e1 : (LTok.lpar :: (tb ++ .bar :: (ta ++ .rpar :: .comma :: (nl ++ rest0)))) ++ rest =
          .lpar :: (tb ++ .bar :: (ta ++ .rpar :: .comma :: (nl ++ (rest0 ++ rest)))) := by
        simp [List.append_assoc]
      rw [e1]
      unfold parseConditions
      simp only [parseFmPrefix_complete names tb b hb .bar _ (Or.inl rfl),
        parseFmPrefix_complete names ta a ha .rpar _ (Or.inr rfl)]
      obtain ⟨r0, hr0⟩ := DConds_head names hrec
      have hskip : skipNL (nl ++ (rest0 ++ rest)) = rest0 ++ rest := by
        rw [skipNL_NLs_append nl _ hnl, hr0]
        rfl
      rw [hskip, ih rest hrest fuel (by simp only [List.length_cons] at hfuel; omega)]

/-- soundness with the exact remainder: what is left before the trailing line ends are skipped does not start with a comma -/
theorem C10_conditions_sound_rem (names : List String) : ∀ (fuel : Nat) (ts : List LTok) (cs : List (PF × PF)) (rest : List LTok),
    parseConditions names fuel ts = some (cs, rest) →
    ∃ consumed rem, DConds names consumed cs ∧ ts = consumed ++ rem ∧ rest = skipNL rem ∧ (∀ r', rem ≠ .comma :: r') := by
  intro fuel
  induction fuel with
  | zero => intro ts cs rest h; simp [parseConditions] at h
  | succ fuel ih =>
    intro ts cs rest h
    unfold parseConditions at h
    split at h
    · rename_i r
      split at h
      · rename_i b r1 hb
        split at h
        · rename_i a r2 ha
          obtain ⟨tb, htb, hdb⟩ := parseFmPrefix_sound names r b (.bar :: r1) hb
          obtain ⟨ta, hta, hda⟩ := parseFmPrefix_sound names r1 a (.rpar :: r2) ha
          split at h
          · rename_i r3
            cases hrec : parseConditions names fuel (skipNL r3) with
            | none => rw [hrec] at h; simp at h
            | some p =>
              obtain ⟨cs', r4⟩ := p
              rw [hrec] at h
              simp only [Option.some.injEq, Prod.mk.injEq] at h
              obtain ⟨rfl, rfl⟩ := h
              obtain ⟨consumed, rem, hd, he, hr, hne⟩ := ih _ _ _ hrec
              obtain ⟨nl0, hnl0, he0⟩ := skipNL_spec r3
              refine ⟨.lpar :: (tb ++ .bar :: (ta ++ .rpar :: .comma :: (nl0 ++ consumed))), rem,
                DConds.more hdb hda hnl0 hd, ?_, hr, hne⟩
              rw [htb, hta, he0, he]
              simp [List.append_assoc]
          · rename_i hnc
            simp only [Option.some.injEq, Prod.mk.injEq] at h
            obtain ⟨rfl, rfl⟩ := h
            refine ⟨.lpar :: (tb ++ .bar :: (ta ++ [.rpar])), r2, DConds.last hdb hda, ?_, rfl, ?_⟩
            · rw [htb, hta]
              simp [List.append_assoc]
            · intro r' e
              exact hnc r' e
        · cases h
      · cases h
    · cases h

/-- **rule `condition`: accepted ⇔ documented shape**: the model accepts a token list and returns `cs` with remainder `rest`
exactly when the list is a `DConds` derivation of `cs` followed by a remainder that does not start with a comma, `rest` being
that remainder without its leading line ends. In particular a list with no such decomposition is rejected. -/
theorem C10_conditions_iff (names : List String) (ts : List LTok) (cs : List (PF × PF)) (rest : List LTok) :
    (∃ fuel, parseConditions names fuel ts = some (cs, rest)) ↔
    (∃ consumed rem, DConds names consumed cs ∧ ts = consumed ++ rem ∧ rest = skipNL rem ∧ (∀ r', rem ≠ .comma :: r')) := by
  constructor
  · rintro ⟨fuel, h⟩
    exact C10_conditions_sound_rem names fuel ts cs rest h
  · rintro ⟨consumed, rem, hd, he, hr, hne⟩
    exact ⟨cs.length + 1, by rw [he, hr]; exact C10_conditions_complete names hd rem hne _ (Nat.lt_succ_self _)⟩

/-- rejection: no decomposition, no acceptance (whatever the fuel) -/
theorem C10_conditions_reject (names : List String) (ts : List LTok)
    (h : ¬ ∃ cs consumed rem, DConds names consumed cs ∧ ts = consumed ++ rem ∧ (∀ r', rem ≠ .comma :: r')) :
    ∀ fuel, parseConditions names fuel ts = none := by
  intro fuel
  cases hp : parseConditions names fuel ts with
  | none => rfl
  | some p =>
    obtain ⟨cs, rest⟩ := p
    obtain ⟨consumed, rem, hd, he, _, hne⟩ := C10_conditions_sound_rem names fuel ts cs rest hp
    exact (h ⟨cs, consumed, rem, hd, he, hne⟩).elim

/-! non-vacuity: the tokens of `(a|b), (!a|a;b)` have the documented shape, and the model reads two conditionals -/
section Example
def exToks : List LTok :=
  [.lpar, .id "a", .bar, .id "b", .rpar, .comma, .newline, .lpar, .not, .id "a", .bar, .id "a", .semi, .id "b", .rpar, .rbrace]
example : (parseConditions ["a", "b"] 5 exToks).map (fun p => (p.1.length, p.2)) = some (2, [.rbrace]) := by decide
example : ∃ consumed rem cs, DConds ["a", "b"] consumed cs ∧ exToks = consumed ++ rem ∧ cs.length = 2 := by
  obtain ⟨cs, rest, h⟩ : ∃ cs rest, parseConditions ["a", "b"] 5 exToks = some (cs, rest) := by
    cases h : parseConditions ["a", "b"] 5 exToks with
    | none => have : (parseConditions ["a", "b"] 5 exToks).map (fun p => (p.1.length, p.2)) = some (2, [.rbrace]) := by decide
              rw [h] at this; cases this
    | some p => exact ⟨p.1, p.2, rfl⟩
  obtain ⟨consumed, rem, hd, he, _, _⟩ := C10_conditions_sound_rem _ _ _ _ _ h
  have hl : (parseConditions ["a", "b"] 5 exToks).map (fun p => (p.1.length, p.2)) = some (2, [.rbrace]) := by decide
  rw [h] at hl
  simp only [Option.map_some, Option.some.injEq, Prod.mk.injEq] at hl
  exact ⟨consumed, rem, cs, hd, he, hl.1⟩
end Example

end InfOCF
