import InfOCFModel.Props.C07
import InfOCFModel.Props.C16
/-!
# C07 (p-entailment, extended mode)

`algPExt` is `PEntailment._inference` with `weakly=True`: the extended partition of `D ∪ {(¬B|A)}` is
computed and the query holds iff `A` is unsatisfiable together with the non-falsification of the last
layer. `specPExt` is the property's case distinction over the feasible worlds `Ωf` of `D`. The key fact is
that the never-tolerated remainder of a greedy run is the *greatest self-intolerant subset*
(`GreedyRun_max`), which makes the remainder of the extended run on `D ∪ {(¬B|A)}` computable from the
infinity layer of `D` and the remainder of the strict run over `Ωf`.
-/
namespace InfOCF

theorem noneTol_iff (Ω : List World) (S : List Cond) : NoneTol Ω S ↔ ∀ c ∈ S, tolerated Ω S c = false := by
  simp [NoneTol, List.filter_eq_nil_iff]

theorem tolerated_mono {Ω : List World} {cs S : List Cond} {c : Cond} (h : tolerated Ω cs c = true)
    (hs : ∀ d ∈ S, d ∈ cs) : tolerated Ω S c = true :=
  (tolerated_iff Ω S c).mpr (((tolerated_iff Ω cs c).mp h).mono hs)

/-- the remainder of a greedy run contains every self-intolerant subset of the start set -/
theorem GreedyRun_max (Ω : List World) : ∀ (fin : List (List Cond)) (cs rem S : List Cond),
    GreedyRun Ω cs fin rem → (∀ c ∈ S, c ∈ cs) → (∀ c ∈ S, tolerated Ω S c = false) → ∀ c ∈ S, c ∈ rem := by
  intro fin
  induction fin with
  | nil => intro cs rem S h hsub _ c hc; simp only [GreedyRun] at h; subst h; exact hsub c hc
  | cons L rest ih =>
    intro cs rem S h hsub hint c hc
    obtain ⟨_, _, hrun⟩ := h
    apply ih _ rem S hrun _ hint c hc
    intro d hd
    simp only [List.mem_filter, Bool.not_eq_true']
    refine ⟨hsub d hd, ?_⟩
    cases ht : tolerated Ω cs d with
    | false => rfl
    | true => have h' := hint d hd; rw [tolerated_mono ht hsub] at h'; cases h'

theorem nofal_append (a b : List Cond) (w : World) : nofal (a ++ b) w = (nofal a w && nofal b w) := by
  simp [nofal, List.all_append]

/-- tolerance over the feasible worlds = tolerance over all worlds with the infinity layer added -/
theorem tolerated_feasible (Ω : List World) (inf S : List Cond) (c : Cond) :
    tolerated (feasible Ω inf) S c = tolerated Ω (S ++ inf) c := by
  simp only [tolerated, feasible, List.any_filter, nofal_append]
  congr 1; funext w
  cases nofal inf w <;> cases c.ver w <;> cases nofal S w <;> rfl

theorem nofal_of_subset {a b : List Cond} {w : World} (h : nofal b w = true) (hs : ∀ c ∈ a, c ∈ b) : nofal a w = true := by
  simp only [nofal, List.all_eq_true] at h ⊢
  intro c hc; exact h c (hs c hc)

theorem tolerated_congr_mem {Ω : List World} {S S' : List Cond} (c : Cond) (h : ∀ d, d ∈ S ↔ d ∈ S') :
    tolerated Ω S c = tolerated Ω S' c := by
  simp only [tolerated]
  congr 1; funext w
  have : nofal S w = nofal S' w := by
    rw [Bool.eq_iff_iff]
    exact ⟨fun hh => nofal_of_subset hh (fun d hd => (h d).mpr hd), fun hh => nofal_of_subset hh (fun d hd => (h d).mp hd)⟩
  rw [this]

/-- **the remainder of the extended run on `D ∪ {(¬B|A)}`**: a conditional is in it iff it is in the infinity
layer of `D` or in the remainder `T` of the greedy run of `fin ∪ {(¬B|A)}` over the feasible worlds -/
theorem rem_ext_query (Ω : List World) (D : List Cond) (nq : Cond) (fin : List (List Cond)) (inf : List Cond)
    (hD : GreedyRun Ω D fin inf) (hinf : NoneTol Ω inf)
    (fin' : List (List Cond)) (rem' : List Cond) (hD' : GreedyRun Ω (D ++ [nq]) fin' rem') (hrem' : NoneTol Ω rem')
    (finF : List (List Cond)) (T : List Cond)
    (hF : GreedyRun (feasible Ω inf) (fin.flatten ++ [nq]) finF T) (hT : NoneTol (feasible Ω inf) T) :
    ∀ c, c ∈ rem' ↔ (c ∈ inf ∨ c ∈ T) := by
  have hmemD := GreedyRun_mem Ω fin D inf hD
  have hmemD' := GreedyRun_mem Ω fin' (D ++ [nq]) rem' hD'
  have hmemF := GreedyRun_mem (feasible Ω inf) finF (fin.flatten ++ [nq]) T hF
  have hinf' := (noneTol_iff Ω inf).mp hinf
  have hrem'' := (noneTol_iff Ω rem').mp hrem'
  have hT' := (noneTol_iff _ T).mp hT
  have hTsub : ∀ c ∈ T, c ∈ D ++ [nq] := by
    intro c hc
    have := (hmemF c).mpr (Or.inr hc)
    rcases List.mem_append.mp this with h | h
    · exact List.mem_append.mpr (Or.inl ((hmemD c).mpr (Or.inl h)))
    · exact List.mem_append.mpr (Or.inr h)
  intro c
  constructor
  · intro hc
    by_cases hci : c ∈ inf
    · exact Or.inl hci
    · right
      -- U1 = rem' \ inf is self-intolerant over the feasible worlds, hence inside T
      let U1 := rem'.filter fun d => !(inf.contains d)
      have hU1sub : ∀ d ∈ U1, d ∈ fin.flatten ++ [nq] := by
        intro d hd
        obtain ⟨hdr, hdn⟩ := List.mem_filter.mp hd
        have hdn' : d ∉ inf := by
          intro h; rw [List.contains_iff_mem.mpr h] at hdn; simp at hdn
        have := (hmemD' d).mpr (Or.inr hdr)
        rcases List.mem_append.mp this with h | h
        · rcases (hmemD d).mp h with h1 | h1
          · exact List.mem_append.mpr (Or.inl h1)
          · exact absurd h1 hdn'
        · exact List.mem_append.mpr (Or.inr h)
      have hU1int : ∀ d ∈ U1, tolerated (feasible Ω inf) U1 d = false := by
        intro d hd
        obtain ⟨hdr, _⟩ := List.mem_filter.mp hd
        cases ht : tolerated (feasible Ω inf) U1 d with
        | false => rfl
        | true =>
          rw [tolerated_feasible] at ht
          -- every member of rem' is in U1 or in inf
          have : tolerated Ω rem' d = true := by
            apply tolerated_mono ht
            intro e he
            by_cases hei : e ∈ inf
            · exact List.mem_append.mpr (Or.inr hei)
            · exact List.mem_append.mpr (Or.inl (List.mem_filter.mpr ⟨he, by simp [hei]⟩))
          rw [hrem'' d hdr] at this; cases this
      apply GreedyRun_max (feasible Ω inf) finF _ T U1 hF hU1sub hU1int
      exact List.mem_filter.mpr ⟨hc, by simp [hci]⟩
  · intro hc
    -- inf ∪ T is self-intolerant over Ω and inside D ∪ {nq}
    apply GreedyRun_max Ω fin' (D ++ [nq]) rem' (inf ++ T) hD'
    · intro d hd
      rcases List.mem_append.mp hd with h | h
      · exact List.mem_append.mpr (Or.inl ((hmemD d).mpr (Or.inr h)))
      · exact hTsub d h
    · intro d hd
      cases ht : tolerated Ω (inf ++ T) d with
      | false => rfl
      | true =>
        rcases List.mem_append.mp hd with h | h
        · have := tolerated_mono ht (S := inf) (fun e he => List.mem_append.mpr (Or.inl he))
          rw [hinf' d h] at this; cases this
        · have h2 : tolerated Ω (T ++ inf) d = true := by
            rw [← ht]; exact tolerated_congr_mem d (fun e => by simp [List.mem_append, Or.comm])
          rw [← tolerated_feasible] at h2
          rw [hT' d h] at h2; cases h2
    · rcases hc with h | h
      · exact List.mem_append.mpr (Or.inl h)
      · exact List.mem_append.mpr (Or.inr h)

/-- the strict run over the feasible worlds gets stuck only on a set containing the negated query -/
theorem T_contains_query (Ωf : List World) (fin : List (List Cond)) (nq : Cond) (hfin : IsTolPart Ωf fin)
    (finF : List (List Cond)) (T : List Cond) (hF : GreedyRun Ωf (fin.flatten ++ [nq]) finF T) (hT : NoneTol Ωf T)
    (hne : T ≠ []) : nq ∈ T := by
  apply Classical.byContradiction
  intro hnq
  have hmem := GreedyRun_mem Ωf finF _ T hF
  have hsub : ∀ c ∈ T, c ∈ fin.flatten := by
    intro c hc
    rcases List.mem_append.mp ((hmem c).mpr (Or.inr hc)) with h | h
    · exact h
    · simp only [List.mem_singleton] at h; subst h; exact absurd hc hnq
  have hstuck : Stuck Ωf T := by
    refine ⟨hne, ?_⟩
    intro c hc htol
    have := (noneTol_iff Ωf T).mp hT c hc
    rw [(tolerated_iff Ωf T c).mpr htol] at this; cases this
  exact stuck_no_part Ωf T hstuck fin hfin hsub

theorem filter_length_add {α} (p : α → Bool) (l : List α) :
    (l.filter p).length + (l.filter fun x => !(p x)).length = l.length := by
  induction l with
  | nil => rfl
  | cons a t ih => cases h : p a <;> simp [List.filter_cons, h] <;> omega

theorem GreedyRun_length (Ω : List World) : ∀ (fin : List (List Cond)) (cs rem : List Cond),
    GreedyRun Ω cs fin rem → cs.length = fin.flatten.length + rem.length := by
  intro fin
  induction fin with
  | nil => intro cs rem h; simp only [GreedyRun] at h; subst h; simp
  | cons L rest ih =>
    intro cs rem h
    obtain ⟨_, hL, hrun⟩ := h
    have := ih _ rem hrun
    have hadd := filter_length_add (tolerated Ω cs) cs
    simp only [List.flatten_cons, List.length_append]
    rw [hL]; omega

/-- a member of a layer is verifiable -/
theorem GreedyRun_layer_ver (Ω : List World) : ∀ (fin : List (List Cond)) (cs rem : List Cond),
    GreedyRun Ω cs fin rem → ∀ c ∈ fin.flatten, ∃ w ∈ Ω, c.ver w = true := by
  intro fin
  induction fin with
  | nil => intro _ _ _ c hc; simp at hc
  | cons L rest ih =>
    intro cs rem h c hc
    obtain ⟨_, hL, hrun⟩ := h
    simp only [List.flatten_cons, List.mem_append] at hc
    rcases hc with hc | hc
    · rw [hL] at hc
      obtain ⟨w, hw, hv, _⟩ := (tolerated_iff Ω cs c).mp (List.mem_filter.mp hc).2
      exact ⟨w, hw, hv⟩
    · exact ih _ rem hrun c hc

/-- with a feasible falsifying world but no feasible verifying world the strict run over the feasible worlds succeeds -/
theorem T_empty_of_noV (Ωf : List World) (fin : List (List Cond)) (q : Cond) (hfin : IsTolPart Ωf fin)
    (finF : List (List Cond)) (T : List Cond) (hF : GreedyRun Ωf (fin.flatten ++ [negq q]) finF T) (hT : NoneTol Ωf T)
    (hf : ∃ w ∈ Ωf, q.fal w = true) (hv : ∀ w ∈ Ωf, q.ver w = false) : T = [] := by
  apply Classical.byContradiction
  intro hne
  have hnq := T_contains_query Ωf fin (negq q) hfin finF T hF hT hne
  have hT' := (noneTol_iff Ωf T).mp hT
  have hmem := GreedyRun_mem Ωf finF _ T hF
  by_cases h0 : ∀ c ∈ T, c = negq q
  · obtain ⟨w0, hw0, hf0⟩ := hf
    have : tolerated Ωf T (negq q) = true := by
      apply (tolerated_iff Ωf T (negq q)).mpr
      refine ⟨w0, hw0, by simpa using hf0, ?_⟩
      intro d hd
      rw [h0 d hd]; simpa using hv w0 hw0
    rw [hT' _ hnq] at this; cases this
  · let T0 := T.filter fun d => d != negq q
    have hT0sub : ∀ c ∈ T0, c ∈ fin.flatten := by
      intro c hc
      obtain ⟨hcT, hcn⟩ := List.mem_filter.mp hc
      have hcn' : c ≠ negq q := by simpa using hcn
      rcases List.mem_append.mp ((hmem c).mpr (Or.inr hcT)) with h | h
      · exact h
      · simp only [List.mem_singleton] at h; exact absurd h hcn'
    have hT0ne : T0 ≠ [] := by
      intro h
      apply h0
      intro c hc
      apply Classical.byContradiction
      intro hcn
      have : c ∈ T0 := List.mem_filter.mpr ⟨hc, by simpa using hcn⟩
      rw [h] at this; simp at this
    have hnotstuck : ¬ Stuck Ωf T0 := fun hs => stuck_no_part Ωf T0 hs fin hfin hT0sub
    have hex : ∃ c ∈ T0, Tol Ωf T0 c := by
      apply Classical.byContradiction
      intro hno
      exact hnotstuck ⟨hT0ne, fun c hc ht => hno ⟨c, hc, ht⟩⟩
    obtain ⟨c, hc, u, hu, hcu, hnf⟩ := hex
    have hcT : c ∈ T := (List.mem_filter.mp hc).1
    have : tolerated Ωf T c = true := by
      apply (tolerated_iff Ωf T c).mpr
      refine ⟨u, hu, hcu, ?_⟩
      intro d hd
      by_cases hdn : d = negq q
      · subst hdn; simpa using hv u hu
      · exact hnf d (List.mem_filter.mpr ⟨hd, by simpa using hdn⟩)
    rw [hT' c hcT] at this; cases this

/-- **C07 (extended p-entailment)**: on every weakly consistent base and every query, the extended p-entailment
algorithm computes exactly the property's case distinction over the feasible worlds -/
theorem C07_P (Ω : List World) (D : List Cond) (q : Cond) (fin : List (List Cond)) (inf : List Cond)
    (hP : partE Ω D = some (fin ++ [inf])) :
    some (algPExt Ω D q) = specPExt Ω D q := by
  obtain ⟨fin0, inf0, heq, hD, hinf, _⟩ := (C06_ext Ω D _).mp hP
  obtain ⟨h1, h2⟩ := List.append_inj' heq rfl
  simp only [List.cons.injEq, and_true] at h2
  subst h1; subst h2
  have hfinTP := GreedyRun_isTolPart Ω fin D inf hD
  obtain ⟨fin', rem', hD', hrem'⟩ := GreedyRun_exists Ω (D ++ [negq q]).length (D ++ [negq q]) (Nat.le_refl _)
  obtain ⟨finF, T, hF, hT⟩ := GreedyRun_exists (feasible Ω inf) (fin.flatten ++ [negq q]).length _ (Nat.le_refl _)
  have hrem := rem_ext_query Ω D (negq q) fin inf hD hinf fin' rem' hD' hrem' finF T hF hT
  have hnofal_rem : ∀ w, nofal rem' w = (nofal inf w && nofal T w) := by
    intro w
    rw [Bool.eq_iff_iff]
    simp only [nofal, List.all_eq_true, Bool.and_eq_true]
    constructor
    · intro h; exact ⟨fun c hc => h c ((hrem c).mpr (Or.inl hc)), fun c hc => h c ((hrem c).mpr (Or.inr hc))⟩
    · rintro ⟨ha, hb⟩ c hc
      rcases (hrem c).mp hc with h | h
      · exact ha c h
      · exact hb c h
  have halg : algPExt Ω D q = !(Ω.any fun w => q.ante.eval w && nofal rem' w) := by
    unfold algPExt
    by_cases hsat : rem' = [] ∨ ∃ w ∈ Ω, nofal rem' w = true
    · have := (tolPartExt_iff_run Ω (D.length + 2) (D ++ [negq q]) (fin' ++ [rem']) (by simp)).mpr
        ⟨fin', rem', rfl, hD', hrem', hsat⟩
      rw [this]; simp
    · have hnone : tolPartExt Ω (D.length + 2) (D ++ [negq q]) = none := by
        cases hp : tolPartExt Ω (D.length + 2) (D ++ [negq q]) with
        | none => rfl
        | some P' =>
          obtain ⟨f2, r2, _, hrun2, hn2, hs2⟩ := (tolPartExt_iff_run Ω (D.length + 2) (D ++ [negq q]) P' (by simp)).mp hp
          obtain ⟨_, hr⟩ := GreedyRun_det Ω fin' f2 _ rem' r2 hD' hrun2 hrem' hn2
          subst hr
          exact absurd hs2 hsat
      rw [hnone]
      simp only [not_or, not_exists, not_and, Bool.not_eq_true] at hsat
      symm
      simp only [Bool.not_eq_true', List.any_eq_false, Bool.and_eq_true, not_and, Bool.not_eq_true]
      intro w hw _
      exact hsat.2 w hw
  have halg2 : algPExt Ω D q = !((feasible Ω inf).any fun w => q.ante.eval w && nofal T w) := by
    rw [halg]
    congr 1
    simp only [feasible, List.any_filter]
    congr 1; funext w
    rw [hnofal_rem w]
    cases nofal inf w <;> cases q.ante.eval w <;> cases nofal T w <;> rfl
  have hlenF : (fin.flatten ++ [negq q]).length ≤ D.length + 2 := by
    have := GreedyRun_length Ω fin D inf hD
    simp only [List.length_append, List.length_cons, List.length_nil]; omega
  have hTnone : (tolPart (feasible Ω inf) (D.length + 2) (fin.flatten ++ [negq q])).isNone = !(T.isEmpty) := by
    cases T with
    | nil =>
      rw [(tolPart_iff_run (feasible Ω inf) _ _ finF hlenF).mpr hF]; rfl
    | cons t0 ts =>
      cases hp : tolPart (feasible Ω inf) (D.length + 2) (fin.flatten ++ [negq q]) with
      | none => rfl
      | some P2 =>
        have hrun2 := (tolPart_iff_run (feasible Ω inf) _ _ P2 hlenF).mp hp
        obtain ⟨_, hr⟩ := GreedyRun_det (feasible Ω inf) finF P2 _ (t0 :: ts) [] hF hrun2 hT (NoneTol_nil _)
        cases hr
  have hPE : tolPartExt Ω (D.length + 1) D = some (fin ++ [inf]) := hP
  have hlast : (fin ++ [inf]).getLastD [] = inf := by simp
  have hdrop : (fin ++ [inf]).dropLast = fin := by simp
  simp only [specPExt, hPE, hlast, hdrop]
  have hΩf : Ω.filter (nofal inf) = feasible Ω inf := rfl
  rw [hΩf, hTnone, halg2]
  have hT' := (noneTol_iff _ T).mp hT
  by_cases ha : (feasible Ω inf).any (fun w => q.ante.eval w) = true
  · simp only [ha, Bool.not_true, Bool.false_eq_true, ↓reduceIte]
    by_cases hf : (feasible Ω inf).any q.fal = true
    · simp only [hf, Bool.not_true, Bool.false_eq_true, ↓reduceIte]
      obtain ⟨wf, hwf, hfw⟩ := List.any_eq_true.mp hf
      by_cases hv : (feasible Ω inf).any q.ver = true
      · simp only [hv, Bool.not_true, Bool.false_eq_true, ↓reduceIte, Option.some.injEq]
        cases T with
        | nil =>
          simp only [List.isEmpty_nil, Bool.not_true, Bool.not_eq_false']
          obtain ⟨w, hw, hA⟩ := List.any_eq_true.mp ha
          exact List.any_eq_true.mpr ⟨w, hw, by simp [hA, nofal]⟩
        | cons t0 ts =>
          simp only [List.isEmpty_cons, Bool.not_false, Bool.not_eq_true', List.any_eq_false, Bool.and_eq_true, not_and,
            Bool.not_eq_true]
          intro w hw hA
          have hnq := T_contains_query _ fin (negq q) hfinTP finF (t0 :: ts) hF hT (by simp)
          cases hn : nofal (t0 :: ts) w with
          | false => rfl
          | true =>
            have hall : ∀ d ∈ t0 :: ts, d.fal w = false := by
              simpa [nofal, List.all_eq_true] using hn
            have hnqf : (negq q).fal w = false := hall _ hnq
            have hqv : q.ver w = false := by simpa using hnqf
            have hqf : q.fal w = true := by
              simp only [Cond.ver, Cond.fal, hA, Bool.true_and] at hqv ⊢; simp [hqv]
            have : tolerated (feasible Ω inf) (t0 :: ts) (negq q) = true :=
              (tolerated_iff _ _ _).mpr ⟨w, hw, by simpa using hqf, hall⟩
            rw [hT' _ hnq] at this; cases this
      · have hvf : (feasible Ω inf).any q.ver = false := by simpa using hv
        have hv' : ∀ w ∈ feasible Ω inf, q.ver w = false := by
          simp only [List.any_eq_false] at hvf
          intro w hw; simpa using hvf w hw
        simp only [hvf, Bool.not_false, ↓reduceIte, Option.some.injEq, Bool.not_eq_false']
        have hTe := T_empty_of_noV _ fin q hfinTP finF T hF hT ⟨wf, hwf, hfw⟩ hv'
        subst hTe
        obtain ⟨w, hw, hA⟩ := List.any_eq_true.mp ha
        exact List.any_eq_true.mpr ⟨w, hw, by simp [hA, nofal]⟩
    · have hff : (feasible Ω inf).any q.fal = false := by simpa using hf
      simp only [hff, Bool.not_false, ↓reduceIte, Option.some.injEq, Bool.not_eq_true', List.any_eq_false, Bool.and_eq_true,
        not_and, Bool.not_eq_true]
      intro w hw hA
      have hqf : q.fal w = false := by
        simp only [List.any_eq_false] at hff; simpa using hff w hw
      have hqv : q.ver w = true := by
        simp only [Cond.ver, Cond.fal, hA, Bool.true_and, Bool.not_eq_false'] at hqf ⊢; exact hqf
      have hTne : T ≠ [] := by
        intro hTe
        subst hTe
        have hmem := GreedyRun_mem _ finF _ [] hF
        have hin : negq q ∈ finF.flatten := by
          rcases (hmem (negq q)).mp (by simp) with h | h
          · exact h
          · simp at h
        obtain ⟨u, hu, huv⟩ := GreedyRun_layer_ver _ finF _ [] hF _ hin
        simp only [List.any_eq_false] at hff
        have hh := hff u hu
        simp only [negq_ver] at huv
        rw [huv] at hh; simp at hh
      have hnq := T_contains_query _ fin (negq q) hfinTP finF T hF hT hTne
      cases hn : nofal T w with
      | false => rfl
      | true =>
        have hall : ∀ d ∈ T, d.fal w = false := by
          simpa [nofal, List.all_eq_true] using hn
        have hh := hall _ hnq
        simp only [negq_fal] at hh
        rw [hqv] at hh; cases hh
  · have haf : (feasible Ω inf).any (fun w => q.ante.eval w) = false := by simpa using ha
    simp only [haf, Bool.not_false, ↓reduceIte, Option.some.injEq, Bool.not_eq_true', List.any_eq_false, Bool.and_eq_true,
      not_and, Bool.not_eq_true]
    intro w hw hA
    simp only [List.any_eq_false] at haf
    have hh := haf w hw
    rw [hA] at hh; simp at hh

/-- at the level of the operator a user calls -/
theorem C07_P_ans (Ω : List World) (D : List Cond) (q : Cond) (fin : List (List Cond)) (inf : List Cond)
    (hD : D ≠ []) (hP : partE Ω D = some (fin ++ [inf])) :
    ∃ b, specPExt Ω D q = some b ∧ ansP true Ω D q = .val (trivialQ Ω q || b) := by
  have hPF : partFor true Ω D = some (fin ++ [inf]) := by simpa [partFor] using hP
  refine ⟨algPExt Ω D q, (C07_P Ω D q fin inf hP).symm, ?_⟩
  rw [ansP, wrap_some hD hPF]
  by_cases ht : trivialQ Ω q = true
  · simp [ht]
  · simp [ht, bodyP]

end InfOCF
