import InfOCFModel.Props.Common
/-!
# C02  System Z answers equal rank comparison under the Z-ranking

`ansZ false` is the model of what `InferenceManager(bb,'system-z').inference` computes in strict
mode (refusal, `general_inference` short cut, `_rec_inference`). `zrk P` is the Z-ranking.
-/
namespace InfOCF

/-- the Z-ranking in the property's words: 0 iff no conditional is falsified -/
theorem C02_zrank_zero (P : List (List Cond)) (w : World) :
    zrk P w = 0 ↔ ∀ c ∈ P.flatten, c.fal w = false := by
  induction P with
  | nil => simp [zrk]
  | cons L rest ih =>
    simp only [zrk, List.flatten_cons, List.mem_append]
    constructor
    · intro h c hc
      by_cases hr : zrk rest w = 0
      · simp only [hr, ne_eq, not_true_eq_false, ↓reduceIte] at h
        rcases hc with hc | hc
        · by_cases ha : L.any (·.fal w) = true
          · simp [ha] at h
          · simp only [List.any_eq_true, not_exists, not_and, Bool.not_eq_true] at ha
            exact ha c hc
        · exact ih.mp hr c hc
      · simp [hr] at h
    · intro h
      have hr : zrk rest w = 0 := ih.mpr (fun c hc => h c (Or.inr hc))
      have hL : L.any (·.fal w) = false := by
        simp only [List.any_eq_false]; intro x hx; simp [h x (Or.inl hx)]
      simp [hr, hL]

/-- … otherwise 1 + the largest index of a layer containing a falsified conditional -/
theorem C02_zrank_succ (P : List (List Cond)) (w : World) (i : Nat) :
    zrk P w = i + 1 ↔
      (∃ L, P[i]? = some L ∧ L.any (·.fal w) = true) ∧
      ∀ j, i < j → ∀ L, P[j]? = some L → L.any (·.fal w) = false := by
  induction P generalizing i with
  | nil => simp [zrk]
  | cons L rest ih =>
    simp only [zrk]
    by_cases hr : zrk rest w = 0
    · have hrest := (C02_zrank_zero rest w).mp hr
      have hall : ∀ (j : Nat) (L' : List Cond), rest[j]? = some L' → L'.any (·.fal w) = false := by
        intro j L' hj
        simp only [List.any_eq_false]
        intro x hx
        have : x ∈ rest.flatten := List.mem_flatten.mpr ⟨L', List.mem_of_getElem? hj, hx⟩
        simp [hrest x this]
      simp only [hr, ne_eq, not_true_eq_false, ↓reduceIte]
      by_cases ha : L.any (·.fal w) = true
      · simp only [ha, ↓reduceIte]
        constructor
        · intro h
          have : i = 0 := by omega
          subst this
          refine ⟨⟨L, by simp, ha⟩, ?_⟩
          intro j hj L' hL'
          cases j with
          | zero => omega
          | succ j => exact hall j L' (by simpa using hL')
        · rintro ⟨⟨L', hL', ha'⟩, _⟩
          cases i with
          | zero => rfl
          | succ i =>
            have := hall i L' (by simpa using hL')
            simp [this] at ha'
      · simp only [ha]
        simp only [Bool.false_eq_true, ↓reduceIte]
        constructor
        · intro h; omega
        · rintro ⟨⟨L', hL', ha'⟩, _⟩
          cases i with
          | zero =>
            simp only [List.getElem?_cons_zero, Option.some.injEq] at hL'
            subst hL'; exact absurd ha' ha
          | succ i =>
            have := hall i L' (by simpa using hL')
            simp [this] at ha'
    · simp only [ne_eq, hr, not_false_eq_true, ↓reduceIte]
      obtain ⟨k, hk⟩ : ∃ k, zrk rest w = k + 1 := ⟨zrk rest w - 1, by omega⟩
      constructor
      · intro h
        have hik : i = k + 1 := by omega
        subst hik
        obtain ⟨⟨L', hL', ha'⟩, hup⟩ := (ih k).mp hk
        refine ⟨⟨L', by simpa using hL', ha'⟩, ?_⟩
        intro j hj L'' hL''
        cases j with
        | zero => omega
        | succ j => exact hup j (by omega) L'' (by simpa using hL'')
      · rintro ⟨⟨L', hL', ha'⟩, hup⟩
        cases i with
        | zero =>
          -- layer k+1 of (L :: rest) falsified, contradicting hup
          obtain ⟨⟨L'', hL'', ha''⟩, _⟩ := (ih k).mp hk
          have := hup (k + 1) (by omega) L'' (by simpa using hL'')
          simp [this] at ha''
        | succ i =>
          have : zrk rest w = i + 1 :=
            (ih i).mpr ⟨⟨L', by simpa using hL', ha'⟩,
              fun j hj L'' hL'' => hup (j + 1) (by omega) L'' (by simpa using hL'')⟩
          omega

/-- **C02 (main)**: on a non-empty strongly consistent base System Z answers exactly the rank
comparison `kz(A∧B) < kz(A∧¬B)` in its `∀ falsifying ∃ verifying` form, for every query. -/
theorem C02_main (Ω : List World) (D : List Cond) (q : Cond) (P : List (List Cond))
    (hD : D ≠ []) (hP : partS Ω D = some P) :
    ansZ false Ω D q = .val (specZ Ω P q) := by
  have hPF : partFor false Ω D = some P := by simpa [partFor] using hP
  rw [ansZ, wrap_some hD hPF]
  simp only [finLayers, infLayer, Bool.false_eq_true, ↓reduceIte, feasible_nil]
  split
  · rename_i ht
    congr 1
    have := trivialQ_no_fal ht
    simp only [specZ, prefEnt]
    have hnil : Ω.filter q.fal = [] := by
      simp only [List.filter_eq_nil_iff]; intro w hw; simp [this w hw]
    simp [hnil]
  · rename_i ht
    have ht : trivialQ Ω q = false := by simpa using ht
    congr 1
    have hne := partS_nonempty hD hP
    simp only [bodyZ, Bool.false_and, Bool.false_eq_true, ↓reduceIte]
    cases P with
    | nil => exact absurd rfl hne
    | cons L rest =>
      exact algZ_eq_specZ Ω (L :: rest) hne q (not_trivialQ_fal ht)

/-- the `∀∃` form is the comparison of least ranks (“rank of a formula = least rank of its models,
infinite if none”): some verifying world lies strictly below *every* falsifying world. -/
theorem C02_rank_form (Ω : List World) (P : List (List Cond)) (q : Cond)
    (hf : ∃ w' ∈ Ω, q.fal w' = true) :
    specZ Ω P q = true ↔ ∃ w ∈ Ω, q.ver w = true ∧ ∀ w' ∈ Ω, q.fal w' = true → zrk P w < zrk P w' := by
  rw [← forall_exists_iff_exists_forall Ω (zrk P) q hf]
  simp only [specZ, prefEnt, List.all_eq_true, List.any_eq_true, List.mem_filter, decide_eq_true_eq]
  constructor
  · intro h w' hw' hf'
    obtain ⟨w, ⟨hw, hv⟩, hlt⟩ := h w' ⟨hw', hf'⟩
    exact ⟨w, hw, hv, hlt⟩
  · rintro h w' ⟨hw', hf'⟩
    obtain ⟨w, hw, hv, hlt⟩ := h w' hw' hf'
    exact ⟨w, ⟨hw, hv⟩, hlt⟩

/-- queries the short cut answers (A or A∧¬B unsatisfiable) are True -/
theorem C02_trivial (Ω : List World) (D : List Cond) (q : Cond) (P : List (List Cond))
    (hD : D ≠ []) (hP : partS Ω D = some P) (ht : trivialQ Ω q = true) :
    ansZ false Ω D q = .val true := by
  have hPF : partFor false Ω D = some P := by simpa [partFor] using hP
  rw [ansZ, wrap_some hD hPF]; simp [ht]

/-- refusal: an empty base and a base without tolerance partition are not answered -/
theorem C02_refuse (Ω : List World) (D : List Cond) (q : Cond) :
    (D = [] → ansZ false Ω D q = .refuseEmpty) ∧
    (D ≠ [] → partS Ω D = none → ansZ false Ω D q = .refuseIncons) := by
  constructor
  · rintro rfl; rfl
  · intro hD hP
    rw [ansZ, wrap_none hD (by simpa [partFor] using hP)]

/-! non-vacuity: the penguin base (two layers) and a query decided at the lower layer -/
section Example
def exΩ := allWorlds 3
-- atoms: 0 = b(ird), 1 = p(enguin), 2 = f(lies)
def exD : List Cond := [⟨.atom 2, .atom 0, 1⟩, ⟨.neg (.atom 2), .atom 1, 2⟩, ⟨.atom 0, .atom 1, 3⟩]
example : ∃ P, partS exΩ exD = some P ∧ P.length = 2 := by decide
example : ansZ false exΩ exD ⟨.atom 2, .and (.atom 0) (.neg (.atom 1)), 0⟩ = .val true := by decide
example : ansZ false exΩ exD ⟨.atom 2, .atom 1, 0⟩ = .val false := by decide
end Example

end InfOCF
