import InfOCFModel.Props.C08
import InfOCFModel.SysP
/-!
# C09  Direct inference and the System P postulates (+ rational monotony for Z and lex)

Every operator model answers `prefEnt Ωf lt q` for a strict partial order `lt` on the feasible worlds
(C02/C03/C04/C07). System P is proved once, for *any* strict partial order on a finite world list
(`SysP.lean`), and instantiated.
-/
namespace InfOCF

/-! ### the three orders are strict partial orders -/

theorem wless_irrefl : ∀ (T : List (List Cond)) (w : World), wless T w w = false := by
  intro T; induction T with
  | nil => intro w; rfl
  | cons L rest ih => intro w; simp [wless, ih]

theorem wless_trans : ∀ (T : List (List Cond)) (a b c : World),
    wless T a b = true → wless T b c = true → wless T a c = true := by
  intro T; induction T with
  | nil => intro a b c h; simp [wless] at h
  | cons L rest ih =>
    intro a b c hab hbc
    simp only [wless] at hab hbc ⊢
    by_cases h1 : fset L a = fset L b
    · by_cases h2 : fset L b = fset L c
      · simp only [h1, h2, ↓reduceIte] at hab hbc ⊢
        exact ih a b c hab hbc
      · simp only [h1, ↓reduceIte] at hab
        simp only [h2, ↓reduceIte] at hbc
        simp only [h1, h2, ↓reduceIte]
        exact hbc
    · by_cases h2 : fset L b = fset L c
      · simp only [h1, ↓reduceIte] at hab
        simp only [← h2, h1, ↓reduceIte]
        exact hab
      · simp only [h1, ↓reduceIte] at hab
        simp only [h2, ↓reduceIte] at hbc
        have hac : fset L a ≠ fset L c := by
          intro heq
          apply h1
          exact fset_antisymm hab (by rw [heq]; exact hbc)
        simp only [hac, ↓reduceIte]
        exact subsetL_trans hab hbc

def zSPO (P : List (List Cond)) : SPO where
  lt := fun w w' => decide (zrk P w < zrk P w')
  irrefl := by intro w; simp
  trans := by intro a b c h1 h2; simp only [decide_eq_true_eq] at *; omega

def wSPO (T : List (List Cond)) : SPO where
  lt := wless T
  irrefl := wless_irrefl T
  trans := wless_trans T

def lexSPO (T : List (List Cond)) : SPO where
  lt := fun w w' => lexLt (lexVec T w) (lexVec T w')
  irrefl := by intro w; exact lexLt_irrefl _
  trans := by intro a b c; exact lexLt_trans _ _ _

/-! ### `prefEnt` is `Ent` -/

theorem prefEnt_iff_Ent (Ω : List World) (o : SPO) (A B : Fm) (k : Nat) :
    prefEnt Ω o.lt ⟨B, A, k⟩ = true ↔ Ent Ω o A B := by
  simp only [prefEnt, Ent, List.all_eq_true, List.any_eq_true, List.mem_filter, Cond.fal, Cond.ver,
    Bool.and_eq_true, Bool.not_eq_true']
  constructor
  · intro h w' hw' ha hb
    obtain ⟨w, ⟨hw, hav, hbv⟩, hlt⟩ := h w' ⟨hw', ha, hb⟩
    exact ⟨w, hw, hav, hbv, hlt⟩
  · rintro h w' ⟨hw', ha, hb⟩
    obtain ⟨w, hw, hav, hbv, hlt⟩ := h w' hw' ha hb
    exact ⟨w, ⟨hw, hav, hbv⟩, hlt⟩

/-- an operator (for a fixed mode and accepted base) whose answers are preferential entailment -/
structure PrefOp (ans : Cond → Out) where
  Ωf : List World
  o : SPO
  h : ∀ q, ans q = .val (prefEnt Ωf o.lt q)

/-- the inference relation of an operator: `A |~ B` iff it answers True to `(B|A)` -/
def Infers (ans : Cond → Out) (A B : Fm) : Prop := ans ⟨B, A, 0⟩ = .val true

theorem infers_iff {ans} (po : PrefOp ans) (A B : Fm) : Infers ans A B ↔ Ent po.Ωf po.o A B := by
  unfold Infers
  rw [po.h, ← prefEnt_iff_Ent po.Ωf po.o A B 0]
  constructor
  · intro h; simpa using h
  · intro h; rw [h]

/-- System Z, W, lex as `PrefOp`s (any mode, any accepted base) -/
def prefOpZ (weakly : Bool) (Ω : List World) (D : List Cond) (P : List (List Cond)) (hD : D ≠ [])
    (hP : partFor weakly Ω D = some P) : PrefOp (ansZ weakly Ω D) where
  Ωf := feasible Ω (infLayer weakly P)
  o := zSPO (finLayers weakly P)
  h := by
    intro q
    cases weakly
    · have hP' : partS Ω D = some P := by simpa [partFor] using hP
      simp only [finLayers, infLayer, Bool.false_eq_true, ↓reduceIte, feasible_nil]
      exact C02_main Ω D q P hD hP'
    · have hP' : partE Ω D = some P := by simpa [partFor] using hP
      simp only [finLayers, infLayer, ↓reduceIte]
      exact C07_Z Ω D q P hD hP'

def prefOpW (weakly : Bool) (Ω : List World) (D : List Cond) (P : List (List Cond)) (hD : D ≠ [])
    (hP : partFor weakly Ω D = some P) : PrefOp (ansW weakly Ω D) where
  Ωf := feasible Ω (infLayer weakly P)
  o := wSPO (finLayers weakly P).reverse
  h := by
    intro q
    cases weakly
    · have hP' : partS Ω D = some P := by simpa [partFor] using hP
      simp only [finLayers, infLayer, Bool.false_eq_true, ↓reduceIte, feasible_nil]
      exact C03_main Ω D q P hD hP'
    · have hP' : partE Ω D = some P := by simpa [partFor] using hP
      simp only [finLayers, infLayer, ↓reduceIte]
      exact C07_W Ω D q P hD hP'

def prefOpLex (weakly : Bool) (Ω : List World) (D : List Cond) (P : List (List Cond)) (hD : D ≠ [])
    (hP : partFor weakly Ω D = some P) : PrefOp (ansLex weakly Ω D) where
  Ωf := feasible Ω (infLayer weakly P)
  o := lexSPO (finLayers weakly P).reverse
  h := by
    intro q
    cases weakly
    · have hP' : partS Ω D = some P := by simpa [partFor] using hP
      simp only [finLayers, infLayer, Bool.false_eq_true, ↓reduceIte, feasible_nil]
      exact C04_main Ω D q P hD hP'
    · have hP' : partE Ω D = some P := by simpa [partFor] using hP
      simp only [finLayers, infLayer, ↓reduceIte]
      exact C07_Lex Ω D q P hD hP'

/-- **System P** for every preferential operator: reflexivity, left logical equivalence, right
weakening (hence supraclassicality), And, Or, cautious monotony, Cut -/
theorem C09_systemP {ans} (po : PrefOp ans) :
    (∀ A, Infers ans A A) ∧
    (∀ A A' B, (∀ w, A.eval w = A'.eval w) → Infers ans A B → Infers ans A' B) ∧
    (∀ A B C, (∀ w, B.eval w = true → C.eval w = true) → Infers ans A B → Infers ans A C) ∧
    (∀ A B C, Infers ans A B → Infers ans A C → Infers ans A (.and B C)) ∧
    (∀ A B C, Infers ans A C → Infers ans B C → Infers ans (.or A B) C) ∧
    (∀ A B C, Infers ans A B → Infers ans A C → Infers ans (.and A B) C) ∧
    (∀ A B C, Infers ans A B → Infers ans (.and A B) C → Infers ans A C) := by
  refine ⟨?_, ?_, ?_, ?_, ?_, ?_, ?_⟩
  · intro A; rw [infers_iff po]; exact REF _ _ A
  · intro A A' B heq; rw [infers_iff po, infers_iff po]; exact LLE _ _ A A' B heq
  · intro A B C himp; rw [infers_iff po, infers_iff po]; exact RW _ _ A B C himp
  · intro A B C; rw [infers_iff po, infers_iff po, infers_iff po]; exact AND _ _ A B C
  · intro A B C; rw [infers_iff po, infers_iff po, infers_iff po]; exact OR _ _ A B C
  · intro A B C; rw [infers_iff po, infers_iff po, infers_iff po]; exact CM _ _ A B C
  · intro A B C; rw [infers_iff po, infers_iff po, infers_iff po]; exact CUT _ _ A B C

/-- supraclassicality: `A ⊨ B` implies `A |~ B` -/
theorem C09_supraclassical {ans} (po : PrefOp ans) (A B : Fm) (h : ∀ w, A.eval w = true → B.eval w = true) :
    Infers ans A B :=
  (C09_systemP po).2.2.1 A A B h ((C09_systemP po).1 A)

/-- rational monotony for modular orders (negatively transitive `lt`) -/
theorem RM_modular (Ω : List World) (o : SPO)
    (hneg : ∀ a b c, o.lt a b = false → o.lt b c = false → o.lt a c = false)
    (A B C : Fm) (h1 : Ent Ω o A C) (h2 : ¬ Ent Ω o A (.neg B)) : Ent Ω o (.and A B) C := by
  rw [ent_iff_min] at h1 ⊢
  rw [ent_iff_min] at h2
  obtain ⟨m0, h⟩ := Classical.not_forall.mp h2
  obtain ⟨hm0, hB0⟩ := Classical.not_imp.mp h
  have hB0 : B.eval m0 = true := by simpa [Fm.eval] using hB0
  intro m ⟨hm, hAB, hmin⟩
  simp only [Fm.eval, Bool.and_eq_true] at hAB
  apply h1 m
  refine ⟨hm, hAB.1, ?_⟩
  intro x hx hAx
  have a := hmin m0 hm0.1 (by simp [Fm.eval, hm0.2.1, hB0])
  have b := hm0.2.2 x hx hAx
  exact hneg x m0 m b a

theorem lexLt_negtrans (n : Nat) : ∀ a b c : List Nat, a.length = n → b.length = n → c.length = n →
    lexLt a b = false → lexLt b c = false → lexLt a c = false := by
  intro a b c ha hb hc h1 h2
  cases h : lexLt a c with
  | false => rfl
  | true =>
    rcases lexLt_total b a (by omega) with h3 | h3 | h3
    · have := lexLt_trans _ _ _ h3 h
      rw [h2] at this; cases this
    · subst h3; rw [h2] at h; cases h
    · rw [h1] at h3; cases h3

/-- **rational monotony** for System Z and lexicographic inference (any mode, any accepted base) -/
theorem C09_RM_Z (weakly : Bool) (Ω : List World) (D : List Cond) (P : List (List Cond)) (hD : D ≠ [])
    (hP : partFor weakly Ω D = some P) (A B C : Fm)
    (h1 : Infers (ansZ weakly Ω D) A C) (h2 : ¬ Infers (ansZ weakly Ω D) A (.neg B)) :
    Infers (ansZ weakly Ω D) (.and A B) C := by
  have po := prefOpZ weakly Ω D P hD hP
  rw [infers_iff (prefOpZ weakly Ω D P hD hP)] at h1 h2 ⊢
  apply RM_modular _ _ _ A B C h1 h2
  intro a b c hab hbc
  simp only [prefOpZ, zSPO, decide_eq_false_iff_not, Nat.not_lt] at *
  omega

theorem C09_RM_Lex (weakly : Bool) (Ω : List World) (D : List Cond) (P : List (List Cond)) (hD : D ≠ [])
    (hP : partFor weakly Ω D = some P) (A B C : Fm)
    (h1 : Infers (ansLex weakly Ω D) A C) (h2 : ¬ Infers (ansLex weakly Ω D) A (.neg B)) :
    Infers (ansLex weakly Ω D) (.and A B) C := by
  rw [infers_iff (prefOpLex weakly Ω D P hD hP)] at h1 h2 ⊢
  apply RM_modular _ _ _ A B C h1 h2
  intro a b c hab hbc
  exact lexLt_negtrans (finLayers weakly P).reverse.length _ _ _ (by simp [lexVec]) (by simp [lexVec])
    (by simp [lexVec]) hab hbc

/-- `(⊥|A)` is inferred only when no feasible world satisfies `A` (strict mode: only for unsatisfiable A) -/
theorem C09_consistency_preservation {ans} (po : PrefOp ans) (A : Fm) (h : Infers ans A .bot) :
    ∀ w ∈ po.Ωf, A.eval w = false := by
  rw [infers_iff po] at h
  intro w hw
  cases ha : A.eval w with
  | false => rfl
  | true =>
    obtain ⟨_, _, _, hb, _⟩ := h w hw ha (by simp [Fm.eval])
    simp [Fm.eval] at hb

/-- **direct inference** (strict mode): every conditional of the base is inferred by Z, W and lex -/
theorem C09_direct (Ω : List World) (D : List Cond) (P : List (List Cond)) (hD : D ≠ [])
    (hP : partS Ω D = some P) (c : Cond) (hc : c ∈ D) :
    ansZ false Ω D c = .val true ∧ ansW false Ω D c = .val true ∧ ansLex false Ω D c = .val true := by
  obtain ⟨hpart, hmem⟩ := tolPart_sound Ω D.length D P hP
  have hz : ansZ false Ω D c = .val true := by
    rw [C02_main Ω D c P hD hP]
    congr 1
    apply p_le_Z Ω P hpart c
    intro κ hκ
    exact hκ c ((hmem c).mpr hc)
  have hw := C08_Z_le_W false Ω D c hz
  exact ⟨hz, hw, C08_W_le_Lex false Ω D c hw⟩

/-- direct inference for p-entailment (strict mode) -/
theorem C09_direct_P (Ω : List World) (D : List Cond) (P : List (List Cond)) (hD : D ≠ [])
    (hP : partS Ω D = some P) (c : Cond) (hc : c ∈ D) :
    ansP false Ω D c = .val true := by
  by_cases hA : ∃ w ∈ Ω, c.ante.eval w = true
  · exact (C01_models Ω D c P hD hP hA).mpr (fun κ hκ => hκ c hc)
  · apply C01_trivial Ω D c P hD hP
    simp only [trivialQ, Bool.or_eq_true, Bool.not_eq_true', List.any_eq_false]
    left
    intro w hw
    cases h : c.ante.eval w with
    | false => simp
    | true => exact absurd ⟨w, hw, h⟩ hA

/-! non-vacuity -/
section Example
example : Infers (ansW false (allWorlds 3) exW_D) (.and (.atom 0) (.neg (.atom 1))) (.atom 2) := by
  unfold Infers; decide
end Example

end InfOCF
