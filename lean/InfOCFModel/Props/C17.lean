import InfOCFModel.Props.C05
import InfOCFModel.Props.C18
/-!
# C17  The c-representation ranking object is a minimal model of the base
-/
namespace InfOCF

/-- **rank = sum of the impacts of the falsified conditionals** -/
theorem C17_rank_is_cost (D : List Cond) (imp : Cond → Nat) (w : World) :
    kappaC D imp w = sumL ((D.filter (·.fal w)).map imp) := rfl

theorem mem_boxVectors : ∀ (b v : List Nat), v ∈ boxVectors b ↔ leVec v b = true := by
  intro b
  induction b with
  | nil =>
    intro v
    cases v with
    | nil => simp [boxVectors, leVec]
    | cons x xs => simp [boxVectors, leVec]
  | cons y ys ih =>
    intro v
    cases v with
    | nil => simp [boxVectors, leVec]
    | cons x xs =>
      simp only [boxVectors, List.mem_flatMap, List.mem_range, List.mem_map, List.cons.injEq, leVec, Bool.and_eq_true,
        decide_eq_true_eq]
      constructor
      · rintro ⟨a, ha, t, ht, rfl, rfl⟩
        exact ⟨by omega, (ih t).mp ht⟩
      · rintro ⟨hle, hrest⟩
        exact ⟨x, by omega, xs, (ih xs).mpr hrest, rfl, rfl⟩

/-- **Pareto-minimality is decided by the finite box test**: `η` is Pareto-minimal among *all* c-representations
(of any size) iff no other c-representation lies in the box below it -/
theorem C17_pareto_box (Ω : List World) (D : List Cond) (η : List Nat) :
    paretoMinB Ω D η = true ↔ ∀ η' : List Nat, leVec η' η = true → isCRepB Ω D η' = true → η' = η := by
  simp only [paretoMinB, List.all_eq_true, Bool.or_eq_true, beq_iff_eq, Bool.not_eq_true']
  constructor
  · intro h η' hle hrep
    rcases h η' ((mem_boxVectors η η').mpr hle) with h1 | h1
    · exact h1
    · rw [hrep] at h1; cases h1
  · intro h η' hmem
    have hle := (mem_boxVectors η η').mp hmem
    cases hrep : isCRepB Ω D η' with
    | false => exact Or.inr rfl
    | true => exact Or.inl (h η' hle hrep)

theorem leVec_trans : ∀ (a b c : List Nat), leVec a b = true → leVec b c = true → leVec a c = true := by
  intro a
  induction a with
  | nil => intro b c h1 h2; cases b <;> cases c <;> simp_all [leVec]
  | cons x xs ih =>
    intro b c h1 h2
    cases b with
    | nil => simp [leVec] at h1
    | cons y ys =>
      cases c with
      | nil => simp [leVec] at h2
      | cons z zs =>
        simp only [leVec, Bool.and_eq_true, decide_eq_true_eq] at h1 h2 ⊢
        exact ⟨by omega, ih ys zs h1.2 h2.2⟩

/-- **the front inside a cube is exact**: a vector is reported iff it lies in the cube, is a c-representation and is
Pareto-minimal among all c-representations (soundness and completeness of the enumeration used as the oracle) -/
theorem C17_front_sound_complete (Ω : List World) (D : List Cond) (B : Nat) (η : List Nat) :
    η ∈ frontInCube Ω D B ↔
      (leVec η (D.map fun _ => B) = true ∧ isCRepB Ω D η = true ∧ paretoMinB Ω D η = true) := by
  simp only [frontInCube, List.mem_filter, mem_boxVectors, List.all_eq_true, Bool.or_eq_true, beq_iff_eq,
    Bool.not_eq_true', and_assoc]
  constructor
  · rintro ⟨hcube, hrep, hmin⟩
    refine ⟨hcube, hrep, ?_⟩
    rw [C17_pareto_box]
    intro η' hle hrep'
    have hcube' := leVec_trans η' η _ hle hcube
    rcases hmin η' ⟨hcube', hrep'⟩ with h | h
    · exact h
    · rw [hle] at h; cases h
  · rintro ⟨hcube, hrep, hmin⟩
    refine ⟨hcube, hrep, ?_⟩
    rintro η' ⟨_, hrep'⟩
    cases hle : leVec η' η with
    | false => exact Or.inr rfl
    | true => exact Or.inl ((C17_pareto_box Ω D η).mp hmin η' hle hrep')

/-- **every query c-inference entails is accepted by every c-representation**, in particular by the object's -/
theorem C17_cinf_accepted (Ω : List World) (D : List Cond) (q : Cond) (imp : Cond → Nat)
    (hspec : specC Ω D q) (hf : ∃ w ∈ Ω, q.fal w = true) (hrep : IsCRep Ω D imp) :
    Accepts Ω (kappaC D imp) q := by
  rcases hspec with hno | hall
  · obtain ⟨w, hw, hfw⟩ := hf
    rw [hno w hw] at hfw; cases hfw
  · exact hall imp hrep

/-- the executable check `isCRepB` decides `IsCRep` for the positional assignment -/
theorem isCRepB_iff (Ω : List World) (D : List Cond) (η : List Nat) (hlen : η.length = D.length) :
    isCRepB Ω D η = true ↔ IsCRep Ω D (impOf D η) := by
  simp only [isCRepB, hlen, beq_self_eq_true, Bool.true_and, acceptsAll, List.all_eq_true, IsCRep, Models]
  constructor
  · intro h c hc; exact (C18_accept_iff Ω _ c).mp (h c hc)
  · intro h c hc; exact (C18_accept_iff Ω _ c).mpr (h c hc)

/-! non-vacuity -/
example : frontInCube (allWorlds 3) exC05 3 = [[1, 2, 2]] := by decide

end InfOCF
