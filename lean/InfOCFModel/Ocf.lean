import InfOCFModel.Basic
import InfOCFModel.Tol
namespace InfOCF

def Accepts (Ω : List World) (κ : World → Nat) (c : Cond) : Prop :=
  ∃ w ∈ Ω, c.ver w = true ∧ ∀ w' ∈ Ω, c.fal w' = true → κ w < κ w'
def Models (Ω : List World) (κ : World → Nat) (D : List Cond) : Prop := ∀ c ∈ D, Accepts Ω κ c

def negq (q : Cond) : Cond := ⟨.neg q.cons, q.ante, 0⟩
@[simp] theorem negq_ver (q : Cond) (w) : (negq q).ver w = q.fal w := by simp [negq, Cond.ver, Cond.fal, Fm.eval]
@[simp] theorem negq_fal (q : Cond) (w) : (negq q).fal w = q.ver w := by simp [negq, Cond.ver, Cond.fal, Fm.eval]

/-- bottom-first layers -/
def zrk : List (List Cond) → World → Nat
  | [], _ => 0
  | L :: rest, w =>
    let r := zrk rest w
    if r ≠ 0 then r + 1 else if L.any (·.fal w) then 1 else 0

theorem zrk_zero_of_nofal : ∀ (P : List (List Cond)) (w : World),
    (∀ d ∈ P.flatten, d.fal w = false) → zrk P w = 0 := by
  intro P
  induction P with
  | nil => intro w _; rfl
  | cons L rest ih =>
    intro w h
    have hr := ih w (fun d hd => h d (by simp [hd]))
    have hL : L.any (·.fal w) = false := by
      simp only [List.any_eq_false]
      intro x hx; simp [h x (by simp [hx])]
    simp [zrk, hr, hL]

/-- the Z-ranking of a tolerance partition accepts every conditional of it -/
theorem zrk_models (Ω : List World) : ∀ (P : List (List Cond)), IsTolPart Ω P →
    Models Ω (zrk P) P.flatten := by
  intro P
  induction P with
  | nil => intro _ c hc; simp at hc
  | cons L rest ih =>
    intro hP c hc
    obtain ⟨_, hL, hrest⟩ := hP
    simp only [List.flatten_cons, List.mem_append] at hc
    rcases hc with hc | hc
    · obtain ⟨w, hw, hv, hnf⟩ := hL c hc
      refine ⟨w, hw, hv, ?_⟩
      intro w' _ hf'
      have h0 : zrk (L :: rest) w = 0 := zrk_zero_of_nofal (L :: rest) w (by simpa using hnf)
      rw [h0]
      have : L.any (·.fal w') = true := List.any_eq_true.mpr ⟨c, hc, hf'⟩
      simp only [zrk]
      split <;> simp_all
    · obtain ⟨w, hw, hv, hlt⟩ := ih hrest c hc
      refine ⟨w, hw, hv, ?_⟩
      intro w' hw' hf'
      have := hlt w' hw' hf'
      simp only [zrk]
      split <;> split <;> (try split) <;> omega

/-- existence of a κ-minimal element of a non-empty list satisfying p -/
theorem exists_min (κ : World → Nat) (p : World → Prop) : ∀ (Ω : List World), (∃ w ∈ Ω, p w) →
    ∃ w ∈ Ω, p w ∧ ∀ w' ∈ Ω, p w' → κ w ≤ κ w' := by
  intro Ω
  induction Ω with
  | nil => rintro ⟨w, hw, _⟩; simp at hw
  | cons a t ih =>
    rintro ⟨w, hw, hp⟩
    by_cases ht : ∃ w ∈ t, p w
    · obtain ⟨m, hm, hpm, hmin⟩ := ih ht
      by_cases hpa : p a
      · by_cases hle : κ a ≤ κ m
        · refine ⟨a, by simp, hpa, ?_⟩
          intro w' hw' hp'
          rcases List.mem_cons.mp hw' with rfl | h'
          · exact Nat.le_refl _
          · exact Nat.le_trans hle (hmin w' h' hp')
        · refine ⟨m, by simp [hm], hpm, ?_⟩
          intro w' hw' hp'
          rcases List.mem_cons.mp hw' with rfl | h'
          · omega
          · exact hmin w' h' hp'
      · refine ⟨m, by simp [hm], hpm, ?_⟩
        intro w' hw' hp'
        rcases List.mem_cons.mp hw' with rfl | h'
        · exact absurd hp' hpa
        · exact hmin w' h' hp'
    · rcases List.mem_cons.mp hw with rfl | h'
      · refine ⟨w, by simp, hp, ?_⟩
        intro w' hw' hp'
        rcases List.mem_cons.mp hw' with rfl | h''
        · exact Nat.le_refl _
        · exact absurd ⟨w', h'', hp'⟩ ht
      · exact absurd ⟨w, h', hp⟩ ht

/-- If `D ∪ {(¬B|A)}` contains a stuck subset, every ranking model of `D` accepts `(B|A)`
    (for satisfiable `A`). -/
theorem stuck_models_accept (Ω : List World) (D : List Cond) (q : Cond) (S : List Cond)
    (hS : Stuck Ω S) (hsub : ∀ c ∈ S, c = negq q ∨ c ∈ D)
    (hA : ∃ w ∈ Ω, q.ante.eval w = true)
    (κ : World → Nat) (hκ : Models Ω κ D) : Accepts Ω κ q := by
  apply Classical.byContradiction
  intro hna
  -- U: worlds satisfying the antecedent of some member of S
  let p : World → Prop := fun w => ∃ c ∈ S, c.ante.eval w = true
  have hU : ∃ w ∈ Ω, p w := by
    obtain ⟨hne, _⟩ := hS
    cases S with
    | nil => exact absurd rfl hne
    | cons c t =>
      rcases hsub c (by simp) with rfl | hcD
      · obtain ⟨w, hw, ha⟩ := hA
        exact ⟨w, hw, negq q, by simp, by simpa [negq] using ha⟩
      · obtain ⟨w, hw, hv, _⟩ := hκ c hcD
        refine ⟨w, hw, c, by simp, ?_⟩
        simp only [Cond.ver, Bool.and_eq_true] at hv; exact hv.1
  -- minimal worlds of U falsify no member of S ∩ D
  have hclaim : ∀ m ∈ Ω, p m → (∀ w' ∈ Ω, p w' → κ m ≤ κ w') → ∀ c ∈ S, c ∈ D → c.fal m = false := by
    intro m _ _ hmin c hcS hcD
    cases hf : c.fal m with
    | false => rfl
    | true =>
      exfalso
      obtain ⟨w1, hw1, hv1, hlt⟩ := hκ c hcD
      have h1 : p w1 := ⟨c, hcS, by simp only [Cond.ver, Bool.and_eq_true] at hv1; exact hv1.1⟩
      have := hmin w1 hw1 h1
      have := hlt m ‹m ∈ Ω› hf
      omega
  -- a minimal world falsifying nothing in S contradicts stuckness
  have hfin : ∀ m ∈ Ω, p m → (∀ c ∈ S, c.fal m = false) → False := by
    intro m hm ⟨c, hcS, hante⟩ hnf
    apply hS.2 c hcS
    refine ⟨m, hm, ?_, hnf⟩
    have := hnf c hcS
    simp only [Cond.fal, Cond.ver, hante, Bool.true_and] at this ⊢
    simpa using this
  obtain ⟨m, hm, hpm, hmin⟩ := exists_min κ p Ω hU
  by_cases hfm : ∀ c ∈ S, c.fal m = false
  · exact hfin m hm hpm hfm
  · -- m falsifies a member of S; it must be negq q
    obtain ⟨c, h⟩ := Classical.not_forall.mp hfm
    obtain ⟨hcS, hcf⟩ := Classical.not_imp.mp h
    have hcf' : c.fal m = true := by simpa using hcf
    rcases hsub c hcS with rfl | hcD
    · -- m ⊨ A ∧ B; non-acceptance gives a falsifying world w' not above m
      have hver : q.ver m = true := by simpa using hcf'
      have : ∃ w' ∈ Ω, q.fal w' = true ∧ κ w' ≤ κ m := by
        apply Classical.byContradiction
        intro hno
        apply hna
        refine ⟨m, hm, hver, ?_⟩
        intro w' hw' hf'
        apply Classical.byContradiction
        intro hlt
        exact hno ⟨w', hw', hf', by omega⟩
      obtain ⟨w', hw', hf', hle⟩ := this
      have hpw' : p w' := ⟨negq q, hcS, by
        simp only [Cond.fal, Bool.and_eq_true] at hf'; simpa [negq] using hf'.1⟩
      have hmin' : ∀ u ∈ Ω, p u → κ w' ≤ κ u := fun u hu hpu => Nat.le_trans hle (hmin u hu hpu)
      apply hfin w' hw' hpw'
      intro d hdS
      rcases hsub d hdS with rfl | hdD
      · -- w' verifies negq q, so does not falsify it
        have : q.ver w' = false := by
          simp only [Cond.fal, Cond.ver, Bool.and_eq_true] at hf' ⊢
          simp [hf'.1]; simpa using hf'.2
        simpa using this
      · exact hclaim w' hw' hpw' hmin' d hdS hdD
    · have := hclaim m hm hpm hmin c hcS hcD
      simp [this] at hcf'

/-- conversely: a tolerance partition of `D ∪ {(¬B|A)}` gives a model of `D` rejecting `(B|A)` -/
theorem part_gives_countermodel (Ω : List World) (D : List Cond) (q : Cond) (P : List (List Cond))
    (hP : IsTolPart Ω P) (hmem : ∀ c, c ∈ P.flatten ↔ (c = negq q ∨ c ∈ D)) :
    Models Ω (zrk P) D ∧ ¬ Accepts Ω (zrk P) q := by
  have hm := zrk_models Ω P hP
  refine ⟨fun c hc => hm c ((hmem c).mpr (Or.inr hc)), ?_⟩
  intro hacc
  obtain ⟨w, hw, hv, hlt⟩ := hm (negq q) ((hmem _).mpr (Or.inl rfl))
  obtain ⟨w1, hw1, hv1, hlt1⟩ := hacc
  have a := hlt w1 hw1 (by simpa using hv1)
  have b := hlt1 w hw (by simpa using hv)
  omega

end InfOCF
