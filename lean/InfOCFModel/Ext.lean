import InfOCFModel.Basic
import InfOCFModel.Ocf
namespace InfOCF

/-- extended greedy partition: finite layers followed by the infinity layer; `none` = not even weakly consistent -/
def tolPartExt (Ω : List World) : Nat → List Cond → Option (List (List Cond))
  | _, [] => some [[]]
  | 0, _ :: _ => none
  | fuel+1, cs =>
    let R := cs.filter (tolerated Ω cs)
    let C := cs.filter (fun c => !(tolerated Ω cs c))
    if R.isEmpty then (if Ω.any (nofal cs) then some [cs] else none)
    else (tolPartExt Ω fuel C).map (R :: ·)

/-- model of `PEntailment._inference`, weakly branch -/
def algPExt (Ω : List World) (D : List Cond) (q : Cond) : Bool :=
  match tolPartExt Ω (D.length + 2) (D ++ [negq q]) with
  | none => true
  | some P => !(Ω.any fun w => q.ante.eval w && nofal (P.getLastD []) w)

/-- the property's case distinction -/
def specPExt (Ω : List World) (D : List Cond) (q : Cond) : Option Bool :=
  match tolPartExt Ω (D.length + 1) D with
  | none => none
  | some P =>
    let inf := P.getLastD []
    let fin := P.dropLast
    let Ωf := Ω.filter (nofal inf)
    if !(Ωf.any fun w => q.ante.eval w) then some true
    else if !(Ωf.any q.fal) then some true
    else if !(Ωf.any q.ver) then some false
    else some (tolPart Ωf (D.length + 2) (fin.flatten ++ [negq q])).isNone

end InfOCF
