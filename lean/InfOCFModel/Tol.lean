import InfOCFModel.Basic
namespace InfOCF

/-- Prop-level tolerance -/
def Tol (Ω : List World) (cs : List Cond) (c : Cond) : Prop :=
  ∃ w ∈ Ω, c.ver w = true ∧ ∀ d ∈ cs, d.fal w = false

theorem tolerated_iff (Ω cs c) : tolerated Ω cs c = true ↔ Tol Ω cs c := by
  simp [tolerated, Tol, nofal]

theorem Tol.mono {Ω cs cs' c} (h : Tol Ω cs c) (hs : ∀ d ∈ cs', d ∈ cs) : Tol Ω cs' c := by
  obtain ⟨w, hw, hv, hf⟩ := h
  exact ⟨w, hw, hv, fun d hd => hf d (hs d hd)⟩

/-- ordered tolerance partition: every member of a layer is tolerated by that layer and all later ones -/
def IsTolPart (Ω : List World) : List (List Cond) → Prop
  | [] => True
  | L :: rest => L ≠ [] ∧ (∀ c ∈ L, Tol Ω (L ++ rest.flatten) c) ∧ IsTolPart Ω rest

/-- a stuck set: non-empty, no member tolerated by the set -/
def Stuck (Ω : List World) (S : List Cond) : Prop :=
  S ≠ [] ∧ ∀ c ∈ S, ¬ Tol Ω S c

theorem tolPart_sound (Ω : List World) : ∀ (fuel : Nat) (cs : List Cond) (P),
    tolPart Ω fuel cs = some P → IsTolPart Ω P ∧ (∀ c, c ∈ P.flatten ↔ c ∈ cs) := by
  intro fuel
  induction fuel with
  | zero =>
    intro cs P h
    cases cs with
    | nil => simp [tolPart] at h; subst h; simp [IsTolPart]
    | cons a t => simp [tolPart] at h
  | succ n ih =>
    intro cs P h
    cases cs with
    | nil => simp [tolPart] at h; subst h; simp [IsTolPart]
    | cons a t =>
      simp only [tolPart] at h
      split at h
      · simp at h
      · rename_i hne
        simp only [Option.map_eq_some_iff] at h
        obtain ⟨P', hP', rfl⟩ := h
        obtain ⟨ih1, ih2⟩ := ih _ _ hP'
        refine ⟨⟨?_, ?_, ih1⟩, ?_⟩
        · intro h0; simp [h0] at hne
        · intro c hc
          have hc' := List.mem_filter.mp hc
          have := (tolerated_iff _ _ _).mp hc'.2
          refine this.mono ?_
          intro d hd
          rcases List.mem_append.mp hd with hd | hd
          · exact (List.mem_filter.mp hd).1
          · exact (List.mem_filter.mp ((ih2 d).mp hd)).1
        · intro c
          simp only [List.flatten_cons, List.mem_append, ih2, List.mem_filter]
          constructor
          · rintro (h | h) <;> exact h.1
          · intro h
            by_cases ht : tolerated Ω (a :: t) c = true
            · exact Or.inl ⟨h, ht⟩
            · exact Or.inr ⟨h, by simpa using ht⟩

theorem tolPart_none_stuck (Ω : List World) : ∀ (fuel : Nat) (cs : List Cond),
    cs.length ≤ fuel → tolPart Ω fuel cs = none → ∃ S, (∀ c ∈ S, c ∈ cs) ∧ Stuck Ω S := by
  intro fuel
  induction fuel with
  | zero =>
    intro cs hl h
    cases cs with
    | nil => simp [tolPart] at h
    | cons a t => simp at hl
  | succ n ih =>
    intro cs hl h
    cases cs with
    | nil => simp [tolPart] at h
    | cons a t =>
      simp only [tolPart] at h
      split at h
      · rename_i hemp
        refine ⟨a :: t, fun c hc => hc, by simp, ?_⟩
        intro c hc ht
        have : c ∈ List.filter (tolerated Ω (a :: t)) (a :: t) :=
          List.mem_filter.mpr ⟨hc, (tolerated_iff _ _ _).mpr ht⟩
        rw [List.isEmpty_iff] at hemp
        rw [hemp] at this
        simp at this
      · rename_i hne
        simp only [Option.map_eq_none_iff] at h
        have hsplit : ∀ (p : Cond → Bool) (l : List Cond),
            (List.filter p l).length + (List.filter (fun c => !p c) l).length = l.length := by
          intro p l
          induction l with
          | nil => simp
          | cons x xs ihx => cases hp : p x <;> simp [hp] <;> omega
        have hlen : (List.filter (fun c => !tolerated Ω (a :: t) c) (a :: t)).length ≤ n := by
          have h1 := hsplit (tolerated Ω (a :: t)) (a :: t)
          have h2 : 0 < (List.filter (tolerated Ω (a :: t)) (a :: t)).length := by
            apply List.length_pos_iff.mpr
            intro h0; simp [h0] at hne
          simp only [List.length_cons] at hl h1
          omega
        obtain ⟨S, hS, hst⟩ := ih _ hlen h
        exact ⟨S, fun c hc => (List.mem_filter.mp (hS c hc)).1, hst⟩

/-- a stuck subset excludes every tolerance partition -/
theorem stuck_no_part (Ω : List World) (S : List Cond) (hS : Stuck Ω S) :
    ∀ (P : List (List Cond)), IsTolPart Ω P → (∀ c ∈ S, c ∈ P.flatten) → False := by
  intro P
  induction P with
  | nil =>
    intro _ h
    obtain ⟨hne, _⟩ := hS
    cases S with
    | nil => exact hne rfl
    | cons a t => simpa using h a (by simp)
  | cons L rest ih =>
    intro hP hsub
    obtain ⟨_, hL, hrest⟩ := hP
    by_cases hx : ∃ c ∈ S, c ∈ L
    · obtain ⟨c, hcS, hcL⟩ := hx
      exact hS.2 c hcS ((hL c hcL).mono (fun d hd => by simpa using hsub d hd))
    · apply ih hrest
      intro c hc
      have := hsub c hc
      simp only [List.flatten_cons, List.mem_append] at this
      rcases this with h | h
      · exact absurd ⟨c, hc, h⟩ hx
      · exact h

end InfOCF
