import InfOCFModel.Basic
namespace InfOCF

def fset (L : List Cond) (w : World) : List Cond := L.filter (·.fal w)
def subsetL (a b : List Cond) : Bool := a.all (b.contains ·)

theorem subsetL_iff {a b : List Cond} : subsetL a b = true ↔ ∀ x ∈ a, x ∈ b := by
  simp [subsetL, List.all_eq_true]

theorem subsetL_refl (a : List Cond) : subsetL a a = true := subsetL_iff.mpr fun _ h => h
theorem subsetL_trans {a b c : List Cond} (h1 : subsetL a b = true) (h2 : subsetL b c = true) :
    subsetL a c = true :=
  subsetL_iff.mpr fun x hx => subsetL_iff.mp h2 x (subsetL_iff.mp h1 x hx)

/-- mutual inclusion of two falsification sets of the same layer = equality (as lists) -/
theorem fset_antisymm {L : List Cond} {w w' : World}
    (h1 : subsetL (fset L w) (fset L w') = true) (h2 : subsetL (fset L w') (fset L w) = true) :
    fset L w = fset L w' := by
  unfold fset
  apply List.filter_congr
  intro x hx
  have a := subsetL_iff.mp h1 x
  have b := subsetL_iff.mp h2 x
  simp only [fset, List.mem_filter] at a b
  cases hw : x.fal w <;> cases hw' : x.fal w' <;> simp_all

/-- layers top-first -/
def wless : List (List Cond) → World → World → Bool
  | [], _, _ => false
  | L :: rest, w, w' =>
    if fset L w = fset L w' then wless rest w w' else subsetL (fset L w) (fset L w')

def specW (layersTop : List (List Cond)) (Hv Hf : List World) : Bool :=
  Hf.all fun w' => Hv.any fun w => wless layersTop w w'

/-- contract of one optimizer call -/
def famMin (L : List Cond) (H : List World) : List (List Cond) :=
  let fam := (H.map (fset L)).eraseDups
  fam.filter fun s => fam.all fun t => !(subsetL t s) || t == s

theorem mem_fam {L : List Cond} {H : List World} {s : List Cond} :
    s ∈ (H.map (fset L)).eraseDups ↔ ∃ w ∈ H, fset L w = s := by
  simp [List.mem_eraseDups]

theorem famMin_real {L H s} (h : s ∈ famMin L H) : ∃ w ∈ H, fset L w = s := by
  simp only [famMin, List.mem_filter] at h
  exact mem_fam.mp h.1

theorem famMin_min {L H s} (h : s ∈ famMin L H) :
    ∀ w ∈ H, subsetL (fset L w) s = true → fset L w = s := by
  intro w hw hsub
  simp only [famMin, List.mem_filter, List.all_eq_true] at h
  have := h.2 (fset L w) (mem_fam.mpr ⟨w, hw, rfl⟩)
  simpa [hsub] using this

theorem filter_len_le {α} (p q : α → Bool) (l : List α)
    (h : ∀ x ∈ l, p x = true → q x = true) : (l.filter p).length ≤ (l.filter q).length := by
  induction l with
  | nil => simp
  | cons y ys ih =>
    have ih' := ih (fun x hx => h x (List.mem_cons_of_mem _ hx))
    have hy := h y (List.mem_cons_self)
    cases hp : p y <;> cases hq : q y <;> simp_all [List.filter_cons] <;> omega

theorem filter_len_lt {α} (p q : α → Bool) (l : List α)
    (h : ∀ x ∈ l, p x = true → q x = true) (hx : ∃ x ∈ l, q x = true ∧ p x = false) :
    (l.filter p).length < (l.filter q).length := by
  induction l with
  | nil => obtain ⟨x, hx, _⟩ := hx; simp at hx
  | cons y ys ih =>
    have hle := filter_len_le p q ys (fun x hx => h x (List.mem_cons_of_mem _ hx))
    have hy := h y (List.mem_cons_self)
    obtain ⟨x, hxm, hqx, hpx⟩ := hx
    rcases List.mem_cons.mp hxm with rfl | hxys
    · simp [List.filter_cons, hqx, hpx]; omega
    · have ih' := ih (fun x hx => h x (List.mem_cons_of_mem _ hx)) ⟨x, hxys, hqx, hpx⟩
      cases hp : p y <;> cases hq : q y <;> simp_all [List.filter_cons] <;> omega

/-- every world's set has a minimal set below it -/
theorem famMin_below {L : List Cond} {H : List World} :
    ∀ w ∈ H, ∃ s ∈ famMin L H, subsetL s (fset L w) = true := by
  -- strong induction on the size of the falsification set
  suffices h : ∀ n, ∀ w ∈ H, (fset L w).length ≤ n → ∃ s ∈ famMin L H, subsetL s (fset L w) = true by
    intro w hw; exact h _ w hw (Nat.le_refl _)
  intro n
  induction n with
  | zero =>
    intro w hw hlen
    have hnil : fset L w = [] := List.eq_nil_of_length_eq_zero (Nat.le_zero.mp hlen)
    refine ⟨fset L w, ?_, subsetL_refl _⟩
    simp only [famMin, List.mem_filter, List.all_eq_true]
    refine ⟨mem_fam.mpr ⟨w, hw, rfl⟩, ?_⟩
    intro t ht
    obtain ⟨w2, hw2, rfl⟩ := mem_fam.mp ht
    by_cases hs : subsetL (fset L w2) (fset L w) = true
    · have : fset L w2 = [] := by
        have := subsetL_iff.mp hs
        rw [hnil] at this
        exact List.eq_nil_iff_forall_not_mem.mpr fun x hx => by simpa using this x hx
      simp [this, hnil]
    · simp [hs]
  | succ n ih =>
    intro w hw hlen
    by_cases hmin : ∀ w2 ∈ H, subsetL (fset L w2) (fset L w) = true → fset L w2 = fset L w
    · refine ⟨fset L w, ?_, subsetL_refl _⟩
      simp only [famMin, List.mem_filter, List.all_eq_true]
      refine ⟨mem_fam.mpr ⟨w, hw, rfl⟩, ?_⟩
      intro t ht
      obtain ⟨w2, hw2, rfl⟩ := mem_fam.mp ht
      by_cases hs : subsetL (fset L w2) (fset L w) = true
      · simp [hmin w2 hw2 hs]
      · simp [hs]
    · -- some strictly smaller set exists
      obtain ⟨w2, h⟩ := Classical.not_forall.mp hmin
      obtain ⟨hw2, h⟩ := Classical.not_imp.mp h
      obtain ⟨hs, hne⟩ := Classical.not_imp.mp h
      have hlt : (fset L w2).length < (fset L w).length := by
        -- proper sub-filter of the same list is shorter
        have hsub := subsetL_iff.mp hs
        have hnot : ¬ subsetL (fset L w) (fset L w2) = true := fun h => hne (fset_antisymm hs h)
        have : ∃ x ∈ L, x.fal w = true ∧ x.fal w2 = false := by
          apply Classical.byContradiction
          intro hc
          apply hnot
          apply subsetL_iff.mpr
          intro x hx
          simp only [fset, List.mem_filter] at hx ⊢
          refine ⟨hx.1, ?_⟩
          cases hf : x.fal w2 with
          | true => rfl
          | false => exact absurd ⟨x, hx.1, hx.2, hf⟩ hc
        obtain ⟨x, hxL, hxw, hxw2⟩ := this
        unfold fset
        apply filter_len_lt
        · intro z hz hz2
          have := hsub z (by simp [fset, List.mem_filter, hz, hz2])
          simp only [fset, List.mem_filter] at this
          exact this.2
        · exact ⟨x, hxL, hxw, hxw2⟩
      obtain ⟨s, hsm, hss⟩ := ih w2 hw2 (by omega)
      exact ⟨s, hsm, subsetL_trans hss hs⟩

/-- model of `SystemW._rec_inference` (uniform form) -/
def algW : List (List Cond) → List World → List World → Bool
  | [], _, Hf => Hf.isEmpty
  | L :: rest, Hv, Hf =>
    let Xv := famMin L Hv
    let Xf := famMin L Hf
    (Xf.all fun b => Xv.any fun a => subsetL a b) &&
    (Xv.filter (Xf.contains ·)).all fun x =>
      algW rest (Hv.filter (fset L · == x)) (Hf.filter (fset L · == x))

theorem algW_eq_specW : ∀ (layers : List (List Cond)) (Hv Hf : List World),
    algW layers Hv Hf = specW layers Hv Hf := by
  intro layers
  induction layers with
  | nil =>
    intro Hv Hf
    simp [algW, specW, wless, List.isEmpty_iff]
    cases Hf <;> simp
  | cons L rest ih =>
    intro Hv Hf
    rw [Bool.eq_iff_iff]
    simp only [algW, Bool.and_eq_true, List.all_eq_true, List.any_eq_true, List.mem_filter,
      List.contains_iff_mem, ih]
    constructor
    · -- alg ⇒ spec
      rintro ⟨hcover, hties⟩
      simp only [specW, List.all_eq_true, List.any_eq_true]
      intro w' hw'
      obtain ⟨b, hb, hbs⟩ := famMin_below (L := L) w' hw'
      obtain ⟨a, ha, hab⟩ := hcover b hb
      obtain ⟨w, hw, hwa⟩ := famMin_real ha
      by_cases heq : a = fset L w'
      · -- tie: a = b = fset L w'
        obtain ⟨w'', hw'', hwb⟩ := famMin_real hb
        have hbeq : b = fset L w' := by
          rw [← hwb]
          apply fset_antisymm
          · rw [hwb]; exact hbs
          · rw [hwb, ← heq]; exact hab
        have hx := hties a ⟨ha, by rw [heq, ← hbeq]; exact hb⟩
        simp only [specW, List.all_eq_true, List.any_eq_true, List.mem_filter, beq_iff_eq] at hx
        obtain ⟨w2, ⟨hw2, hw2a⟩, hless⟩ := hx w' ⟨hw', heq.symm⟩
        refine ⟨w2, hw2, ?_⟩
        simp [wless, hw2a, heq, hless]
      · refine ⟨w, hw, ?_⟩
        have : fset L w ≠ fset L w' := by rw [hwa]; exact heq
        simp only [wless, this, if_false]
        rw [hwa]; exact subsetL_trans hab hbs
    · -- spec ⇒ alg
      intro hspec
      simp only [specW, List.all_eq_true, List.any_eq_true] at hspec
      constructor
      · intro b hb
        obtain ⟨w', hw', hwb⟩ := famMin_real hb
        obtain ⟨w, hw, hless⟩ := hspec w' hw'
        obtain ⟨a, ha, has⟩ := famMin_below (L := L) w hw
        refine ⟨a, ha, ?_⟩
        simp only [wless] at hless
        split at hless
        · rename_i he; rw [← hwb, ← he]; exact has
        · rw [← hwb]; exact subsetL_trans has hless
      · rintro x ⟨hxv, hxf⟩
        simp only [specW, List.all_eq_true, List.any_eq_true, List.mem_filter, beq_iff_eq]
        rintro w' ⟨hw', hw'x⟩
        obtain ⟨w, hw, hless⟩ := hspec w' hw'
        simp only [wless] at hless
        split at hless
        · rename_i he
          exact ⟨w, ⟨hw, by rw [he, hw'x]⟩, hless⟩
        · rename_i hne
          exfalso
          apply hne
          rw [hw'x] at hless ⊢
          exact famMin_min hxv w hw hless

end InfOCF
