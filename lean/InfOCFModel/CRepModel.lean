import InfOCFModel.CSpec
import InfOCFModel.Rank
/-!
# c-representations, c-revision: executable definitions used to *check* parameter vectors

Impacts / gamma parameters are given positionally (one entry per conditional of the list).
-/
namespace InfOCF

/-- positional impact lookup: the i-th conditional of `D` gets the i-th entry -/
def impOf (D : List Cond) (η : List Nat) (c : Cond) : Nat := η.getD (D.idxOf c) 0

/-- revised ranking `κ*(w) = κ(w) + Σ γ⁺ of verified + Σ γ⁻ of falsified` -/
def kappaRev (κ : World → Nat) (R : List Cond) (gp gm : List Nat) (w : World) : Nat :=
  κ w + cost (impOf R gp) (R.filter (·.ver w)) + cost (impOf R gm) (R.filter (·.fal w))

/-- executable acceptance of all conditionals of `R` by a ranking -/
def acceptsAll (Ω : List World) (κ : World → Nat) (R : List Cond) : Bool := R.all (acceptCode Ω κ)

/-- `η` is a c-representation of `D` (checked by evaluation) -/
def isCRepB (Ω : List World) (D : List Cond) (η : List Nat) : Bool :=
  η.length == D.length && acceptsAll Ω (kappaC D (impOf D η)) D

/-- all vectors below `bound` componentwise -/
def boxVectors : List Nat → List (List Nat)
  | [] => [[]]
  | b :: rest => (List.range (b + 1)).flatMap fun x => (boxVectors rest).map (x :: ·)

/-- Pareto-minimality by the finite box test: no other c-representation lies componentwise below `η` -/
def paretoMinB (Ω : List World) (D : List Cond) (η : List Nat) : Bool :=
  (boxVectors η).all fun η' => η' == η || !(isCRepB Ω D η')

/-- search the cube `[0..B]^|D|` for a c-representation that does not accept `q` -/
def counterModelInCube (Ω : List World) (D : List Cond) (B : Nat) (q : Cond) : Option (List Nat) :=
  (boxVectors (D.map fun _ => B)).find? fun η =>
    isCRepB Ω D η && !(acceptCode Ω (kappaC D (impOf D η)) q)

/-- c-revision: the parameters make the revised ranking accept every revision conditional -/
def revOkB (Ω : List World) (κ : World → Nat) (R : List Cond) (gp gm : List Nat) : Bool :=
  gp.length == R.length && gm.length == R.length && acceptsAll Ω (kappaRev κ R gp gm) R

/-- γ⁻ Pareto-minimal for fixed γ⁺ (box test) -/
def revParetoMinB (Ω : List World) (κ : World → Nat) (R : List Cond) (gp gm : List Nat) : Bool :=
  (boxVectors gm).all fun gm' => gm' == gm || !(revOkB Ω κ R gp gm')

/-- componentwise ≤ on vectors of equal length -/
def leVec : List Nat → List Nat → Bool
  | [], [] => true
  | x :: xs, y :: ys => decide (x ≤ y) && leVec xs ys
  | _, _ => false

/-- all Pareto-minimal c-representations inside the cube `[0..B]^|D|` -/
def frontInCube (Ω : List World) (D : List Cond) (B : Nat) : List (List Nat) :=
  let reps := (boxVectors (D.map fun _ => B)).filter (isCRepB Ω D)
  reps.filter fun η => reps.all fun η' => η' == η || !(leVec η' η)

end InfOCF
