import InfOCFModel.Props.C05
/-!
# Certificates for the answer True of c-inference

`specC Ω D q` quantifies over *all* impact assignments. To have the direction "the code answers True,
and indeed no c-representation rejects the query" checked by Lean on concrete inputs (instead of resting on
an SMT solver's `unsat`), this file defines an executable checker for refutation certificates:

* the compiled system of C05 is a conjunction, over the conditionals `i` of `D`, of
  `∃ S ∈ vMin_i ∀ T ∈ fMin_i, Σ_S η < η_i + Σ_T η`, and the negated query is
  `∃ T ∈ fMin_q ∀ S ∈ vMin_q, Σ_T η ≤ Σ_S η`;
* for **every** choice of the existentials (`choices`, enumerated by the checker itself) the remaining
  system of homogeneous linear inequalities over `η ≥ 0` must be refuted by a non-negative combination
  (`CLeaf`: one multiplier per inequality) whose strict part is non-zero and whose right-hand side is
  dominated coefficient-wise by its left-hand side (`farkasOK`).

The multipliers are found outside Lean (an LP / SMT search in the harness); only their check is trusted.
`C05_cert_sound` (Props/C05cert.lean) proves that an accepted certificate implies `specC`.
-/
namespace InfOCF

/-- coefficient of `c` in the indicator form of the set `s` -/
def ind (s : List Cond) (c : Cond) : Nat := if s.contains c then 1 else 0

/-- value of the linear form with coefficients `f` over the conditionals of `D` -/
def valF (D : List Cond) (imp : Cond → Nat) (f : Cond → Nat) : Nat := sumL (D.map fun c => f c * imp c)

/-- a linear inequality `lhs < rhs` (strict) or `lhs ≤ rhs` between two forms -/
structure Ineq where
  lhs : Cond → Nat
  rhs : Cond → Nat
  strict : Bool

def Ineq.holds (D : List Cond) (imp : Cond → Nat) (e : Ineq) : Prop :=
  if e.strict then valF D imp e.lhs < valF D imp e.rhs else valF D imp e.lhs ≤ valF D imp e.rhs

/-- coefficient of `c` in the weighted sum of the left-hand sides -/
def totL (L : List (Nat × Ineq)) (c : Cond) : Nat := sumL (L.map fun p => p.1 * p.2.lhs c)
/-- coefficient of `c` in the weighted sum of the right-hand sides -/
def totR (L : List (Nat × Ineq)) (c : Cond) : Nat := sumL (L.map fun p => p.1 * p.2.rhs c)

/-- the weighted inequalities refute themselves: the combined right-hand side is coefficient-wise below the
combined left-hand side, and a strict inequality carries a positive weight -/
def farkasOK (D : List Cond) (L : List (Nat × Ineq)) : Bool :=
  (D.all fun c => decide (totR L c ≤ totL L c)) && (L.any fun p => p.2.strict && decide (1 ≤ p.1))

/-- one row of the compiled system: conditional, its `vMin` and `fMin` families -/
structure CRow where
  i : Cond
  V : List (List Cond)
  F : List (List Cond)

def ctab (Ω : List World) (D : List Cond) : List CRow :=
  D.map fun i => ⟨i, famMin (others D i) (Ω.filter i.ver), famMin (others D i) (Ω.filter i.fal)⟩

/-- all ways of choosing one element from each list -/
def choices {α : Type} : List (List α) → List (List α)
  | [] => [[]]
  | X :: rest => X.flatMap fun x => (choices rest).map (x :: ·)

/-- multipliers of one refutation: `bm` aligned with the rows (inner lists aligned with the row's `fMin`),
`qm` aligned with the query's `vMin` -/
structure CLeaf where
  bm : List (List Nat)
  qm : List Nat

/-- the weighted inequalities a leaf uses, for the choice `ch` (one verifying set per row) and the chosen
falsifying set `T` of the query -/
def leafIneqs (tab : List CRow) (ch : List (List Cond)) (T : List Cond) (Vq : List (List Cond)) (lf : CLeaf) :
    List (Nat × Ineq) :=
  (((tab.zip ch).zip lf.bm).flatMap fun x =>
      (x.1.1.F.zip x.2).map fun y => (y.2, (⟨ind x.1.2, fun c => ind [x.1.1.i] c + ind y.1 c, true⟩ : Ineq)))
  ++ (Vq.zip lf.qm).map fun y => (y.2, (⟨ind T, ind y.1, false⟩ : Ineq))

/-- the certificate check: the query has no falsifying world, or every choice of verifying sets (base) and
falsifying set (query) is refuted by some leaf of the pool -/
def cCertCheck (Ω : List World) (D : List Cond) (q : Cond) (pool : List CLeaf) : Bool :=
  (Ω.all fun w => !(q.fal w)) ||
  (let tab := ctab Ω D
   let Vq := famMin D (Ω.filter q.ver)
   let Fq := famMin D (Ω.filter q.fal)
   (choices (tab.map (·.V))).all fun ch => Fq.all fun T => pool.any fun lf => farkasOK D (leafIneqs tab ch T Vq lf))

end InfOCF
