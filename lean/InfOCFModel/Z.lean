import InfOCFModel.Basic
import InfOCFModel.Ocf
namespace InfOCF

def prefEnt (Ω : List World) (lt : World → World → Bool) (q : Cond) : Bool :=
  (Ω.filter q.fal).all fun w' => (Ω.filter q.ver).any fun w => lt w w'

def specZ (Ω : List World) (layers : List (List Cond)) (q : Cond) : Bool :=
  prefEnt Ω (fun w w' => zrk layers w < zrk layers w') q

/-- `SystemZ._rec_inference`; layers top-first, `H` = worlds satisfying the assertions so far -/
def algZ : List (List Cond) → List World → Cond → Bool
  | [], _, _ => false
  | L :: rest, H, q =>
    let H' := H.filter (nofal L)
    let v := H'.any q.ver
    let f := H'.any q.fal
    if !v then false
    else if f then (match rest with | [] => false | _ => algZ rest H' q)
    else true

theorem zrk_le_length : ∀ (P : List (List Cond)) (w : World), zrk P w ≤ P.length := by
  intro P; induction P with
  | nil => intro w; simp [zrk]
  | cons L rest ih => intro w; have := ih w; simp only [zrk, List.length_cons]; split <;> (try split) <;> omega

theorem zrk_snoc_fal (below : List (List Cond)) (L : List Cond) (w : World)
    (h : L.any (·.fal w) = true) : zrk (below ++ [L]) w = below.length + 1 := by
  induction below with
  | nil => simp [zrk, h]
  | cons M rest ih => simp [zrk, ih]

theorem zrk_snoc_nofal (below : List (List Cond)) (L : List Cond) (w : World)
    (h : L.any (·.fal w) = false) : zrk (below ++ [L]) w = zrk below w := by
  induction below with
  | nil => simp [zrk, h]
  | cons M rest ih => simp [zrk, ih]

theorem nofal_iff (L : List Cond) (w : World) : nofal L w = true ↔ L.any (·.fal w) = false := by
  simp [nofal, List.all_eq_true, List.any_eq_false]

/-- core lemma on the recursion, self-contained in (top-first list, current world set) -/
theorem algZ_iff : ∀ (Lst : List (List Cond)) (H : List World) (q : Cond),
    Lst ≠ [] → (∃ w' ∈ H, q.fal w' = true) →
    (algZ Lst H q = true ↔
      ∃ w ∈ H, q.ver w = true ∧ ∀ w' ∈ H, q.fal w' = true → zrk Lst.reverse w < zrk Lst.reverse w') := by
  intro Lst
  induction Lst with
  | nil => intro H q h; exact absurd rfl h
  | cons L rest ih =>
    intro H q _ hfal
    have hrk_in : ∀ w, nofal L w = true → zrk (L :: rest).reverse w = zrk rest.reverse w := by
      intro w hw; rw [List.reverse_cons]; exact zrk_snoc_nofal _ _ _ ((nofal_iff _ _).mp hw)
    have hrk_out : ∀ w, nofal L w = false → zrk (L :: rest).reverse w = rest.length + 1 := by
      intro w hw
      rw [List.reverse_cons, zrk_snoc_fal, List.length_reverse]
      cases h : L.any (·.fal w) with
      | true => rfl
      | false => rw [(nofal_iff _ _).mpr h] at hw; cases hw
    have hle : ∀ w, zrk rest.reverse w ≤ rest.length := by
      intro w; simpa using zrk_le_length rest.reverse w
    simp only [algZ]
    by_cases hv : (H.filter (nofal L)).any q.ver = true
    · by_cases hf : (H.filter (nofal L)).any q.fal = true
      · simp only [hv, hf, Bool.not_true, Bool.false_eq_true, if_false, if_true]
        obtain ⟨w0, hw0, hw0f⟩ := List.any_eq_true.mp hf
        obtain ⟨hw0H, hw0L⟩ := List.mem_filter.mp hw0
        cases rest with
        | nil =>
          simp only [false_iff, Bool.false_eq_true]
          rintro ⟨w, hw, _, hlt⟩
          have := hlt w0 hw0H hw0f
          rw [hrk_in w0 hw0L] at this
          simp [zrk] at this
        | cons M rest' =>
          have ih' := ih (H.filter (nofal L)) q (by simp) ⟨w0, hw0, hw0f⟩
          simp only [] at ih' ⊢
          rw [ih']
          constructor
          · rintro ⟨w, hw, hver, hlt⟩
            obtain ⟨hwH, hwL⟩ := List.mem_filter.mp hw
            refine ⟨w, hwH, hver, ?_⟩
            intro w' hw' hf'
            rw [hrk_in w hwL]
            cases hL' : nofal L w' with
            | true =>
              rw [hrk_in w' hL']
              exact hlt w' (List.mem_filter.mpr ⟨hw', hL'⟩) hf'
            | false =>
              rw [hrk_out w' hL']
              have := hle w
              omega
          · rintro ⟨w, hw, hver, hlt⟩
            have h0 := hlt w0 hw0H hw0f
            rw [hrk_in w0 hw0L] at h0
            have hwL : nofal L w = true := by
              cases h : nofal L w with
              | true => rfl
              | false =>
                rw [hrk_out w h] at h0
                have := hle w0
                omega
            refine ⟨w, List.mem_filter.mpr ⟨hw, hwL⟩, hver, ?_⟩
            intro w' hw' hf'
            obtain ⟨hw'H, hw'L⟩ := List.mem_filter.mp hw'
            have := hlt w' hw'H hf'
            rwa [hrk_in w hwL, hrk_in w' hw'L] at this
      · -- v, not f
        simp only [hv, hf, Bool.not_true, Bool.false_eq_true, if_false, true_iff]
        obtain ⟨w, hw, hver⟩ := List.any_eq_true.mp hv
        obtain ⟨hwH, hwL⟩ := List.mem_filter.mp hw
        refine ⟨w, hwH, hver, ?_⟩
        intro w' hw' hf'
        have hL' : nofal L w' = false := by
          cases h : nofal L w' with
          | false => rfl
          | true =>
            exfalso; apply hf
            exact List.any_eq_true.mpr ⟨w', List.mem_filter.mpr ⟨hw', h⟩, hf'⟩
        rw [hrk_in w hwL, hrk_out w' hL']
        have := hle w; omega
    · -- not v
      simp only [hv, Bool.not_false, if_true, Bool.false_eq_true, false_iff]
      rintro ⟨w, hw, hver, hlt⟩
      obtain ⟨w', hw', hf'⟩ := hfal
      have hwL : nofal L w = false := by
        cases h : nofal L w with
        | false => rfl
        | true =>
          exfalso; apply hv
          exact List.any_eq_true.mpr ⟨w, List.mem_filter.mpr ⟨hw, h⟩, hver⟩
      have := hlt w' hw' hf'
      rw [hrk_out w hwL] at this
      have h2 := zrk_le_length (L :: rest).reverse w'
      simp only [List.length_reverse, List.length_cons] at h2
      omega

/-- ∀∃ form = ∃∀ form for a rank-induced order when a falsifying world exists -/
theorem forall_exists_iff_exists_forall (Ω : List World) (r : World → Nat) (q : Cond)
    (hf : ∃ w' ∈ Ω, q.fal w' = true) :
    (∀ w' ∈ Ω, q.fal w' = true → ∃ w ∈ Ω, q.ver w = true ∧ r w < r w') ↔
    (∃ w ∈ Ω, q.ver w = true ∧ ∀ w' ∈ Ω, q.fal w' = true → r w < r w') := by
  constructor
  · intro h
    obtain ⟨m, hm, hfm, hmin⟩ := exists_min r (fun w => q.fal w = true) Ω hf
    obtain ⟨w, hw, hver, hlt⟩ := h m hm hfm
    exact ⟨w, hw, hver, fun w' hw' hf' => Nat.lt_of_lt_of_le hlt (hmin w' hw' hf')⟩
  · rintro ⟨w, hw, hver, hlt⟩ w' hw' hf'
    exact ⟨w, hw, hver, hlt w' hw' hf'⟩

theorem algZ_eq_specZ (Ω : List World) (P : List (List Cond)) (hP : P ≠ []) (q : Cond)
    (hf : ∃ w' ∈ Ω, q.fal w' = true) :
    algZ P.reverse Ω q = specZ Ω P q := by
  rw [Bool.eq_iff_iff, algZ_iff P.reverse Ω q (by simpa using hP) hf, List.reverse_reverse,
    ← forall_exists_iff_exists_forall Ω (zrk P) q hf]
  simp only [specZ, prefEnt, List.all_eq_true, List.any_eq_true, List.mem_filter, decide_eq_true_eq]
  constructor
  · rintro h w' ⟨hw', hf'⟩
    obtain ⟨w, hw, hv, hlt⟩ := h w' hw' hf'
    exact ⟨w, ⟨hw, hv⟩, hlt⟩
  · intro h w' hw' hf'
    obtain ⟨w, ⟨hw, hv⟩, hlt⟩ := h w' ⟨hw', hf'⟩
    exact ⟨w, hw, hv, hlt⟩

end InfOCF
