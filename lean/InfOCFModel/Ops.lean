import InfOCFModel.Basic
import InfOCFModel.Tol
import InfOCFModel.Ocf
import InfOCFModel.Z
import InfOCFModel.W
import InfOCFModel.Lex
import InfOCFModel.Ext
/-!
# User-callable operator models

Each `ans*` function follows the Python control flow of the corresponding operator as a user
reaches it through `InferenceManager.inference`:

* `Inference.preprocess_belief_base`  (refuse an empty base / a base without partition),
* `Inference.general_inference`       (trivial-query short cut, evaluated over *all* worlds),
* the operator's `_inference`         (strict branch or weakly branch with its vacuity checks),
* the operator's `_rec_inference`     (`algZ`, `algW`, `algLex`).

`Ω` is always the list of all worlds over the atoms in play; in extended mode the
feasible worlds are `Ω.filter (nofal inf)`.
-/
namespace InfOCF

/-- outcome of a call: the operator refuses the base, or answers -/
inductive Out where
  | refuseEmpty
  | refuseIncons
  | val (b : Bool)
deriving Repr, DecidableEq, Inhabited

/-- `general_inference`: `is_unsat(A) or is_unsat(A ∧ ¬B)` -/
def trivialQ (Ω : List World) (q : Cond) : Bool :=
  !(Ω.any fun w => q.ante.eval w) || !(Ω.any q.fal)

/-- strict partition of a base (`consistency(.., weakly=False)`) -/
def partS (Ω : List World) (D : List Cond) : Option (List (List Cond)) := tolPart Ω D.length D
/-- extended partition (`consistency(.., weakly=True)`): finite layers ++ [infinity layer] -/
def partE (Ω : List World) (D : List Cond) : Option (List (List Cond)) := tolPartExt Ω (D.length + 1) D

/-- the partition `preprocess_belief_base` demands for the selected mode -/
def partFor (weakly : Bool) (Ω : List World) (D : List Cond) : Option (List (List Cond)) :=
  if weakly then partE Ω D else partS Ω D

/-- finite layers / infinity layer / feasible worlds of a mode's partition -/
def finLayers (weakly : Bool) (P : List (List Cond)) : List (List Cond) := if weakly then P.dropLast else P
def infLayer (weakly : Bool) (P : List (List Cond)) : List Cond := if weakly then P.getLastD [] else []
def feasible (Ω : List World) (inf : List Cond) : List World := Ω.filter (nofal inf)

/-- common wrapper: refusal, then trivial-query short cut, then the operator body -/
def wrap (weakly : Bool) (Ω : List World) (D : List Cond) (q : Cond)
    (body : List (List Cond) → List World → Bool) : Out :=
  match D with
  | [] => .refuseEmpty
  | _ =>
    match partFor weakly Ω D with
    | none => .refuseIncons
    | some P =>
      if trivialQ Ω q then .val true
      else .val (body (finLayers weakly P) (feasible Ω (infLayer weakly P)))

/-! ### p-entailment -/

/-- `PEntailment._inference` (both branches) -/
def bodyP (weakly : Bool) (Ω : List World) (D : List Cond) (q : Cond) : Bool :=
  if weakly then algPExt Ω D q
  else (tolPart Ω (D.length + 1) (negq q :: D)).isNone

def ansP (weakly : Bool) (Ω : List World) (D : List Cond) (q : Cond) : Out :=
  wrap weakly Ω D q fun _ _ => bodyP weakly Ω D q

/-! ### System Z -/

/-- `SystemZ._inference`: (weakly: vacuity check on `A ∧ ¬B`, no finite layer ⇒ False) then `_rec_inference` -/
def bodyZ (weakly : Bool) (fin : List (List Cond)) (Ωf : List World) (q : Cond) : Bool :=
  if weakly && !(Ωf.any q.fal) then true
  else match fin with
    | [] => false
    | _ => algZ fin.reverse Ωf q

def ansZ (weakly : Bool) (Ω : List World) (D : List Cond) (q : Cond) : Out :=
  wrap weakly Ω D q fun fin Ωf => bodyZ weakly fin Ωf q

/-! ### System W (both back-ends share this model; the optimizer call is `famMin`) -/

/-- `_rec_inference` exactly as written: a tie at the lowest layer answers False -/
def algWCode : List (List Cond) → List World → List World → Bool
  | [], _, _ => false
  | L :: rest, Hv, Hf =>
    let Xv := famMin L Hv
    let Xf := famMin L Hf
    if !(Xf.all fun b => Xv.any fun a => subsetL a b) then false
    else (Xv.filter (Xf.contains ·)).all fun x =>
      match rest with
      | [] => false
      | _ => algWCode rest (Hv.filter (fset L · == x)) (Hf.filter (fset L · == x))

def bodyW (weakly : Bool) (fin : List (List Cond)) (Ωf : List World) (q : Cond) : Bool :=
  if weakly && (!(Ωf.any fun w => q.ante.eval w) || !(Ωf.any q.fal)) then true
  else match fin with
    | [] => false
    | _ => algWCode fin.reverse (Ωf.filter q.ver) (Ωf.filter q.fal)

def ansW (weakly : Bool) (Ω : List World) (D : List Cond) (q : Cond) : Out :=
  wrap weakly Ω D q fun fin Ωf => bodyW weakly fin Ωf q

/-! ### lexicographic inference -/

/-- the recursion as the code had it before the repair (every pair must succeed) — kept for the witness theorem -/
def algLexAllPairs : List (List Cond) → List World → List World → Bool
  | [], _, _ => false
  | L :: rest, Hv, Hf =>
    let Xv := famMin L Hv
    let Xf := famMin L Hf
    if Xv.isEmpty then false else if Xf.isEmpty then true else
    let mv := minLen Xv
    let mf := minLen Xf
    if mv < mf then true else if mf < mv then false else
    (Xv.filter (·.length == mv)).all fun xv => (Xf.filter (·.length == mf)).all fun xf =>
      algLexAllPairs rest (Hv.filter (fset L · == xv)) (Hf.filter (fset L · == xf))

/-- `LexInf._inference`: strict short cuts, weakly vacuity checks, then the recursion -/
def bodyLex (weakly : Bool) (fin : List (List Cond)) (Ωf : List World) (q : Cond) : Bool :=
  if !(Ωf.any fun w => q.ante.eval w) || !(Ωf.any q.fal) then true
  else if !(Ωf.any q.ver) then false
  else match fin with
    | [] => false
    | _ => algLex fin.reverse (Ωf.filter q.ver) (Ωf.filter q.fal)

def ansLex (weakly : Bool) (Ω : List World) (D : List Cond) (q : Cond) : Out :=
  wrap weakly Ω D q fun fin Ωf => bodyLex weakly fin Ωf q

/-! ### Specifications (the property texts) -/

/-- feasible worlds and finite layers of the selected mode, when the base is accepted -/
def modeView (weakly : Bool) (Ω : List World) (D : List Cond) : Option (List (List Cond) × List World) :=
  match D with
  | [] => none
  | _ => (partFor weakly Ω D).map fun P => (finLayers weakly P, feasible Ω (infLayer weakly P))

/-- C02/C07: rank comparison under the Z-ranking of the finite layers over feasible worlds -/
def specZ' (fin : List (List Cond)) (Ωf : List World) (q : Cond) : Bool := specZ Ωf fin q
/-- C03/C07 -/
def specW' (fin : List (List Cond)) (Ωf : List World) (q : Cond) : Bool :=
  specW fin.reverse (Ωf.filter q.ver) (Ωf.filter q.fal)
/-- C04/C07 -/
def specLex' (fin : List (List Cond)) (Ωf : List World) (q : Cond) : Bool :=
  specLex fin.reverse (Ωf.filter q.ver) (Ωf.filter q.fal)

end InfOCF
