import InfOCFModel.Basic
import InfOCFModel.W
import InfOCFModel.Mcs
/-!
# Integer CNFs, faithfulness of an encoding, and the RC2-side bookkeeping of `optimizer.py`

Variables `1..n` are the atoms (variable `i+1` = atom `i`), variables `n+1..n+aux` are auxiliaries
(Tseitin variables, the reserved false-variable, helper variables).
-/
namespace InfOCF

abbrev Clause := List Int
abbrev CNF := List Clause

/-- truth of a literal under an assignment given as a Boolean list (variable `v` ↦ position `v-1`) -/
def litTrue (asg : List Bool) (l : Int) : Bool :=
  if l > 0 then asg.getD (l.toNat - 1) false else !(asg.getD ((-l).toNat - 1) false)

def clauseSat (asg : List Bool) (c : Clause) : Bool := c.any (litTrue asg)
def cnfSat (asg : List Bool) (F : CNF) : Bool := F.all (clauseSat asg)

/-- executable faithfulness check: for every world over `n` atoms, the clause set is satisfiable by
some assignment to the `aux` auxiliaries exactly when `sem w` holds -/
def cnfFaithfulB (n aux : Nat) (F : CNF) (sem : World → Bool) : Bool :=
  (allWorlds n).all fun w => ((allWorlds aux).any fun a => cnfSat (w ++ a) F) == sem w

/-- the statement it decides -/
def CnfFaithful (n aux : Nat) (F : CNF) (sem : World → Bool) : Prop :=
  ∀ w ∈ allWorlds n, (∃ a ∈ allWorlds aux, cnfSat (w ++ a) F = true) ↔ sem w = true

theorem cnfFaithful_check_sound (n aux : Nat) (F : CNF) (sem : World → Bool) :
    cnfFaithfulB n aux F sem = true ↔ CnfFaithful n aux F sem := by
  simp only [cnfFaithfulB, CnfFaithful, List.all_eq_true, beq_iff_eq]
  constructor
  · intro h w hw
    have := h w hw
    rw [← this, List.any_eq_true]
  · intro h w hw
    have := h w hw
    rw [Bool.eq_iff_iff, List.any_eq_true]
    exact this

/-! ### `get_violated_conditional` -/

/-- a clause "not satisfied by the model" as the code tests it: no literal of the model occurs in it -/
def clauseViolated (model : List Int) (c : Clause) : Bool := !(model.any fun x => c.contains x)

/-- the clauses the scan visits, in dictionary order, each tagged with its conditional's key;
conditionals listed in `ignore` are skipped -/
def flatClauses (ignore : List Nat) (dict : List (Nat × CNF)) : List (Nat × Clause) :=
  (dict.filter fun p => !(ignore.contains p.1)).flatMap fun p => p.2.map fun c => (p.1, c)

/-- the scan with its early exit (`if counter == cost: return violated`, tested after every clause) -/
def violatedScan (model : List Int) (cost : Nat) : List (Nat × Clause) → Nat → List Nat → List Nat
  | [], _, acc => acc
  | (k, c) :: rest, counter, acc =>
    let viol := clauseViolated model c
    let counter' := if viol then counter + 1 else counter
    let acc' := if viol && !(acc.contains k) then acc ++ [k] else acc
    if counter' == cost then acc' else violatedScan model cost rest counter' acc'

/-- `get_violated_conditional`: nothing when cost = 0 -/
def getViolated (model : List Int) (cost : Nat) (ignore : List Nat) (dict : List (Nat × CNF)) : List Nat :=
  if cost = 0 then [] else violatedScan model cost (flatClauses ignore dict) 0 []

def violatedCount (model : List Int) (flat : List (Nat × Clause)) : Nat :=
  (flat.filter fun p => clauseViolated model p.2).length

theorem violatedScan_mem (model : List Int) (cost : Nat) :
    ∀ (flat : List (Nat × Clause)) (counter : Nat) (acc : List Nat),
    counter + violatedCount model flat ≤ cost → (counter < cost ∨ violatedCount model flat = 0) →
    ∀ k, k ∈ violatedScan model cost flat counter acc ↔
      (k ∈ acc ∨ ∃ p ∈ flat, p.1 = k ∧ clauseViolated model p.2 = true) := by
  intro flat
  induction flat with
  | nil => intro counter acc _ _ k; simp [violatedScan]
  | cons p rest ih =>
    intro counter acc hle hlt k
    obtain ⟨k0, c0⟩ := p
    simp only [violatedScan]
    cases hv : clauseViolated model c0 with
    | false =>
      simp only [Bool.false_and, Bool.false_eq_true, ↓reduceIte]
      have hcnt : violatedCount model ((k0, c0) :: rest) = violatedCount model rest := by
        simp [violatedCount, List.filter_cons, hv]
      rw [hcnt] at hle hlt
      by_cases hc : counter = cost
      · -- counter already at cost: no violated clause can follow
        have h0 : violatedCount model rest = 0 := by omega
        simp only [hc, beq_self_eq_true, ↓reduceIte]
        constructor
        · intro h; exact Or.inl h
        · rintro (h | ⟨p, hp, _, hpv⟩)
          · exact h
          · rcases List.mem_cons.mp hp with rfl | hp'
            · simp [hv] at hpv
            · have : p ∈ rest.filter fun p => clauseViolated model p.2 := List.mem_filter.mpr ⟨hp', hpv⟩
              simp only [violatedCount, List.length_eq_zero_iff] at h0
              rw [h0] at this; simp at this
      · have hne : (counter == cost) = false := by simpa using hc
        simp only [hne, Bool.false_eq_true, ↓reduceIte]
        rw [ih counter acc hle (by omega) k]
        constructor
        · rintro (h | ⟨p, hp, h1, h2⟩)
          · exact Or.inl h
          · exact Or.inr ⟨p, List.mem_cons_of_mem _ hp, h1, h2⟩
        · rintro (h | ⟨p, hp, h1, h2⟩)
          · exact Or.inl h
          · rcases List.mem_cons.mp hp with rfl | hp'
            · simp [hv] at h2
            · exact Or.inr ⟨p, hp', h1, h2⟩
    | true =>
      simp only [Bool.true_and, ↓reduceIte]
      have hcnt : violatedCount model ((k0, c0) :: rest) = violatedCount model rest + 1 := by
        simp [violatedCount, List.filter_cons, hv]
      rw [hcnt] at hle hlt
      have hacc : ∀ x, x ∈ (if (!(acc.contains k0)) = true then acc ++ [k0] else acc) ↔ (x ∈ acc ∨ x = k0) := by
        intro x
        by_cases hm : acc.contains k0 = true
        · simp only [hm, Bool.not_true, Bool.false_eq_true, ↓reduceIte]
          constructor
          · intro h; exact Or.inl h
          · rintro (h | rfl)
            · exact h
            · exact List.contains_iff_mem.mp hm
        · have hm' : acc.contains k0 = false := by simpa using hm
          simp only [hm', Bool.not_false, ↓reduceIte, List.mem_append, List.mem_singleton]
      by_cases hc : counter + 1 = cost
      · have h0 : violatedCount model rest = 0 := by omega
        simp only [hc, beq_self_eq_true, ↓reduceIte]
        rw [hacc]
        constructor
        · rintro (h | rfl)
          · exact Or.inl h
          · exact Or.inr ⟨(k, c0), by simp, rfl, hv⟩
        · rintro (h | ⟨p, hp, h1, h2⟩)
          · exact Or.inl h
          · rcases List.mem_cons.mp hp with rfl | hp'
            · exact Or.inr h1.symm
            · have : p ∈ rest.filter fun p => clauseViolated model p.2 := List.mem_filter.mpr ⟨hp', h2⟩
              simp only [violatedCount, List.length_eq_zero_iff] at h0
              rw [h0] at this; simp at this
      · have hne : (counter + 1 == cost) = false := by simpa using hc
        simp only [hne, Bool.false_eq_true, ↓reduceIte]
        rw [ih (counter + 1) _ (by omega) (by omega) k, hacc]
        constructor
        · rintro ((h | rfl) | ⟨p, hp, h1, h2⟩)
          · exact Or.inl h
          · exact Or.inr ⟨(k, c0), by simp, rfl, hv⟩
          · exact Or.inr ⟨p, List.mem_cons_of_mem _ hp, h1, h2⟩
        · rintro (h | ⟨p, hp, h1, h2⟩)
          · exact Or.inl (Or.inl h)
          · rcases List.mem_cons.mp hp with rfl | hp'
            · exact Or.inl (Or.inr h1.symm)
            · exact Or.inr ⟨p, hp', h1, h2⟩

/-- **`get_violated_conditional` is exact** whenever the reported cost is at least the number of
violated clauses among the scanned (non-ignored) conditionals — which holds for an RC2 model, whose
cost counts every violated soft clause: it returns exactly the non-ignored keys having an unsatisfied clause -/
theorem getViolated_spec (model : List Int) (cost : Nat) (ignore : List Nat) (dict : List (Nat × CNF))
    (hcost : violatedCount model (flatClauses ignore dict) ≤ cost) (k : Nat) :
    k ∈ getViolated model cost ignore dict ↔
      ∃ p ∈ flatClauses ignore dict, p.1 = k ∧ clauseViolated model p.2 = true := by
  unfold getViolated
  by_cases h0 : cost = 0
  · simp only [h0, ↓reduceIte, List.not_mem_nil, false_iff]
    rintro ⟨p, hp, _, hpv⟩
    have : p ∈ (flatClauses ignore dict).filter fun p => clauseViolated model p.2 := List.mem_filter.mpr ⟨hp, hpv⟩
    have hz : violatedCount model (flatClauses ignore dict) = 0 := by omega
    simp only [violatedCount, List.length_eq_zero_iff] at hz
    rw [hz] at this; simp at this
  · simp only [h0, ↓reduceIte]
    rw [violatedScan_mem model cost _ 0 [] (by omega) (by omega) k]
    simp

/-! ### `remove_supersets` (sorted by length, keep unless a kept set is a subset) -/

def insertByLen (a : List Cond) : List (List Cond) → List (List Cond)
  | [] => [a]
  | b :: rest => if a.length ≤ b.length then a :: b :: rest else b :: insertByLen a rest

def sortByLen : List (List Cond) → List (List Cond)
  | [] => []
  | a :: rest => insertByLen a (sortByLen rest)

def removeSupersets (X : List (List Cond)) : List (List Cond) := removeSupersetsAux [] (sortByLen X)

end InfOCF
