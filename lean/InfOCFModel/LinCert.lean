import InfOCFModel.CCert
import InfOCFModel.CRepModel
/-!
# Refutation certificates for linear systems over the naturals (with constants)

`LIneq`: `lc · x + lk ≤ rc · x + rk` for coefficient vectors `lc rc` and constants `lk rk`.
`linRefute L`: the weighted sum of the inequalities of `L` has a right-hand side whose coefficients are
dominated by those of the left-hand side while its constant is strictly smaller: no `x` can satisfy all of them
(`linRefute_sound`, Props/C17cert.lean).  Strict inequalities `a < b` over the naturals are written `a + 1 ≤ b`.

Instance: **completeness of a Pareto front** of c-representations (`frontCertCheck`): for every choice of the
verifying sets hidden in the compiled constraints and every choice, per front member `f`, of a coordinate `c`
with `η_c < f_c`, the system must be refuted by some leaf of the pool — then every c-representation dominates
a member of the front (`C17_front_cert_sound`).
-/
namespace InfOCF

def dotL : List Nat → List Nat → Nat
  | a :: as, x :: xs => a * x + dotL as xs
  | _, _ => 0

def addV : List Nat → List Nat → List Nat
  | a :: as, b :: bs => (a + b) :: addV as bs
  | [], bs => bs
  | as, [] => as

def smulV (m : Nat) (a : List Nat) : List Nat := a.map (m * ·)

/-- pointwise `≤`, a missing entry counting as 0 -/
def leV : List Nat → List Nat → Bool
  | [], _ => true
  | a :: as, [] => (a == 0) && leV as []
  | a :: as, b :: bs => decide (a ≤ b) && leV as bs

structure LIneq where
  lc : List Nat
  lk : Nat
  rc : List Nat
  rk : Nat

def LIneq.holds (x : List Nat) (e : LIneq) : Prop := dotL e.lc x + e.lk ≤ dotL e.rc x + e.rk

def sumLC : List (Nat × LIneq) → List Nat
  | [] => []
  | p :: t => addV (smulV p.1 p.2.lc) (sumLC t)
def sumRC : List (Nat × LIneq) → List Nat
  | [] => []
  | p :: t => addV (smulV p.1 p.2.rc) (sumRC t)
def sumLK : List (Nat × LIneq) → Nat
  | [] => 0
  | p :: t => p.1 * p.2.lk + sumLK t
def sumRK : List (Nat × LIneq) → Nat
  | [] => 0
  | p :: t => p.1 * p.2.rk + sumRK t

/-- the weighted inequalities contradict each other -/
def linRefute (L : List (Nat × LIneq)) : Bool := leV (sumRC L) (sumLC L) && decide (sumRK L < sumLK L)

/-! ### Pareto-front completeness -/

/-- indicator vector of the set `s` over the positions of `D` -/
def indV (D s : List Cond) : List Nat := D.map (ind s)

/-- unit vector of coordinate `j` -/
def unitV (j : Nat) : List Nat := List.replicate j 0 ++ [1]

/-- multipliers of one refutation: `bm` aligned with the rows (inner lists aligned with the row's `fMin`), `fm` aligned with the front -/
structure FLeaf where
  bm : List (List Nat)
  fm : List Nat

def frontIneqs (D : List Cond) (tab : List CRow) (ch : List (List Cond)) (front : List (List Nat)) (cs : List Nat)
    (lf : FLeaf) : List (Nat × LIneq) :=
  (((tab.zip ch).zip lf.bm).flatMap fun x =>
      (x.1.1.F.zip x.2).map fun y =>
        (y.2, (⟨indV D x.1.2, 1, addV (indV D [x.1.1.i]) (indV D y.1), 0⟩ : LIneq)))
  ++ ((front.zip cs).zip lf.fm).map fun z => (z.2, (⟨unitV z.1.2, 1, [], z.1.1.getD z.1.2 0⟩ : LIneq))

/-- every choice of verifying sets (rows) and of one coordinate per front member is refuted by a leaf of the pool -/
def frontCertCheck (Ω : List World) (D : List Cond) (front : List (List Nat)) (pool : List FLeaf) : Bool :=
  let tab := ctab Ω D
  (choices (tab.map (·.V))).all fun ch =>
    (choices (front.map fun _ => List.range D.length)).all fun cs =>
      pool.any fun lf => linRefute (frontIneqs D tab ch front cs lf)

/-! ### c-revision: "no parameters exist" -/

/-- coefficients of the revised rank of world `w` over the variables `γ⁺_1 … γ⁺_k, γ⁻_1 … γ⁻_k` -/
def revRowV (R : List Cond) (w : World) : List Nat :=
  indV R (R.filter (·.ver w)) ++ indV R (R.filter (·.fal w))

/-- multipliers of one refutation: `am` aligned with the revision conditionals (inner lists aligned with the falsifying
worlds of the conditional, in the order of `Ω`), `zm` the weight of `Σ γ⁺ ≤ 0` (used when γ⁺ is fixed to zero) -/
structure RLeaf where
  am : List (List Nat)
  zm : Nat

def revIneqs (Ω : List World) (κ : World → Nat) (R : List Cond) (gpz : Bool) (ch : List World) (lf : RLeaf) :
    List (Nat × LIneq) :=
  (((R.zip ch).zip lf.am).flatMap fun x =>
      ((Ω.filter x.1.1.fal).zip x.2).map fun y =>
        (y.2, (⟨revRowV R x.1.2, κ x.1.2 + 1, revRowV R y.1, κ y.1⟩ : LIneq)))
  ++ (if gpz then [(lf.zm, (⟨List.replicate R.length 1, 0, [], 0⟩ : LIneq))] else [])

/-- every choice of one verifying world per revision conditional is refuted by a leaf of the pool -/
def revCertCheck (Ω : List World) (κ : World → Nat) (R : List Cond) (gpz : Bool) (pool : List RLeaf) : Bool :=
  (choices (R.map fun i => Ω.filter i.ver)).all fun ch =>
    pool.any fun lf => linRefute (revIneqs Ω κ R gpz ch lf)

end InfOCF
