/-! Core model: formulas, worlds, conditionals (Mathlib-free, executable). -/
namespace InfOCF

inductive Fm where
  | top | bot
  | atom (i : Nat)
  | neg (a : Fm)
  | and (a b : Fm)
  | or (a b : Fm)
deriving Repr, DecidableEq, Inhabited

abbrev World := List Bool

def Fm.eval (w : World) : Fm → Bool
  | .top => true
  | .bot => false
  | .atom i => w.getD i false
  | .neg a => !(a.eval w)
  | .and a b => a.eval w && b.eval w
  | .or a b => a.eval w || b.eval w

/-- atom `i` occurs in the formula -/
def Fm.mentions : Fm → Nat → Bool
  | .top, _ => false
  | .bot, _ => false
  | .atom j, i => i == j
  | .neg a, i => a.mentions i
  | .and a b, i => a.mentions i || b.mentions i
  | .or a b, i => a.mentions i || b.mentions i

def allWorlds : Nat → List World
  | 0 => [[]]
  | n+1 => (allWorlds n).flatMap fun w => [false :: w, true :: w]

structure Cond where
  cons : Fm
  ante : Fm
  key : Nat := 0
deriving Repr, DecidableEq, Inhabited

def Cond.ver (c : Cond) (w : World) : Bool := c.ante.eval w && c.cons.eval w
def Cond.fal (c : Cond) (w : World) : Bool := c.ante.eval w && !(c.cons.eval w)

/-- no conditional of `cs` falsified by `w` -/
def nofal (cs : List Cond) (w : World) : Bool := cs.all fun c => !(c.fal w)

/-- `c` tolerated by `cs` over world list `Ω` -/
def tolerated (Ω : List World) (cs : List Cond) (c : Cond) : Bool :=
  Ω.any fun w => c.ver w && nofal cs w

/-- greedy tolerance partition (strict). fuel = length suffices. -/
def tolPart (Ω : List World) : Nat → List Cond → Option (List (List Cond))
  | _, [] => some []
  | 0, _ :: _ => none
  | fuel+1, cs =>
    let R := cs.filter (tolerated Ω cs)
    let C := cs.filter (fun c => !(tolerated Ω cs c))
    if R.isEmpty then none
    else (tolPart Ω fuel C).map (R :: ·)

def zrank (part : List (List Cond)) (w : World) : Nat :=
  -- 0 if falsifies nothing, else 1 + largest layer index with a falsified cond
  (part.zipIdx.foldl (fun acc (l, i) => if l.any (·.fal w) then i + 1 else acc) 0)

end InfOCF
