import InfOCFModel.Basic
import InfOCFModel.W
namespace InfOCF

/-- `remove_supersets`: sort by length, keep a set unless an already kept set is a subset of it -/
def removeSupersetsAux : List (List Cond) → List (List Cond) → List (List Cond)
  | kept, [] => kept
  | kept, a :: rest =>
    if kept.any (fun b => subsetL b a) then removeSupersetsAux kept rest
    else removeSupersetsAux (kept ++ [a]) rest

/-- a world is blocked when it falsifies every member of some already found set -/
def blockedBy (L : List Cond) (blocked : List (List Cond)) (w : World) : Bool :=
  blocked.any fun V => subsetL V (fset L w)

/-- contract of the MaxSAT oracle at the level of worlds: it returns some feasible unblocked world,
    or `none` iff there is none.  (That the model it returns violates exactly the soft clauses of the
    conditionals its world falsifies is lemma L2 of the design, proved separately from optimality.) -/
structure Oracle (L : List Cond) (H : List World) where
  pick : List (List Cond) → Option World
  sound : ∀ b w, pick b = some w → w ∈ H ∧ blockedBy L b w = false
  complete : ∀ b, pick b = none → ∀ w ∈ H, blockedBy L b w = true

/-- the enumeration loop of `OptimizerRC2.minimal_correction_subsets` (before superset removal) -/
def enumLoop {L : List Cond} {H : List World} (o : Oracle L H) :
    Nat → List (List Cond) → List (List Cond)
  | 0, acc => acc
  | fuel + 1, acc =>
    match o.pick acc with
    | none => acc
    | some w =>
      let V := fset L w
      if V = [] then acc ++ [V] else enumLoop o fuel (acc ++ [V])

def unblockedCount (L : List Cond) (H : List World) (acc : List (List Cond)) : Nat :=
  (H.filter fun w => !(blockedBy L acc w)).length

theorem blockedBy_mono {L acc V w} (h : blockedBy L acc w = true) : blockedBy L (acc ++ [V]) w = true := by
  simp only [blockedBy, List.any_append, Bool.or_eq_true]; exact Or.inl h

theorem unblockedCount_lt {L : List Cond} {H : List World} (acc : List (List Cond)) (w : World)
    (hw : w ∈ H) (hb : blockedBy L acc w = false) :
    unblockedCount L H (acc ++ [fset L w]) < unblockedCount L H acc := by
  unfold unblockedCount
  apply filter_len_lt
  · intro x _ hx
    cases h : blockedBy L acc x with
    | false => rfl
    | true => rw [blockedBy_mono h] at hx; cases hx
  · refine ⟨w, hw, by simp [hb], ?_⟩
    simp [blockedBy, subsetL_refl]

/-- invariant-carrying result of the loop -/
theorem enumLoop_spec {L : List Cond} {H : List World} (o : Oracle L H) :
    ∀ (fuel : Nat) (acc : List (List Cond)),
    unblockedCount L H acc < fuel →
    (∀ V ∈ acc, ∃ w ∈ H, fset L w = V) →
    let res := enumLoop o fuel acc
    (∀ V ∈ res, ∃ w ∈ H, fset L w = V) ∧ (∀ w ∈ H, blockedBy L res w = true) := by
  intro fuel
  induction fuel with
  | zero => intro acc h; omega
  | succ n ih =>
    intro acc hfuel hreal
    simp only [enumLoop]
    cases hp : o.pick acc with
    | none =>
      exact ⟨hreal, o.complete acc hp⟩
    | some w =>
      obtain ⟨hwH, hwb⟩ := o.sound acc w hp
      have hreal' : ∀ V ∈ acc ++ [fset L w], ∃ w ∈ H, fset L w = V := by
        intro V hV
        rcases List.mem_append.mp hV with h | h
        · exact hreal V h
        · simp at h; exact ⟨w, hwH, h.symm⟩
      by_cases hnil : fset L w = []
      · simp only [hnil, if_true]
        refine ⟨by simpa [hnil] using hreal', ?_⟩
        intro w' _
        simp [blockedBy, subsetL]
      · simp only [hnil, if_false]
        apply ih _ _ hreal'
        have := unblockedCount_lt acc w hwH hwb
        omega

/-- minimal elements of the accumulated list are exactly the minimal falsification sets -/
theorem minimal_of_enum {L : List Cond} {H : List World} (res : List (List Cond))
    (hreal : ∀ V ∈ res, ∃ w ∈ H, fset L w = V)
    (hcov : ∀ w ∈ H, blockedBy L res w = true) (s : List Cond) :
    (s ∈ res ∧ ∀ t ∈ res, subsetL t s = true → t = s) ↔ s ∈ famMin L H := by
  constructor
  · rintro ⟨hs, hmin⟩
    obtain ⟨w, hw, rfl⟩ := hreal _ hs
    obtain ⟨m, hm, hms⟩ := famMin_below (L := L) w hw
    obtain ⟨wm, hwm, rfl⟩ := famMin_real hm
    have := hcov wm hwm
    simp only [blockedBy, List.any_eq_true] at this
    obtain ⟨V, hV, hVs⟩ := this
    have hV' := hmin V hV (subsetL_trans hVs hms)
    -- V = fset w ⊆ fset wm ⊆ fset w
    have : fset L wm = fset L w := fset_antisymm hms (by rw [← hV']; exact hVs)
    rw [← this]; exact hm
  · intro hs
    obtain ⟨w, hw, rfl⟩ := famMin_real hs
    have := hcov w hw
    simp only [blockedBy, List.any_eq_true] at this
    obtain ⟨V, hV, hVs⟩ := this
    obtain ⟨wv, hwv, rfl⟩ := hreal V hV
    have hEq := famMin_min hs wv hwv hVs
    refine ⟨by rw [← hEq]; exact hV, ?_⟩
    intro t ht hts
    obtain ⟨wt, hwt, rfl⟩ := hreal t ht
    exact famMin_min hs wt hwt hts

end InfOCF
