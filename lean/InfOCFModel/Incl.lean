import InfOCFModel.Basic
import InfOCFModel.W
import InfOCFModel.Lex
import InfOCFModel.Z
namespace InfOCF

/-- Z-rank strictly smaller ⇒ W-preferred (layers: `P` bottom-first, `P.reverse` top-first) -/
theorem zrk_lt_wless : ∀ (Ptop : List (List Cond)) (w w' : World),
    zrk Ptop.reverse w < zrk Ptop.reverse w' → wless Ptop w w' = true := by
  intro Ptop
  induction Ptop with
  | nil => intro w w' h; simp [zrk] at h
  | cons L below ih =>
    intro w w' h
    rw [List.reverse_cons] at h
    simp only [wless]
    cases hw' : L.any (·.fal w') with
    | true =>
      rw [zrk_snoc_fal _ _ _ hw'] at h
      cases hw : L.any (·.fal w) with
      | true => rw [zrk_snoc_fal _ _ _ hw] at h; omega
      | false =>
        have e1 : fset L w = [] := by
          simp only [fset, List.filter_eq_nil_iff]
          intro x hx; simpa using (List.any_eq_false.mp hw) x hx
        have e2 : fset L w' ≠ [] := by
          obtain ⟨x, hx, hf⟩ := List.any_eq_true.mp hw'
          intro h0
          have : x ∈ fset L w' := by simp [fset, List.mem_filter, hx, hf]
          rw [h0] at this; simp at this
        rw [e1]
        have : ¬ ([] = fset L w') := fun h0 => e2 h0.symm
        simp [this, subsetL]
    | false =>
      rw [zrk_snoc_nofal _ _ _ hw'] at h
      have hle := zrk_le_length below.reverse w'
      cases hw : L.any (·.fal w) with
      | true => rw [zrk_snoc_fal _ _ _ hw] at h; omega
      | false =>
        rw [zrk_snoc_nofal _ _ _ hw] at h
        have e1 : fset L w = [] := by
          simp only [fset, List.filter_eq_nil_iff]
          intro x hx; simpa using (List.any_eq_false.mp hw) x hx
        have e2 : fset L w' = [] := by
          simp only [fset, List.filter_eq_nil_iff]
          intro x hx; simpa using (List.any_eq_false.mp hw') x hx
        simp [e1, e2, ih w w' h]

theorem wless_lexLt : ∀ (layers : List (List Cond)) (w w' : World),
    wless layers w w' = true → lexLt (lexVec layers w) (lexVec layers w') = true := by
  intro layers
  induction layers with
  | nil => intro w w' h; simp [wless] at h
  | cons L rest ih =>
    intro w w' h
    simp only [wless] at h
    simp only [lexVec, List.map_cons, lexLt, Bool.or_eq_true, decide_eq_true_eq, Bool.and_eq_true, beq_iff_eq]
    split at h
    · rename_i he
      right; exact ⟨by unfold cnt; rw [he], ih w w' h⟩
    · rename_i hne
      left
      have hle := subset_len_le (L := L) (w := w') ⟨w, rfl⟩ h
      apply Classical.byContradiction
      intro hnlt
      exact hne (subset_len_eq h (by unfold cnt at *; omega))

theorem specZ_le_specW (Ω : List World) (P : List (List Cond)) (q : Cond)
    (h : specZ Ω P q = true) : specW P.reverse (Ω.filter q.ver) (Ω.filter q.fal) = true := by
  simp only [specZ, prefEnt, specW, List.all_eq_true, List.any_eq_true, decide_eq_true_eq] at h ⊢
  intro w' hw'
  obtain ⟨w, hw, hlt⟩ := h w' hw'
  exact ⟨w, hw, zrk_lt_wless P.reverse w w' (by simpa using hlt)⟩

theorem specW_le_specLex (layers : List (List Cond)) (Hv Hf : List World)
    (h : specW layers Hv Hf = true) : specLex layers Hv Hf = true := by
  simp only [specW, specLex, List.all_eq_true, List.any_eq_true] at h ⊢
  intro w' hw'
  obtain ⟨w, hw, hlt⟩ := h w' hw'
  exact ⟨w, hw, wless_lexLt layers w w' hlt⟩

/-- p ≤ Z: if every ranking model of D accepts q then the Z-ranking does (D strongly consistent) -/
theorem p_le_Z (Ω : List World) (P : List (List Cond)) (hP : IsTolPart Ω P) (q : Cond)
    (h : ∀ κ : World → Nat, Models Ω κ P.flatten → Accepts Ω κ q) :
    specZ Ω P q = true := by
  obtain ⟨w, hw, hv, hlt⟩ := h (zrk P) (zrk_models Ω P hP)
  simp only [specZ, prefEnt, List.all_eq_true, List.any_eq_true, List.mem_filter, decide_eq_true_eq]
  rintro w' ⟨hw', hf'⟩
  exact ⟨w, ⟨hw, hv⟩, hlt w' hw' hf'⟩

end InfOCF
