import InfOCFModel.Basic
import InfOCFModel.Ocf
/-!
# Ranking-function operations (`inference/preocf.py`)

A total ranking is a function `κ : World → Nat` together with the world list `Ω` it is defined on.
The operations are modelled as the code performs them (scan of the world dictionary in order,
first-seen initialisation, strict comparison …).
-/
namespace InfOCF

/-- `formula_rank`: scan all worlds, keep the smallest rank among those satisfying `φ` -/
def formulaRank (Ω : List World) (κ : World → Nat) (φ : Fm) : Option Nat :=
  Ω.foldl (fun acc w =>
    if φ.eval w then
      match acc with
      | none => some (κ w)
      | some m => if κ w < m then some (κ w) else some m
    else acc) none

/-- `conditional_acceptance` from two formula ranks -/
def acceptCode (Ω : List World) (κ : World → Nat) (c : Cond) : Bool :=
  match formulaRank Ω κ (.and c.ante c.cons), formulaRank Ω κ (.and c.ante (.neg c.cons)) with
  | none, _ => false
  | some _, none => true
  | some v, some f => decide (v < f)

/-- delete the positions listed in `drop` from a world -/
def project (drop : List Nat) (w : World) : World :=
  (w.zipIdx.filter fun p => !(drop.contains p.2)).map (·.1)

/-- `marginalize`: dictionary of projected worlds, first-seen initialisation then `min`;
returned as an association list in first-seen order -/
def marginalize (Ω : List World) (κ : World → Nat) (drop : List Nat) : List (World × Nat) :=
  Ω.foldl (fun acc w =>
    let v := project drop w
    match acc.find? (·.1 == v) with
    | none => acc ++ [(v, κ w)]
    | some _ => acc.map fun p => if p.1 == v then (p.1, min p.2 (κ w)) else p) []

/-- `compute_conditionalization`: the worlds satisfying `φ`, each with its rank -/
def conditionalize (Ω : List World) (κ : World → Nat) (φ : Fm) : List (World × Nat) :=
  (Ω.filter fun w => φ.eval w).map fun w => (w, κ w)

def insertNat (a : Nat) : List Nat → List Nat
  | [] => [a]
  | b :: rest => if a < b then a :: b :: rest else if a == b then b :: rest else b :: insertNat a rest

/-- the distinct ranks in ascending order -/
def distinctRanks (Ω : List World) (κ : World → Nat) : List Nat :=
  Ω.foldl (fun acc w => insertNat (κ w) acc) []

/-- `ranks2tpo`: layers of worlds, ascending by rank -/
def ranks2tpo (Ω : List World) (κ : World → Nat) : List (List World) :=
  (distinctRanks Ω κ).map fun r => Ω.filter fun w => κ w == r

/-- `tpo2ranks` with a layer-numbering function -/
def tpo2ranks (tpo : List (List World)) (f : Nat → Nat) : List (World × Nat) :=
  tpo.zipIdx.flatMap fun p => p.1.map fun w => (w, f p.2)

/-! ### System Z ranking object -/

/-- `_rec_z_rank`, layers top-first: the first (highest) layer with a falsified conditional decides -/
def recZ : List (List Cond) → World → Nat
  | [], _ => 0
  | L :: lower, w => if L.any (·.fal w) then lower.length + 1 else recZ lower w

/-- rank assigned by the ranking object: `P` is the partition as stored (bottom-first; in extended
mode its last element is the infinity layer) -/
def zObjRank (P : List (List Cond)) (w : World) : Nat := recZ P.reverse w

end InfOCF
