import InfOCFModel.CRep
import InfOCFModel.Ocf
/-! c-representations and skeptical c-inference (specification level). -/
namespace InfOCF

/-- the ranking induced by an impact assignment: sum of the impacts of the falsified conditionals -/
def kappaC (D : List Cond) (imp : Cond → Nat) (w : World) : Nat := cost imp (fset D w)

/-- `imp` is a c-representation of `D`: the induced ranking accepts every conditional of `D` -/
def IsCRep (Ω : List World) (D : List Cond) (imp : Cond → Nat) : Prop := Models Ω (kappaC D imp) D

/-- skeptical c-inference: `κ(AB) < κ(A¬B)` in every c-representation (A∧¬B unsatisfiable counts as True;
    A∧B unsatisfiable with A∧¬B satisfiable makes `Accepts` false) -/
def specC (Ω : List World) (D : List Cond) (q : Cond) : Prop :=
  (∀ w ∈ Ω, q.fal w = false) ∨ ∀ imp, IsCRep Ω D imp → Accepts Ω (kappaC D imp) q

end InfOCF
