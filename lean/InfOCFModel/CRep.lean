import InfOCFModel.Basic
import InfOCFModel.W
import InfOCFModel.CW
namespace InfOCF

/-! Weighted version of the minimal-set argument: for non-negative impacts the least cost over a world
    set equals the least cost over its inclusion-minimal falsification sets. -/

def cost (imp : Cond → Nat) (S : List Cond) : Nat := sumL (S.map imp)

theorem cost_subset_le (imp : Cond → Nat) {L : List Cond} {w0 w : World}
    (h : subsetL (fset L w0) (fset L w) = true) : cost imp (fset L w0) ≤ cost imp (fset L w) := by
  have hsub := subsetL_iff.mp h
  have key : ∀ (l : List Cond), (∀ x ∈ l, x.fal w0 = true → x.fal w = true) →
      sumL ((l.filter (·.fal w0)).map imp) ≤ sumL ((l.filter (·.fal w)).map imp) := by
    intro l hl
    induction l with
    | nil => simp [sumL]
    | cons y ys ih =>
      have ih' := ih (fun x hx => hl x (List.mem_cons_of_mem _ hx))
      have hy := hl y (by simp)
      cases h0 : y.fal w0 <;> cases h1 : y.fal w <;> simp_all [List.filter_cons, sumL] <;> omega
  unfold cost fset
  apply key
  intro x hx h0
  have := hsub x (by simp [fset, List.mem_filter, hx, h0])
  simp only [fset, List.mem_filter] at this
  exact this.2

/-- `m` is the least cost over worlds of `H`  ⇔  `m` is the least cost over the minimal family -/
theorem min_famMin (imp : Cond → Nat) (L : List Cond) (H : List World) (m : Nat) :
    ((∀ w ∈ H, m ≤ cost imp (fset L w)) ∧ ∃ w ∈ H, cost imp (fset L w) ≤ m) ↔
    ((∀ s ∈ famMin L H, m ≤ cost imp s) ∧ ∃ s ∈ famMin L H, cost imp s ≤ m) := by
  constructor
  · rintro ⟨hall, w, hw, hle⟩
    refine ⟨?_, ?_⟩
    · intro s hs
      obtain ⟨w0, hw0, rfl⟩ := famMin_real hs
      exact hall w0 hw0
    · obtain ⟨s, hs, hsub⟩ := famMin_below (L := L) w hw
      obtain ⟨w0, hw0, rfl⟩ := famMin_real hs
      exact ⟨_, hs, Nat.le_trans (cost_subset_le imp hsub) hle⟩
  · rintro ⟨hall, s, hs, hle⟩
    refine ⟨?_, ?_⟩
    · intro w hw
      obtain ⟨s0, hs0, hsub⟩ := famMin_below (L := L) w hw
      obtain ⟨w0, hw0, rfl⟩ := famMin_real hs0
      exact Nat.le_trans (hall _ hs0) (cost_subset_le imp hsub)
    · obtain ⟨w0, hw0, rfl⟩ := famMin_real hs
      exact ⟨w0, hw0, hle⟩

/-- `minima_encoding(mv, sums)`: all `mv ≤ s` and not all `mv < s`.  For a non-empty list it pins `mv`
    to the minimum; for the empty list it is unsatisfiable (defect D4). -/
def minimaEnc (mv : Int) (sums : List Int) : Prop := (∀ s ∈ sums, mv ≤ s) ∧ ¬ (∀ s ∈ sums, mv < s)

theorem minimaEnc_nil (mv : Int) : ¬ minimaEnc mv [] := by
  intro h; exact h.2 (by intro s hs; simp at hs)

theorem minimaEnc_iff (mv : Int) (sums : List Int) :
    minimaEnc mv sums ↔ ((∀ s ∈ sums, mv ≤ s) ∧ ∃ s ∈ sums, s ≤ mv) := by
  unfold minimaEnc
  constructor
  · rintro ⟨h1, h2⟩
    refine ⟨h1, ?_⟩
    obtain ⟨s, h⟩ := Classical.not_forall.mp h2
    obtain ⟨hs, hlt⟩ := Classical.not_imp.mp h
    exact ⟨s, hs, by omega⟩
  · rintro ⟨h1, s, hs, hle⟩
    refine ⟨h1, ?_⟩
    intro hall
    have := hall s hs
    omega

end InfOCF
