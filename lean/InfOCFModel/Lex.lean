import InfOCFModel.Basic
import InfOCFModel.W
namespace InfOCF

def lexLt : List Nat → List Nat → Bool
  | a :: as, b :: bs => a < b || (a == b && lexLt as bs)
  | _, _ => false

def cnt (L : List Cond) (w : World) : Nat := (fset L w).length
def lexVec (layers : List (List Cond)) (w : World) : List Nat := layers.map (cnt · w)

def specLex (layers : List (List Cond)) (Hv Hf : List World) : Bool :=
  Hf.all fun w' => Hv.any fun w => lexLt (lexVec layers w) (lexVec layers w')

def minLen : List (List Cond) → Nat
  | [] => 0
  | [s] => s.length
  | s :: t => min s.length (minLen t)

/-- fixed recursion: some minimum-cardinality verifying set beats every minimum-cardinality falsifying set -/
def algLex : List (List Cond) → List World → List World → Bool
  | [], _, _ => false
  | L :: rest, Hv, Hf =>
    let Xv := famMin L Hv
    let Xf := famMin L Hf
    if Xv.isEmpty then false else if Xf.isEmpty then true else
    let mv := minLen Xv
    let mf := minLen Xf
    if mv < mf then true else if mf < mv then false else
    (Xv.filter (·.length == mv)).any fun xv => (Xf.filter (·.length == mf)).all fun xf =>
      algLex rest (Hv.filter (fset L · == xv)) (Hf.filter (fset L · == xf))

/-! ### lexLt facts -/
theorem lexLt_irrefl : ∀ a, lexLt a a = false := by
  intro a; induction a with
  | nil => rfl
  | cons x xs ih => simp [lexLt, ih]

theorem lexLt_trans : ∀ a b c, lexLt a b = true → lexLt b c = true → lexLt a c = true := by
  intro a
  induction a with
  | nil => intro b c h; cases b <;> simp [lexLt] at h
  | cons x xs ih =>
    intro b c h1 h2
    cases b with
    | nil => simp [lexLt] at h1
    | cons y ys =>
      cases c with
      | nil => simp [lexLt] at h2
      | cons z zs =>
        simp only [lexLt, Bool.or_eq_true, decide_eq_true_eq, Bool.and_eq_true, beq_iff_eq] at h1 h2 ⊢
        rcases h1 with h1 | ⟨h1, h1'⟩ <;> rcases h2 with h2 | ⟨h2, h2'⟩
        · left; omega
        · left; omega
        · left; omega
        · right; exact ⟨by omega, ih ys zs h1' h2'⟩

theorem lexLt_total : ∀ a b : List Nat, a.length = b.length → lexLt a b = true ∨ a = b ∨ lexLt b a = true := by
  intro a
  induction a with
  | nil => intro b h; cases b with | nil => simp | cons _ _ => simp at h
  | cons x xs ih =>
    intro b h
    cases b with
    | nil => simp at h
    | cons y ys =>
      simp only [List.length_cons, Nat.add_right_cancel_iff] at h
      simp only [lexLt, Bool.or_eq_true, decide_eq_true_eq, Bool.and_eq_true, beq_iff_eq]
      rcases Nat.lt_trichotomy x y with hlt | heq | hgt
      · left; left; exact hlt
      · subst heq
        rcases ih ys h with h' | h' | h'
        · left; right; exact ⟨rfl, h'⟩
        · right; left; rw [h']
        · right; right; right; exact ⟨rfl, h'⟩
      · right; right; left; exact hgt

/-- a lexicographically least element exists in a non-empty list -/
theorem exists_lexmin (vec : World → List Nat) (n : Nat) (hlen : ∀ w, (vec w).length = n) :
    ∀ (H : List World), H ≠ [] → ∃ m ∈ H, ∀ w ∈ H, lexLt (vec w) (vec m) = false := by
  intro H
  induction H with
  | nil => intro h; exact absurd rfl h
  | cons a t ih =>
    intro _
    cases t with
    | nil => exact ⟨a, by simp, by intro w hw; simp at hw; subst hw; exact lexLt_irrefl _⟩
    | cons b t' =>
      obtain ⟨m, hm, hmin⟩ := ih (by simp)
      by_cases hlt : lexLt (vec a) (vec m) = true
      · refine ⟨a, by simp, ?_⟩
        intro w hw
        rcases List.mem_cons.mp hw with rfl | hw'
        · exact lexLt_irrefl _
        · cases h : lexLt (vec w) (vec a) with
          | false => rfl
          | true =>
            have := lexLt_trans _ _ _ h hlt
            rw [hmin w hw'] at this; cases this
      · refine ⟨m, List.mem_cons_of_mem _ hm, ?_⟩
        intro w hw
        rcases List.mem_cons.mp hw with rfl | hw'
        · simpa using hlt
        · exact hmin w hw'

/-! ### minimum cardinality of the minimal family = minimum count over worlds -/
theorem minLen_le_mem : ∀ (X : List (List Cond)) s, s ∈ X → minLen X ≤ s.length := by
  intro X
  induction X with
  | nil => intro s h; simp at h
  | cons a t ih =>
    intro s hs
    cases t with
    | nil => simp at hs; subst hs; simp [minLen]
    | cons b t' =>
      simp only [minLen]
      rcases List.mem_cons.mp hs with rfl | h
      · exact Nat.min_le_left _ _
      · exact Nat.le_trans (Nat.min_le_right _ _) (ih s h)

theorem minLen_mem : ∀ (X : List (List Cond)), X ≠ [] → ∃ s ∈ X, s.length = minLen X := by
  intro X
  induction X with
  | nil => intro h; exact absurd rfl h
  | cons a t ih =>
    intro _
    cases t with
    | nil => exact ⟨a, by simp, by simp [minLen]⟩
    | cons b t' =>
      obtain ⟨s, hs, hlen⟩ := ih (by simp)
      simp only [minLen]
      by_cases h : a.length ≤ minLen (b :: t')
      · exact ⟨a, by simp, by rw [Nat.min_eq_left h]⟩
      · exact ⟨s, List.mem_cons_of_mem _ hs, by rw [Nat.min_eq_right (by omega)]; exact hlen⟩

theorem subset_len_le {L : List Cond} {w : World} {s : List Cond} (hs : ∃ w0, fset L w0 = s)
    (h : subsetL s (fset L w) = true) : s.length ≤ cnt L w := by
  obtain ⟨w0, rfl⟩ := hs
  unfold cnt fset
  apply filter_len_le
  intro x hx hx0
  have := subsetL_iff.mp h x (by simp [fset, List.mem_filter, hx, hx0])
  simp only [fset, List.mem_filter] at this
  exact this.2

/-- equal length + inclusion ⇒ equality, for falsification sets of one layer -/
theorem subset_len_eq {L : List Cond} {w0 w : World}
    (h : subsetL (fset L w0) (fset L w) = true) (hl : cnt L w ≤ cnt L w0) : fset L w0 = fset L w := by
  apply fset_antisymm h
  apply subsetL_iff.mpr
  intro x hx
  apply Classical.byContradiction
  intro hnx
  have hsub := subsetL_iff.mp h
  have : (fset L w0).length < (fset L w).length := by
    unfold fset
    apply filter_len_lt
    · intro z hz hz0
      have := hsub z (by simp [fset, List.mem_filter, hz, hz0])
      simp only [fset, List.mem_filter] at this
      exact this.2
    · simp only [fset, List.mem_filter] at hx hnx
      refine ⟨x, hx.1, hx.2, ?_⟩
      cases h0 : x.fal w0 with
      | false => rfl
      | true => exact absurd ⟨hx.1, h0⟩ hnx
  unfold cnt at hl
  omega

theorem minLen_le_cnt {L : List Cond} {H : List World} (w : World) (hw : w ∈ H) :
    minLen (famMin L H) ≤ cnt L w := by
  obtain ⟨s, hs, hsub⟩ := famMin_below (L := L) w hw
  obtain ⟨w0, _, hw0⟩ := famMin_real hs
  exact Nat.le_trans (minLen_le_mem _ s hs) (subset_len_le ⟨w0, hw0⟩ hsub)

theorem famMin_ne_nil {L : List Cond} {H : List World} (h : H ≠ []) : famMin L H ≠ [] := by
  cases H with
  | nil => exact absurd rfl h
  | cons w t =>
    obtain ⟨s, hs, _⟩ := famMin_below (L := L) (H := w :: t) w (by simp)
    intro h0; rw [h0] at hs; simp at hs

theorem famMin_nil_iff {L : List Cond} {H : List World} : (famMin L H).isEmpty = true ↔ H = [] := by
  constructor
  · intro h
    apply Classical.byContradiction
    intro hne
    exact famMin_ne_nil (L := L) hne (List.isEmpty_iff.mp h)
  · intro h; subst h; simp [famMin]

/-- a world whose count equals the minimum has its set among the minimum-cardinality minimal sets -/
theorem mem_minsets {L : List Cond} {H : List World} (w : World) (hw : w ∈ H)
    (hc : cnt L w = minLen (famMin L H)) :
    fset L w ∈ (famMin L H).filter (·.length == minLen (famMin L H)) := by
  obtain ⟨s, hs, hsub⟩ := famMin_below (L := L) w hw
  obtain ⟨w0, hw0, rfl⟩ := famMin_real hs
  have h1 := minLen_le_mem _ _ hs
  have : fset L w0 = fset L w := subset_len_eq hsub (by unfold cnt at *; omega)
  rw [← this]
  simp only [List.mem_filter, beq_iff_eq]
  refine ⟨hs, ?_⟩
  have h2 := subset_len_le ⟨w0, rfl⟩ hsub
  unfold cnt at hc h2; omega

theorem algLex_eq_specLex : ∀ (layers : List (List Cond)) (Hv Hf : List World), Hf ≠ [] →
    algLex layers Hv Hf = specLex layers Hv Hf := by
  intro layers
  induction layers with
  | nil =>
    intro Hv Hf hf
    cases Hf with
    | nil => exact absurd rfl hf
    | cons a t => simp [algLex, specLex, lexVec, lexLt]
  | cons L rest ih =>
    intro Hv Hf hf
    rw [Bool.eq_iff_iff]
    have hvec : ∀ w, lexVec (L :: rest) w = cnt L w :: lexVec rest w := fun w => rfl
    have hspec : specLex (L :: rest) Hv Hf = true ↔
        ∀ w' ∈ Hf, ∃ w ∈ Hv, cnt L w < cnt L w' ∨ (cnt L w = cnt L w' ∧ lexLt (lexVec rest w) (lexVec rest w') = true) := by
      simp [specLex, hvec, lexLt, List.all_eq_true, List.any_eq_true]
    rw [hspec]
    simp only [algLex]
    by_cases hXv : (famMin L Hv).isEmpty = true
    · -- no verifying world
      have hHv : Hv = [] := famMin_nil_iff.mp hXv
      simp only [hXv, if_true, Bool.false_eq_true, false_iff]
      intro h
      cases Hf with
      | nil => exact hf rfl
      | cons a t => obtain ⟨w, hw, _⟩ := h a (by simp); rw [hHv] at hw; simp at hw
    · have hHv : Hv ≠ [] := fun h => hXv (famMin_nil_iff.mpr h)
      have hXf : ¬ (famMin L Hf).isEmpty = true := fun h => hf (famMin_nil_iff.mp h)
      simp only [hXv, hXf, if_false, Bool.false_eq_true]
      -- minimal counts are attained
      obtain ⟨sv, hsv, hsvlen⟩ := minLen_mem (famMin L Hv) (famMin_ne_nil hHv)
      obtain ⟨wv, hwv, hwvs⟩ := famMin_real hsv
      obtain ⟨sf, hsf, hsflen⟩ := minLen_mem (famMin L Hf) (famMin_ne_nil hf)
      obtain ⟨wf, hwf, hwfs⟩ := famMin_real hsf
      have hcv : cnt L wv = minLen (famMin L Hv) := by unfold cnt; rw [hwvs]; exact hsvlen
      have hcf : cnt L wf = minLen (famMin L Hf) := by unfold cnt; rw [hwfs]; exact hsflen
      by_cases h1 : minLen (famMin L Hv) < minLen (famMin L Hf)
      · simp only [h1, if_true, true_iff]
        intro w' hw'
        refine ⟨wv, hwv, Or.inl ?_⟩
        have := minLen_le_cnt (L := L) w' hw'
        omega
      · by_cases h2 : minLen (famMin L Hf) < minLen (famMin L Hv)
        · simp only [h1, h2, if_false, if_true, Bool.false_eq_true, false_iff]
          intro h
          obtain ⟨w, hw, hlt⟩ := h wf hwf
          have := minLen_le_cnt (L := L) w hw
          omega
        · have hm : minLen (famMin L Hv) = minLen (famMin L Hf) := by omega
          simp only [h1, h2, if_false, List.any_eq_true, List.all_eq_true]
          constructor
          · -- alg ⇒ spec
            rintro ⟨xv, hxv, hall⟩ w' hw'
            simp only [List.mem_filter, beq_iff_eq] at hxv
            obtain ⟨wx, hwx, hwxs⟩ := famMin_real hxv.1
            have hcx : cnt L wx = minLen (famMin L Hv) := by unfold cnt; rw [hwxs]; exact hxv.2
            have hge := minLen_le_cnt (L := L) w' hw'
            by_cases hgt : minLen (famMin L Hf) < cnt L w'
            · exact ⟨wx, hwx, Or.inl (by omega)⟩
            · have hceq : cnt L w' = minLen (famMin L Hf) := by omega
              have hmem := mem_minsets w' hw' hceq
              have hrec := hall _ hmem
              have hne : Hf.filter (fset L · == fset L w') ≠ [] := by
                intro h0
                have : w' ∈ Hf.filter (fset L · == fset L w') := by simp [List.mem_filter, hw']
                rw [h0] at this; simp at this
              rw [ih _ _ hne] at hrec
              simp only [specLex, List.all_eq_true, List.any_eq_true, List.mem_filter, beq_iff_eq] at hrec
              obtain ⟨w, ⟨hw, hws⟩, hlt⟩ := hrec w' ⟨hw', rfl⟩
              refine ⟨w, hw, Or.inr ⟨?_, hlt⟩⟩
              unfold cnt at *; rw [hws, hxv.2, hm]; exact hceq.symm
          · -- spec ⇒ alg : choose the lexicographically least verifying world
            intro h
            obtain ⟨m, hmH, hmmin⟩ := exists_lexmin (lexVec (L :: rest)) (L :: rest).length
              (fun w => by simp [lexVec]) Hv hHv
            -- its first component is the minimum
            have hmc : cnt L m = minLen (famMin L Hv) := by
              have hge := minLen_le_cnt (L := L) m hmH
              have := hmmin wv hwv
              simp only [hvec, lexLt, Bool.or_eq_false_iff, decide_eq_false_iff_not] at this
              omega
            refine ⟨fset L m, mem_minsets m hmH hmc, ?_⟩
            intro xf hxf
            simp only [List.mem_filter, beq_iff_eq] at hxf
            have hne : Hf.filter (fset L · == xf) ≠ [] := by
              obtain ⟨w0, hw0, hw0s⟩ := famMin_real hxf.1
              intro h0
              have : w0 ∈ Hf.filter (fset L · == xf) := by simp [List.mem_filter, hw0, hw0s]
              rw [h0] at this; simp at this
            rw [ih _ _ hne]
            simp only [specLex, List.all_eq_true, List.any_eq_true, List.mem_filter, beq_iff_eq]
            rintro w' ⟨hw', hw's⟩
            have hcw' : cnt L w' = minLen (famMin L Hf) := by unfold cnt; rw [hw's]; exact hxf.2
            obtain ⟨w, hw, hlt⟩ := h w' hw'
            have hwge := minLen_le_cnt (L := L) w hw
            refine ⟨m, ⟨hmH, rfl⟩, ?_⟩
            -- vec m ≤ vec w < vec w'
            have hlt' : lexLt (lexVec (L :: rest) w) (lexVec (L :: rest) w') = true := by
              simp only [hvec, lexLt, Bool.or_eq_true, decide_eq_true_eq, Bool.and_eq_true, beq_iff_eq]
              exact hlt
            have hmw' : lexLt (lexVec (L :: rest) m) (lexVec (L :: rest) w') = true := by
              rcases lexLt_total (lexVec (L :: rest) m) (lexVec (L :: rest) w) (by simp [lexVec]) with h' | h' | h'
              · exact lexLt_trans _ _ _ h' hlt'
              · rw [h']; exact hlt'
              · rw [hmmin w hw] at h'; cases h'
            simp only [hvec, lexLt, Bool.or_eq_true, decide_eq_true_eq, Bool.and_eq_true, beq_iff_eq] at hmw'
            rcases hmw' with h' | ⟨_, h'⟩
            · omega
            · exact h'

end InfOCF
