import InfOCFModel.Ops
import InfOCFModel.Diag
import InfOCFModel.Cnf
import InfOCFModel.Rank
import InfOCFModel.Lexer
import InfOCFModel.CRepModel
import InfOCFModel.RemoveSup
import InfOCFModel.CCert
import InfOCFModel.LinCert
/-!
Line-protocol driver: one request per line on stdin, one response per line on stdout.

Formulas (prefix, whitespace-separated tokens): `T` `F` `a<i>` `!` φ `&` φ ψ `|` φ ψ
Conditional: `C <key> <cons> <ante>`
Lists are count-prefixed.

Requests
  part <n> <weakly> <k> C*            → `none` | layers of keys `1,2;3;` (`;` ends a layer)
  ans  <n> <weakly> <k> C* <m> C*     → `refuse-empty` | `refuse-incons` | per query `pzwl/PZWL` (model/spec bits), space separated
-/
open InfOCF

abbrev P := StateT (List String) (Except String)

def tok : P String := do
  match (← get) with
  | [] => throw "unexpected end of line"
  | t :: ts => set ts; pure t

def pnat : P Nat := do
  let t ← tok
  match t.toNat? with
  | some n => pure n
  | none => throw s!"expected number, got {t}"

partial def fm : P Fm := do
  let t ← tok
  match t with
  | "T" => pure .top
  | "F" => pure .bot
  | "!" => do let a ← fm; pure (.neg a)
  | "&" => do let a ← fm; let b ← fm; pure (.and a b)
  | "|" => do let a ← fm; let b ← fm; pure (.or a b)
  | _ =>
    if t.startsWith "a" then
      match (t.drop 1).toNat? with
      | some i => pure (.atom i)
      | none => throw s!"bad atom {t}"
    else throw s!"bad formula token {t}"

def pcond : P Cond := do
  let t ← tok
  if t != "C" then throw s!"expected C, got {t}"
  let k ← pnat
  let b ← fm
  let a ← fm
  pure ⟨b, a, k⟩

def listOf {α} (p : P α) : P (List α) := do
  let n ← pnat
  let mut acc := []
  for _ in [0:n] do
    acc := (← p) :: acc
  pure acc.reverse

def showPart (P : List (List Cond)) : String :=
  String.join (P.map fun L => ",".intercalate (L.map fun c => toString c.key) ++ ";")

def showWorld (w : World) : String := String.join (w.map fun b => if b then "1" else "0")

def showAssoc (l : List (World × Nat)) : String :=
  ",".intercalate (l.map fun p => showWorld p.1 ++ ":" ++ toString p.2)

def rankFn (Ω : List World) (ranks : List Nat) : World → Nat :=
  fun w => ((Ω.zip ranks).lookup w).getD 0

/-- the Z-ranking by its definition, in the mode's view: top rank for infeasible worlds -/
def zSpecRank (weakly : Bool) (P : List (List Cond)) (w : World) : Nat :=
  let fin := finLayers weakly P
  if nofal (infLayer weakly P) w then zrk fin w else fin.length + 1

def hexVal (c : Char) : Nat :=
  if c.isDigit then c.toNat - '0'.toNat else if 'a' ≤ c && c ≤ 'f' then c.toNat - 'a'.toNat + 10 else 0

/-- text arrives hex-encoded (UTF-8 bytes; the harness only sends code points below 128 un-escaped,
anything else is sent as the byte sequence and decoded per byte, which is enough to be an illegal character) -/
def unhex (s : String) : String :=
  let rec go : List Char → List Char
    | a :: b :: r => Char.ofNat (hexVal a * 16 + hexVal b) :: go r
    | _ => []
  String.ofList (go (s.toList.drop 1))

def hexOf (s : String) : String :=
  let d (n : Nat) : Char := if n < 10 then Char.ofNat (48 + n) else Char.ofNat (87 + n)
  String.ofList (s.toUTF8.toList.flatMap fun b => [d (b.toNat / 16), d (b.toNat % 16)])

def showParsedBase (b : ParsedBase) : String :=
  "ok\t" ++ ",".intercalate b.signature ++ "\t" ++ b.name ++ "\t" ++
    "\t".intercalate (b.conds.map fun p => p.1.show ++ " ## " ++ p.2.show)

def bit (b : Bool) : String := if b then "1" else "0"

/-- number of vectors in the box below `η`; the exact Pareto test enumerates all of them, so it is only run on boxes up to `boxLimit`
(the answer is `?` beyond: the harness then looks for a dominated witness with its search engine) -/
def boxSize (η : List Nat) : Nat := η.foldl (fun acc x => acc * (x + 1)) 1
def boxLimit : Nat := 200000

def showOut : Out → String
  | .refuseEmpty => "E"
  | .refuseIncons => "I"
  | .val b => bit b

/-- spec side of an answer: the property's wording evaluated directly -/
def specAns (weakly : Bool) (Ω : List World) (D : List Cond) (q : Cond)
    (sp : List (List Cond) → List World → Cond → Bool) : Out :=
  match D with
  | [] => .refuseEmpty
  | _ =>
    match partFor weakly Ω D with
    | none => .refuseIncons
    | some P => .val (sp (finLayers weakly P) (feasible Ω (infLayer weakly P)) q)

def specPAns (weakly : Bool) (Ω : List World) (D : List Cond) (q : Cond) : Out :=
  match D with
  | [] => .refuseEmpty
  | _ =>
    if weakly then
      match specPExt Ω D q with
      | none => .refuseIncons
      | some b => .val b
    else
      match partS Ω D with
      | none => .refuseIncons
      | some _ => .val (trivialQ Ω q || (tolPart Ω (D.length + 1) (negq q :: D)).isNone)

def handle (line : String) : Except String (String × Bool) := do
  let ts := (line.splitOn " ").filter (· ≠ "")
  let run : P (String × Bool) := do
    let cmd ← tok
    match cmd with
    | "part" =>
      let n ← pnat
      let wk ← pnat
      let D ← listOf pcond
      let Ω := allWorlds n
      match partFor (wk == 1) Ω D with
      | none => pure ("none", true)
      | some P => pure (showPart P, true)
    | "diag" =>
      let n ← pnat
      let ext ← pnat
      let uf ← pnat
      let D ← listOf pcond
      let F ← listOf fm
      let Ω := allWorlds n
      let c := diagCode (ext == 1) (uf == 1) Ω D F
      let s := diagSpec (ext == 1) (uf == 1) Ω D F
      let sh (d : Diag) : String := String.join ([d.facts, d.bb, d.bbw, d.comb, d.infinc].map fun o =>
        match o with | none => "-" | some b => bit b)
      pure (sh c ++ "/" ++ sh s, c == s)
    | "cnf" =>
      let n ← pnat
      let aux ← pnat
      let kind ← tok
      let c ← pcond
      let m ← pnat
      let mut F : CNF := []
      for _ in [0:m] do
        let len ← pnat
        let mut cl : Clause := []
        for _ in [0:len] do
          let t ← tok
          match t.toInt? with
          | some i => cl := i :: cl
          | none => throw s!"bad literal {t}"
        F := cl.reverse :: F
      let sem : World → Bool := match kind with
        | "v" => c.ver
        | "f" => c.fal
        | _ => fun w => !(c.fal w)
      pure (if cnfFaithfulB n aux F.reverse sem then "ok" else "bad", true)
    | "mcs" =>
      let n ← pnat
      let hard ← fm
      let L ← listOf pcond
      let H := (allWorlds n).filter fun w => hard.eval w
      pure (showPart (famMin L H), true)
    | "frank" =>
      let n ← pnat
      let Ω := allWorlds n
      let mut rs : List Nat := []
      for _ in [0:Ω.length] do rs := (← pnat) :: rs
      let φ ← fm
      match formulaRank Ω (rankFn Ω rs.reverse) φ with
      | none => pure ("none", true)
      | some r => pure (toString r, true)
    | "accept" =>
      let n ← pnat
      let Ω := allWorlds n
      let mut rs : List Nat := []
      for _ in [0:Ω.length] do rs := (← pnat) :: rs
      let c ← pcond
      pure (bit (acceptCode Ω (rankFn Ω rs.reverse) c), true)
    | "marg" =>
      let n ← pnat
      let Ω := allWorlds n
      let mut rs : List Nat := []
      for _ in [0:Ω.length] do rs := (← pnat) :: rs
      let drop ← listOf pnat
      pure (showAssoc (marginalize Ω (rankFn Ω rs.reverse) drop), true)
    | "cond" =>
      let n ← pnat
      let Ω := allWorlds n
      let mut rs : List Nat := []
      for _ in [0:Ω.length] do rs := (← pnat) :: rs
      let φ ← fm
      pure (showAssoc (conditionalize Ω (rankFn Ω rs.reverse) φ), true)
    | "tpo" =>
      let n ← pnat
      let Ω := allWorlds n
      let mut rs : List Nat := []
      for _ in [0:Ω.length] do rs := (← pnat) :: rs
      let fvals ← listOf pnat
      let κ := rankFn Ω rs.reverse
      let tpo := ranks2tpo Ω κ
      let layers := ";".intercalate (tpo.map fun L => ",".intercalate (L.map showWorld))
      let back := tpo2ranks tpo (fun i => fvals.getD i 0)
      pure (layers ++ "|" ++ showAssoc back, true)
    | "zobj" =>
      let n ← pnat
      let wk ← pnat
      let D ← listOf pcond
      let F ← listOf fm
      let Q ← listOf pcond
      let Ω := allWorlds n
      let weakly := wk == 1
      let D' := if F.isEmpty then D else augment D F
      match partFor weakly Ω D' with
      | none => pure ("none", true)
      | some P =>
        let code := Ω.map (zObjRank P)
        let spec := Ω.map (zSpecRank weakly P)
        let κ := zObjRank P
        let acc := Q.map fun q => acceptCode Ω κ q
        let Ωf := feasible Ω (infLayer weakly P)
        -- operator answers, only meaningful where the antecedent has a feasible model
        let ops := Q.map fun q =>
          if Ωf.any (fun w => q.ante.eval w) then
            (match ansZ weakly Ω D' q with | .val b => bit b | _ => "-")
          else "x"
        let okAcc := (List.zip acc ops).all fun p => p.2 == "x" || p.2 == "-" || p.2 == bit p.1
        pure (" ".intercalate (code.map toString) ++ "|" ++ String.join (acc.map bit) ++ "|" ++ String.join ops,
              code == spec && okAcc)
    | "pformula" =>
      let h ← tok
      match parseFormulaText (unhex h) with
      | some f => pure ("ok\t" ++ f.show, true)
      | none => pure ("reject", true)
    | "ftext" =>
      -- the text the theorem `C10_text_roundtrip` speaks about (names as plain tokens), and the model's reading of it
      let names ← listOf tok
      let φ ← fm
      let t := text names φ
      pure (t, parseFormulaText t == some (PF.ofFm names φ))
    | "btext" =>
      -- the belief-base file `C10_base_roundtrip` speaks about, hex-encoded (it contains line breaks)
      let sig ← listOf tok
      let name ← tok
      let cs ← listOf pcond
      let pairs := cs.map fun c => (c.cons, c.ante)
      let t := baseText sig name pairs
      let ok := match parseBaseText t with
        | some pb => pb.signature == sig && pb.name == name &&
            pb.conds == pairs.map fun c => (PF.ofFm sig c.1, PF.ofFm sig c.2)
        | none => false
      pure (hexOf t, ok)
    | "pbase" =>
      let h ← tok
      match parseBaseText (unhex h) with
      | some b => pure (showParsedBase b, true)
      | none => pure ("reject", true)
    | "pqueries" =>
      let h ← tok
      match parseQueriesText (unhex h) with
      | some b => pure (showParsedBase b, true)
      | none => pure ("reject", true)
    | "crep" =>
      let n ← pnat
      let D ← listOf pcond
      let Q ← listOf pcond
      let mut ηr : List Nat := []
      for _ in [0:D.length] do ηr := (← pnat) :: ηr
      let η := ηr.reverse
      let Ω := allWorlds n
      let κ := kappaC D (impOf D η)
      let ranks := " ".intercalate (Ω.map fun w => toString (κ w))
      pure (bit (isCRepB Ω D η) ++ "|" ++ String.join (Q.map fun q => bit (acceptCode Ω κ q)) ++ "|" ++
            (if boxSize η ≤ boxLimit then bit (paretoMinB Ω D η) else "?") ++ "|" ++ ranks, true)
    | "ctab" =>
      -- families of the compiled c-inference system, as positions in D (the order is the one `cCertCheck` uses)
      let n ← pnat
      let D ← listOf pcond
      let Q ← listOf pcond
      let Ω := allWorlds n
      let showSet := fun (s : List Cond) => if s.isEmpty then "-" else ",".intercalate (s.map fun c => toString (D.idxOf c))
      let showFam := fun (X : List (List Cond)) => ";".intercalate (X.map showSet)
      let rows := (ctab Ω D).map fun r => showFam r.V ++ "#" ++ showFam r.F
      let qs := Q.map fun q => showFam (famMin D (Ω.filter q.ver)) ++ "#" ++ showFam (famMin D (Ω.filter q.fal))
      pure ("|".intercalate rows ++ "@" ++ "|".intercalate qs, true)
    | "ccert" =>
      -- check a pool of refutations for one query (theorem C05_cert_sound)
      let n ← pnat
      let D ← listOf pcond
      let Q ← listOf pcond
      let pool ← listOf (do
        let bm ← listOf (listOf pnat)
        let qm ← listOf pnat
        pure (⟨bm, qm⟩ : CLeaf))
      let Ω := allWorlds n
      pure (String.join (Q.map fun q => bit (cCertCheck Ω D q pool)), true)
    | "fcert" =>
      -- completeness certificate of a Pareto front (theorem C17_front_cert_sound)
      let n ← pnat
      let D ← listOf pcond
      let front ← listOf (listOf pnat)
      let pool ← listOf (do
        let bm ← listOf (listOf pnat)
        let fm ← listOf pnat
        pure (⟨bm, fm⟩ : FLeaf))
      pure (bit (frontCertCheck (allWorlds n) D front pool), true)
    | "csearch" =>
      let n ← pnat
      let B ← pnat
      let D ← listOf pcond
      let Q ← listOf pcond
      let Ω := allWorlds n
      let outs := Q.map fun q =>
        match counterModelInCube Ω D B q with
        | some η => "1:" ++ ",".intercalate (η.map toString)
        | none => "0"
      let anyRep := (boxVectors (D.map fun _ => B)).any (isCRepB Ω D)
      pure (bit anyRep ++ "|" ++ " ".intercalate outs, true)
    | "crev" =>
      let n ← pnat
      let Ω := allWorlds n
      let mut rs : List Nat := []
      for _ in [0:Ω.length] do rs := (← pnat) :: rs
      let R ← listOf pcond
      let mut gpr : List Nat := []
      for _ in [0:R.length] do gpr := (← pnat) :: gpr
      let mut gmr : List Nat := []
      for _ in [0:R.length] do gmr := (← pnat) :: gmr
      let κ := rankFn Ω rs.reverse
      let gp := gpr.reverse
      let gm := gmr.reverse
      let κ' := kappaRev κ R gp gm
      pure (bit (revOkB Ω κ R gp gm) ++ "|" ++ String.join (R.map fun c => bit (acceptCode Ω κ' c)) ++ "|" ++
            (if boxSize gm ≤ boxLimit then bit (revParetoMinB Ω κ R gp gm) else "?") ++ "|" ++ " ".intercalate (Ω.map fun w => toString (κ' w)), true)
    | "rcert" =>
      -- certificate that no c-revision parameters exist (theorem C19_none_cert_sound)
      let n ← pnat
      let gpz ← pnat
      let Ω := allWorlds n
      let mut rs : List Nat := []
      for _ in [0:Ω.length] do rs := (← pnat) :: rs
      let R ← listOf pcond
      let pool ← listOf (do
        let am ← listOf (listOf pnat)
        let zm ← pnat
        pure (⟨am, zm⟩ : RLeaf))
      let κ := rankFn Ω rs.reverse
      pure (bit (revCertCheck Ω κ R (gpz == 1) pool), true)
    | "crevsearch" =>
      -- is there any parameter vector in the cube [0..B] (γ⁺ and γ⁻, or γ⁻ only when gpz = 1)?
      let n ← pnat
      let B ← pnat
      let gpz ← pnat
      let Ω := allWorlds n
      let mut rs : List Nat := []
      for _ in [0:Ω.length] do rs := (← pnat) :: rs
      let R ← listOf pcond
      let κ := rankFn Ω rs.reverse
      let zero := R.map fun _ => 0
      let cube := boxVectors (R.map fun _ => B)
      let found := if gpz == 1 then (cube.find? fun gm => revOkB Ω κ R zero gm).map fun gm => (zero, gm)
                   else (cube.flatMap fun gp => cube.map fun gm => (gp, gm)).find? fun p => revOkB Ω κ R p.1 p.2
      match found with
      | some (gp, gm) => pure ("1:" ++ ",".intercalate (gp.map toString) ++ ":" ++ ",".intercalate (gm.map toString), true)
      | none => pure ("0", true)
    | "cfront" =>
      -- all Pareto-minimal c-representations inside the cube [0..B]^k (each tested exactly by the box test)
      let n ← pnat
      let B ← pnat
      let D ← listOf pcond
      let Ω := allWorlds n
      let front := frontInCube Ω D B
      pure (";".intercalate (front.map fun η => ",".intercalate (η.map toString)), true)
    | "rmsup" =>
      let m ← pnat
      let mut X : List (List Cond) := []
      for _ in [0:m] do
        let ks ← listOf pnat
        X := (ks.map fun k => (⟨.top, .top, k⟩ : Cond)) :: X
      pure (showPart (removeSupersets X.reverse), true)
    | "ans" =>
      let n ← pnat
      let wk ← pnat
      let D ← listOf pcond
      let Q ← listOf pcond
      let Ω := allWorlds n
      let weakly := wk == 1
      let mut outs : List String := []
      let mut ok := true
      for q in Q do
        let m := [ansP weakly Ω D q, ansZ weakly Ω D q, ansW weakly Ω D q, ansLex weakly Ω D q]
        let s := [specPAns weakly Ω D q, specAns weakly Ω D q specZ', specAns weakly Ω D q specW',
                  specAns weakly Ω D q specLex']
        if m != s then ok := false
        outs := (String.join (m.map showOut) ++ "/" ++ String.join (s.map showOut)) :: outs
      pure (" ".intercalate outs.reverse, ok)
    | _ => throw s!"unknown command {cmd}"
  match run.run ts with
  | .ok (r, _) => pure r
  | .error e => throw e

partial def loop (h : IO.FS.Stream) (out : IO.FS.Stream) (bad : Nat) : IO Nat := do
  let line ← h.getLine
  if line.isEmpty then return bad
  let line := line.trimAscii.toString
  if line.isEmpty then
    out.putStrLn ""
    loop h out bad
  else
    match handle line with
    | .ok (r, ok) =>
      out.putStrLn (if ok then r else "MISMATCH " ++ r)
      out.flush
      loop h out (if ok then bad else bad + 1)
    | .error e =>
      out.putStrLn ("ERROR " ++ e)
      out.flush
      loop h out (bad + 1)

def main : IO UInt32 := do
  let bad ← loop (← IO.getStdin) (← IO.getStdout) 0
  return (if bad == 0 then 0 else 2)
